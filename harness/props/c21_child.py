"""C21 child-process scripts (texts run with PYTHONPATH=<staged tree>)."""

# argv: spec-json {src, out, lenient}.  Compiles `src` with the staged compiler while recording, for every
# function flow handed to FlowControl.check_definitions, the graph, the computed bit sets and the flags.
COMPILE_AND_DUMP = r'''
import sys, json
spec = json.loads(sys.argv[1])
from Cython.Compiler.Main import compile as cy_compile, CompilationOptions
from Cython.Compiler import Options
import Cython.Compiler.Code as C
import Cython.Compiler.FlowControl as F
assert C.__file__.endswith('.py') and F.__file__.endswith('.py'), (C.__file__, F.__file__)
Options.error_on_uninitialized = not spec.get('lenient', True)
FLOWS = []
CUR = []
_orig_check = F.check_definitions
_orig_visit = F.ControlFlowAnalysis.visit_FuncDefNode

def bits(x):
    out = []; i = 0
    while x:
        if x & 1: out.append(i)
        x >>= 1; i += 1
    return out

def onebit(x):
    b = bits(x)
    if len(b) != 1:
        raise ValueError('not a single bit: %r' % (x,))
    return b[0]

def snapshot(flow):
    node = CUR[-1] if CUR else None
    blocks = [flow.entry_point] + sorted((b for b in flow.blocks if b is not flow.entry_point), key=id)
    bid = {b: i for i, b in enumerate(blocks)}
    entries = sorted(flow.entries, key=lambda e: (e.name, id(e)))
    vid = {e: i for i, e in enumerate(entries)}
    nodes = {}
    ninfo = []
    def nid(n):
        if n not in nodes:
            nodes[n] = len(nodes)
            pos = getattr(n, 'pos', None) or (None, 0, 0)
            ninfo.append({'cls': type(n).__name__, 'name': str(getattr(n, 'name', '')), 'line': pos[1], 'col': pos[2], 'obj': n})
        return nodes[n]
    d = {'func': str(getattr(getattr(node, 'entry', None), 'name', None) or getattr(node, 'name', '?')) if node is not None else '<module>',
         'line': node.pos[1] if node is not None else 0,
         'vars': [{'name': str(e.name), 'ubit': onebit(flow.assmts[e].bit), 'mask': bits(flow.assmts[e].mask),
                   'clo': bool(e.from_closure), 'in_closure': bool(e.in_closure), 'arg': bool(e.is_arg),
                   'predef': e.name in getattr(e.scope, 'scope_predefined_names', ())} for e in entries],
         '_entries': entries,
         'blocks': [], 'edges': [], 'parents': [], 'entry': 0, 'inp': [], 'out': [], 'gen': [], 'kill': []}
    for b in blocks:
        evs = []
        for s in b.stats:
            if isinstance(s, F.NameReference):
                evs.append(['r', vid[s.entry], nid(s.node)])
            elif isinstance(s, F.NameAssignment):
                evs.append(['d' if s.is_deletion else 'a', vid[s.entry], onebit(s.bit), nid(s.lhs)])
            else:
                raise ValueError('unknown stat %r' % (s,))
        d['blocks'].append(evs)
        for c in sorted(bid[c] for c in b.children):
            d['edges'].append([bid[b], c])
        d['parents'].append(sorted(bid[p] for p in b.parents))
        d['inp'].append(bits(b.i_input)); d['out'].append(bits(b.i_output))
        d['gen'].append(bits(b.i_gen)); d['kill'].append(bits(b.i_kill))
    d['exit'] = bid.get(flow.exit_point, -1)
    d['_ninfo'] = ninfo
    return d

def check_wrapper(flow, directives):
    _orig_check(flow, directives)
    try:
        FLOWS.append(snapshot(flow))
    except Exception as e:
        FLOWS.append({'dump_error': '%s: %s' % (type(e).__name__, e), 'func': '?'})

def visit_wrapper(self, node):
    CUR.append(node)
    try:
        return _orig_visit(self, node)
    finally:
        CUR.pop()

F.check_definitions = check_wrapper
F.ControlFlowAnalysis.visit_FuncDefNode = visit_wrapper
opts = CompilationOptions(language_level=3, compiler_directives=spec.get('directives', {}))
res = cy_compile(spec['src'], opts)
# flags are read at the END of the compilation: what the code generator saw
for d in FLOWS:
    for v, e in zip(d.get('vars', []), d.pop('_entries', [])):
        # the type the code generator used (after type inference)
        v['ctype'] = not (e.type.is_pyobject or e.type.is_unspecified)
        v['type'] = str(e.type)[:40]
    ni = d.pop('_ninfo', [])
    d['nodes'] = [{'cls': x['cls'], 'name': x['name'], 'line': x['line'], 'col': x['col'],
                   'maybe': bool(x['obj'].cf_maybe_null), 'isnull': bool(x['obj'].cf_is_null),
                   'allow_null': bool(getattr(x['obj'], 'allow_null', False))} for x in ni]
with open(spec['out'], 'w') as f:
    json.dump({'flows': FLOWS, 'errors': res.num_errors}, f)
sys.exit(0 if res.num_errors == 0 else 3)
'''

# argv: so-path, module name, chooser-source-path.  stdin: one JSON case per line {"f":name,"s":[..],"a":nargs}.
# stdout: one JSON outcome per line, flushed (so a crash is attributable to the next case).
RUNNER = r'''
import sys, json, importlib.util, signal
so, modname, chooser = sys.argv[1], sys.argv[2], sys.argv[3]
ns = {}
exec(compile(open(chooser).read(), chooser, 'exec'), ns)
spec = importlib.util.spec_from_file_location(modname, so)
mod = importlib.util.module_from_spec(spec)
sys.modules[modname] = mod
spec.loader.exec_module(mod)
canon = ns['canon']; run_one = ns['run_one']
signal.signal(signal.SIGALRM, signal.SIG_DFL)
out = sys.stdout
for line in sys.stdin:
    line = line.strip()
    if not line:
        continue
    case = json.loads(line)
    signal.alarm(10)
    r = run_one(getattr(mod, case['f']), case['s'], case['a'])
    signal.alarm(0)
    out.write(json.dumps(r) + '\n')
    out.flush()
'''

# shared by the oracle (in-process CPython exec of the same source) and the runner
RUN_ONE_SRC = r'''
def canon(v):
    if isinstance(v, bool) or v is None or isinstance(v, (int, str)):
        return v
    if isinstance(v, (tuple, list)):
        return [type(v).__name__] + [canon(x) for x in v]
    if isinstance(v, dict):
        return ['dict'] + [[canon(k), canon(x)] for k, x in sorted(v.items(), key=repr)]
    return '<' + type(v).__name__ + '>'

def run_one(fn, s, nargs):
    L = []
    c = Chooser(list(s))
    try:
        r = fn(c, L, *[-(i + 1) for i in range(nargs)])
        return ['ok', canon(r), canon(L)]
    except BaseException as e:
        return ['err', type(e).__name__, canon(L)]
'''

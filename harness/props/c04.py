"""C04 — overflowcheck reports exactly the overflowing C arithmetic.

Three legs, each three-way (implementation built from the staged tree / Lean model via cydrv /
independent oracle = Python big-int arithmetic + range test of the C result type):

 H  helper leg: the text of every section of the staged Cython/Utility/Overflow.c, instantiated by
    Cython's own Tempita loader and compiled verbatim, once with and once without
    __PYX_HAVE_BUILTIN_OVERFLOW (portable branch); raw (result, flag) compared with the model,
    (flag clear -> exact; not representable -> flag) checked against the oracle.  Includes the
    template instantiated for 8/16-bit C types (all 65536 pairs) and the narrow `Binop` path.
 P  plumbing leg: modules compiled by the staged compiler with overflowcheck=True,
    overflowcheck.fold in {True, False}, both helper variants (portable one forced with
    -D__ibmxl__ -D__INTEL_COMPILER=1700), every C integer type x {+ - * << unary- // /}, run-time and
    constant right operands, nested expressions; result types taken from cython.typeof of the
    same expressions.
 W  witnesses of the known defects (corpus/C04) replayed first; they also select, per defect,
    whether the model runs in its "existing code" or its "repaired" variant.
"""
import json
import math
import os

import cybuild
import lib

PORTABLE_CFLAGS = ["-D__ibmxl__", "-D__INTEL_COMPILER=1700"]

# tag, C/Cython spelling
TYPES = [
    ("sc", "signed char"), ("uc", "unsigned char"), ("ss", "short"), ("us", "unsigned short"),
    ("si", "int"), ("ui", "unsigned int"), ("sl", "long"), ("ul", "unsigned long"),
    ("sll", "long long"), ("ull", "unsigned long long"), ("sz", "Py_ssize_t"), ("uz", "size_t"),
]
TAG2TYPE = dict(TYPES)
BASE_NAMES = {"int", "long", "long long", "unsigned int", "unsigned long", "unsigned long long"}
GROUPS = [["sc", "uc", "ss", "us"], ["si", "ui", "sz", "uz"], ["sl", "ul", "sll", "ull"]]
SIGNED_TAGS = {"sc", "ss", "si", "sl", "sll", "sz"}

PROBE_HAVE_BUILTIN = '''
cdef extern from *:
    """
    #define VERIF_STR(x) #x
    #define VERIF_XSTR(x) VERIF_STR(x)
    #define VERIF_HAVE_BUILTIN (sizeof(VERIF_XSTR(__PYX_HAVE_BUILTIN_OVERFLOW)) == 1)
    """
    int VERIF_HAVE_BUILTIN
def _have_builtin():
    return VERIF_HAVE_BUILTIN
'''

GRID = '''
import os as _os
def _grid(name, pairs, path, skip):
    # one outcome per case, appended to `path` as it is produced: a crash of the process leaves the
    # outcomes of all earlier cases on disk and identifies the crashing case
    f = globals()[name]
    if isinstance(pairs, str):
        lo, hi = (-128, 127) if pairs == 'all8s' else (0, 255)
        pairs = [(a, b) for a in range(lo, hi + 1) for b in range(lo, hi + 1)]
    fd = _os.open(path, _os.O_WRONLY | _os.O_CREAT | _os.O_APPEND, 0o600)
    n = 0
    for args in pairs:
        n += 1
        if n <= skip:
            continue
        try:
            r = f(*args)
        except OverflowError:
            _os.write(fd, b'O;'); continue
        except ZeroDivisionError:
            _os.write(fd, b'Z;'); continue
        except BaseException as e:
            _os.write(fd, ('E' + type(e).__name__ + ';').encode()); continue
        if isinstance(r, tuple):
            _os.write(fd, (','.join([str(x) for x in r]) + ';').encode())
        else:
            _os.write(fd, (str(r) + ';').encode())
    _os.close(fd)
    return n
'''


# --------------------------------------------------------------------------------------------
# module generators

def probe_source():
    names = [t for _, t in TYPES] + ["char"]
    body = ", ".join("%r: sizeof(%s)" % (n, n) for n in names)
    return "def sizes():\n    return {%s}\ndef char_signed():\n    return (<char>-1) < 0\n" % body


# constants used with each operator; 'c' = cast to the operand type (`<T>K`, keeps the result type),
# 'l' = plain literal (Cython types it `long`)
def const_table(tag):
    signed = tag in SIGNED_TAGS
    t = []
    t += [("add", "c", 5), ("add", "l", 1), ("sub", "c", 7), ("sub", "l", 2), ("mul", "c", 7), ("mul", "l", 3),
          ("mul", "c", 0), ("mul", "c", 1), ("shl", "c", 3), ("shl", "l", 1), ("fdiv", "c", 7), ("fdiv", "l", 2)]
    if signed:
        t += [("add", "c", -5), ("sub", "c", -7), ("mul", "c", -3), ("mul", "c", -1), ("mul", "l", -1),
              ("fdiv", "c", -1), ("fdiv", "l", -1), ("fdiv", "c", -7)]
    return t


OPSYM = {"add": "+", "sub": "-", "mul": "*", "shl": "<<", "fdiv": "//", "tdiv": "/"}

# nested shapes over variables a b c d (all of the operand type) and cast constants; prefix form for
# the model: ('B', op, const, l, r) | ('V', name) | ('K', value)
NESTS = {
    "n1": ("(a + b) * c - d", ("B", "sub", 0, ("B", "mul", 0, ("B", "add", 0, ("V", "a"), ("V", "b")), ("V", "c")), ("V", "d"))),
    "n2": ("a * b + c * d", ("B", "add", 0, ("B", "mul", 0, ("V", "a"), ("V", "b")), ("B", "mul", 0, ("V", "c"), ("V", "d")))),
    "n3": ("(a - b) * (c - d)", ("B", "mul", 0, ("B", "sub", 0, ("V", "a"), ("V", "b")), ("B", "sub", 0, ("V", "c"), ("V", "d")))),
    "n4": ("((a - b) << <T>2) + c * d", ("B", "add", 0, ("B", "lshift", 1, ("B", "sub", 0, ("V", "a"), ("V", "b")), ("K", 2)),
                                        ("B", "mul", 0, ("V", "c"), ("V", "d")))),
    "n5": ("a + b + c + d", ("B", "add", 0, ("B", "add", 0, ("B", "add", 0, ("V", "a"), ("V", "b")), ("V", "c")), ("V", "d"))),
    # constant first operand of + and *: NumBinopNode swaps the operands
    "n6": ("<T>3 * a - (<T>5 + b) * c", ("B", "sub", 0, ("B", "mul", 1, ("V", "a"), ("K", 3)),
                                        ("B", "mul", 0, ("B", "add", 1, ("V", "b"), ("K", 5)), ("V", "c")))),
}


def subexprs(tree, src_of):
    """all operator nodes of a nest (for the typeof uniformity check)"""
    out = []
    if tree[0] == "B":
        out.append(tree)
        out += subexprs(tree[3], src_of) + subexprs(tree[4], src_of)
    return out


def tree_src(tree, T):
    if tree[0] == "V":
        return tree[1]
    if tree[0] == "K":
        return "<%s>%d" % (T, tree[1])
    sym = {"add": "+", "sub": "-", "mul": "*", "lshift": "<<"}[tree[1]]
    return "(%s %s %s)" % (tree_src(tree[3], T), sym, tree_src(tree[4], T))


def plumb_source(tags, cdivision=False, divonly=False, language_level=3):
    """functions for the given type tags; returns (source, catalogue) where catalogue maps a function
    name to a descriptor dict"""
    L = ["cimport cython", PROBE_HAVE_BUILTIN, GRID]
    cat = {}
    types_body = []

    def add(name, tag, kind, params, expr, **extra):
        T = TAG2TYPE[tag]
        L.append("def %s(%s):\n    return %s\n" % (name, ", ".join("%s %s" % (T, p) for p in params), expr))
        types_body.append("    r[%r] = cython.typeof(%s)" % (name, expr))
        d = {"tag": tag, "kind": kind, "params": params, "expr": expr}
        d.update(extra)
        cat[name] = d

    for tag in tags:
        T = TAG2TYPE[tag]
        if not divonly:
            for op in ("add", "sub", "mul", "shl"):
                add("%s_%s" % (op, tag), tag, "bin", ["a", "b"], "a %s b" % OPSYM[op], op=op, const=None)
            add("neg_%s" % tag, tag, "neg", ["a"], "-a")
        divops = ["fdiv"] + (["tdiv"] if (cdivision or language_level == 2) else [])
        for op in divops:
            add("%s_%s" % (op, tag), tag, "div", ["a", "b"], "a %s b" % OPSYM[op], op=op, const=None)
        for i, (op, form, k) in enumerate(const_table(tag)):
            if divonly and op != "fdiv":
                continue
            ks = ("<%s>%d" % (T, k)) if form == "c" else ("(%d)" % k if k < 0 else "%d" % k)
            kind = "div" if op == "fdiv" else "bin"
            add("%sk%d_%s" % (op, i, tag), tag, kind, ["a"], "a %s %s" % (OPSYM[op], ks), op=op, const=k, form=form, side="r")
            if op in ("add", "mul", "sub", "shl") and form == "c":
                add("k%s%d_%s" % (op, i, tag), tag, "bin", ["a"], "%s %s a" % (ks, OPSYM[op]), op=op, const=k, form=form, side="l")
            if op == "fdiv" and (cdivision or language_level == 2):
                add("tdivk%d_%s" % (i, tag), tag, "div", ["a"], "a / %s" % ks, op="tdiv", const=k, form=form, side="r")
        if not divonly:
            for nm, (src, tree) in NESTS.items():
                add("%s_%s" % (nm, tag), tag, "nest", ["a", "b", "c", "d"], src.replace("<T>", "<%s>" % T), nest=nm)
                for j, sub in enumerate(subexprs(tree, None)):
                    types_body.append("    r[%r] = cython.typeof(%s)" % ("%s_%s#%d" % (nm, tag, j), tree_src(sub, T)))
        add("ndiv_%s" % tag, tag, "ndiv", ["a", "b", "c", "d"], "a // (b + c) + d")
        types_body.append("    r[%r] = cython.typeof(b + c)" % ("ndiv_%s#0" % tag))
        types_body.append("    r[%r] = cython.typeof(a // (b + c))" % ("ndiv_%s#1" % tag))
    decl = []
    for tag in tags:
        decl.append("    cdef %s a = 0, b = 0, c = 0, d = 0" % TAG2TYPE[tag])
    # one typeof function per tag (locals are re-declared per function)
    tf = []
    for tag in tags:
        mine = [l for l in types_body if ("_%s'" % tag) in l or ("_%s#" % tag) in l]
        tf.append("def _types_%s():\n    cdef %s a = 0, b = 0, c = 0, d = 0\n    r = {}\n%s\n    return r\n"
                  % (tag, TAG2TYPE[tag], "\n".join(mine)))
    L += tf
    L.append("def _types():\n    r = {}\n%s\n    return r\n" % "\n".join("    r.update(_types_%s())" % t for t in tags))
    return "\n".join(L), cat


NARROW_SRC = '''
cimport cython
cdef extern from *:
    """
    typedef signed char tiny_t;
    typedef unsigned char utiny_t;
    typedef short small_t;
    """
    ctypedef int tiny_t
    ctypedef unsigned int utiny_t
    ctypedef int small_t
''' + GRID + '''
def add_tiny(tiny_t a, tiny_t b): return a + b
def sub_tiny(tiny_t a, tiny_t b): return a - b
def mul_tiny(tiny_t a, tiny_t b): return a * b
def shl_tiny(tiny_t a, tiny_t b): return a << b
def add_utiny(utiny_t a, utiny_t b): return a + b
def sub_utiny(utiny_t a, utiny_t b): return a - b
def mul_utiny(utiny_t a, utiny_t b): return a * b
def shl_utiny(utiny_t a, utiny_t b): return a << b
def add_small(small_t a, small_t b): return a + b
def sub_small(small_t a, small_t b): return a - b
def mul_small(small_t a, small_t b): return a * b
def shl_small(small_t a, small_t b): return a << b
def _types():
    cdef tiny_t a = 0
    cdef utiny_t b = 0
    cdef small_t c = 0
    return {'tiny': (cython.typeof(a + a), cython.typeof(a << a), sizeof(tiny_t)),
            'utiny': (cython.typeof(b + b), cython.typeof(b << b), sizeof(utiny_t)),
            'small': (cython.typeof(c + c), cython.typeof(c << c), sizeof(small_t))}
'''
NARROW = {"tiny": (1, 8), "utiny": (0, 8), "small": (1, 16)}

# --- helper leg -----------------------------------------------------------------------------
H_SIGNED = [("int", "int"), ("long", "long"), ("long long", "long_long"), ("char", "xchar"), ("short", "xshort")]
H_UNSIGNED = [("unsigned int", "unsigned_int"), ("unsigned long", "unsigned_long"),
              ("unsigned long long", "unsigned_long_long"), ("unsigned char", "xuchar"), ("unsigned short", "xushort")]
H_BINOP = [("Py_ssize_t", "Py_ssize_t", 1), ("size_t", "size_t", 0), ("signed char", "signed_char", 1),
           ("unsigned char", "unsigned_char", 0), ("short", "short", 1), ("unsigned short", "unsigned_short", 0)]
H_BINOPS = ["add", "sub", "mul", "div", "add_const", "sub_const", "mul_const"]
H_LSHIFT = [(t, t.replace(" ", "_")) for _, t in TYPES]
H_NEGM = [("short", "short"), ("int", "int"), ("long", "long"), ("long long", "long_long"), ("Py_ssize_t", "Py_ssize_t")]
H_CONSTS = [7, -3, -1, 0, 1, 2, 46341, 65536]


def helper_source(portable, with_consts=False):
    from Cython.Compiler.Code import TempitaUtilityCode, UtilityCode
    C = []
    common = UtilityCode.load("Common", "Overflow.c")
    C.append(common.proto)
    if portable:
        C.append("#undef __PYX_HAVE_BUILTIN_OVERFLOW")
    C.append("#ifdef __PYX_HAVE_BUILTIN_OVERFLOW\n#define VERIF_HB 1\n#else\n#define VERIF_HB 0\n#endif")
    decl = ["    int VERIF_HB"]
    defs = ["def _have_builtin():\n    return VERIF_HB\n"]
    cat = {}

    def wrap2(fn, T, cname, kind, **extra):
        decl.append("    %s %s(%s, %s, int*)" % (T, cname, T, T))
        defs.append("def %s(%s a, %s b):\n    cdef int o = 0\n    cdef %s r = %s(a, b, &o)\n    return (r, o)\n" % (fn, T, T, T, cname))
        d = {"T": T, "kind": kind}
        d.update(extra)
        cat[fn] = d

    for T, NAME in H_SIGNED:
        u = TempitaUtilityCode.load("BaseCaseSigned", "Overflow.c", context={"INT": T, "NAME": NAME})
        C += [u.proto, u.impl]
        for op in ("add", "sub", "mul", "div", "mul_const", "add_const", "sub_const", "div_const"):
            wrap2("h_%s_%s" % (op, NAME), T, "__Pyx_%s_%s_checking_overflow" % (op, NAME), "base", op=op, sg=1, base=1)
    for T, NAME in H_UNSIGNED:
        u = TempitaUtilityCode.load("BaseCaseUnsigned", "Overflow.c", context={"UINT": T, "NAME": NAME})
        C += [u.proto, u.impl]
        for op in ("add", "sub", "mul", "div", "mul_const", "add_const", "sub_const", "div_const"):
            if op == "mul_const" and NAME.startswith("x"):
                # `__PYX_MAX(unsigned char)` is `~0 = -1` after integer promotion: the bound test of mul_const is
                # meaningless for an instantiation narrower than int, which the compiler never makes
                continue
            wrap2("h_%s_%s" % (op, NAME), T, "__Pyx_%s_%s_checking_overflow" % (op, NAME), "base", op=op, sg=0, base=1)
    for T, NAME, sg in H_BINOP:
        u = TempitaUtilityCode.load("SizeCheck", "Overflow.c", context={"TYPE": T, "NAME": NAME})
        C.append(u.proto)
        decl.append("    int __Pyx_check_sane_%s()" % NAME)
        defs.append("def sane_%s():\n    return __Pyx_check_sane_%s()\n" % (NAME, NAME))
        cat["sane_%s" % NAME] = {"T": T, "kind": "sane"}
        for op in H_BINOPS:
            u = TempitaUtilityCode.load("Binop", "Overflow.c", context={"TYPE": T, "NAME": NAME, "BINOP": op})
            C += [u.proto, u.impl]
            wrap2("b_%s_%s" % (op, NAME), T, "__Pyx_%s_%s_checking_overflow" % (op, NAME), "binop", op=op, sg=sg, base=0)
    for T, NAME in H_LSHIFT:
        sg = 0 if (T.startswith("unsigned") or T == "size_t") else 1
        u = TempitaUtilityCode.load("LeftShift", "Overflow.c", context={"TYPE": T, "NAME": "ls_" + NAME, "SIGNED": sg})
        C.append(u.proto)
        wrap2("l_%s" % NAME, T, "__Pyx_lshift_ls_%s_checking_overflow" % NAME, "lshift", sg=sg)
    u = UtilityCode.load("UnaryNegOverflows", "Overflow.c")
    C.append(u.proto)
    decl.append("    int __Pyx_UNARY_NEG_WOULD_OVERFLOW(long)")
    for T, NAME in H_NEGM:
        defs.append("def negm_%s(%s x, %s unused):\n    return (__Pyx_UNARY_NEG_WOULD_OVERFLOW(x), 0)\n" % (NAME, T, T))
        cat["negm_%s" % NAME] = {"T": T, "kind": "negm", "sg": 1}
    if with_consts:
        # literal operands: with -O2 the helpers are inlined and __builtin_constant_p sees them
        for T, NAME in [("int", "int"), ("long", "long"), ("unsigned int", "unsigned_int"), ("unsigned long", "unsigned_long")]:
            sg = 0 if T.startswith("unsigned") else 1
            for k in H_CONSTS:
                if k < 0 and not sg:
                    continue
                ks = "(%d)" % k
                for side in "lr":
                    fn = "hc_mul_%s_%s%d" % (NAME, side, k if k >= 0 else 1000 - k)
                    call = ("__Pyx_mul_%s_checking_overflow(a, %s, &o)" if side == "r" else "__Pyx_mul_%s_checking_overflow(%s, a, &o)")
                    call = call % ((NAME, ks) if side == "r" else (NAME, ks))
                    defs.append("def %s(%s a, %s unused):\n    cdef int o = 0\n    cdef %s r = %s\n    return (r, o)\n" % (fn, T, T, T, call))
                    cat[fn] = {"T": T, "kind": "base", "op": "mul", "sg": sg, "base": 1, "k": k, "side": side}
    ctext = "\n".join(C)
    ctext = "\n".join(l for l in ctext.split("\n") if l.strip())
    assert '"""' not in ctext
    ctext = ctext.replace("\\", "\\\\")
    src = 'cdef extern from *:\n    """\n%s\n    """\n%s\n%s\n%s' % (ctext, "\n".join(decl), GRID, "\n".join(defs))
    return src, cat


# --------------------------------------------------------------------------------------------
# operand generators

def rng_of(sg, w):
    return (-(1 << (w - 1)), (1 << (w - 1)) - 1) if sg else (0, (1 << w) - 1)


def in_range(x, sg, w):
    lo, hi = rng_of(sg, w)
    return lo <= x <= hi


FULL_BOUNDARY = [False]


def boundary_values(sg, w):
    lo, hi = rng_of(sg, w)
    r = math.isqrt(hi)
    vals = {lo, lo + 1, hi, hi - 1, 0, 1, 2, 3, hi // 2, hi // 2 + 1, r, r + 1, 1 << (w // 2), w - 1, w, 31, 32}
    if sg:
        vals |= {-1, -2, -3, lo // 2, lo // 2 - 1, -r, -r - 1, -(1 << (w // 2))}
    if FULL_BOUNDARY[0]:
        vals |= {lo + 2, hi - 2, 7, hi // 2 - 1, hi // 3, r - 1, (1 << (w // 2)) - 1, w - 2, w + 1, 33, 63, 64}
        if sg:
            vals |= {-7, lo // 2 + 1, -r + 1, lo // 3}
    return sorted(v for v in vals if lo <= v <= hi)


def random_pairs(rng, sg, w, n, op):
    lo, hi = rng_of(sg, w)
    out = []

    def one():
        k = rng.randint(0, w)
        v = rng.randrange(0, 1 << k) if k else 0
        if sg and rng.random() < 0.5:
            v = -v - 1 if rng.random() < 0.5 else -v
        return min(max(v, lo), hi)
    for _ in range(n):
        a = one()
        u = rng.random()
        if op in ("shl", "lshift"):
            b = rng.choice((rng.randint(0, w + 2), rng.randint(0, w - 1), one()))
        elif u < 0.25 and op in ("add", "sub"):
            # around the boundary of the sum / difference
            tgt = rng.choice((lo, hi)) + rng.randint(-2, 2)
            b = tgt - a if op == "add" else a - tgt
        elif u < 0.35 and op == "mul" and a not in (0, 1, -1):
            tgt = rng.choice((lo, hi))
            b = tgt // a + rng.randint(-1, 1)
        elif u < 0.3 and op in ("fdiv", "tdiv", "div"):
            b = rng.choice((-1, 1, 2, -2, 3, 7, -7, 0)) if sg else rng.choice((1, 2, 3, 7, 0))
        else:
            b = one()
        b = min(max(b, lo), hi)
        out.append((a, b))
    return out


# --------------------------------------------------------------------------------------------
# oracle

def c_trunc_div(a, b):
    q = abs(a) // abs(b)
    return -q if (a < 0) != (b < 0) else q


def exact_bin(op, a, b):
    """exact mathematical result or None when undefined"""
    if op == "add":
        return a + b
    if op == "sub":
        return a - b
    if op == "mul":
        return a * b
    if op in ("shl", "lshift"):
        if b < 0:
            return None
        if a == 0:
            return 0
        if b > 4096:
            return a * (1 << 4096)      # certainly out of range, sign preserved
        return a << b
    if op == "fdiv":
        return None if b == 0 else a // b
    if op in ("tdiv", "div"):
        return None if b == 0 else c_trunc_div(a, b)
    raise ValueError(op)


def eval_tree(tree, env, rt):
    """(value, all_fit) with Python ints; all_fit False as soon as one operator result is undefined / out of rt"""
    if tree[0] == "V":
        return env[tree[1]], True
    if tree[0] == "K":
        return tree[1], True
    l, fl = eval_tree(tree[3], env, rt)
    r, fr = eval_tree(tree[4], env, rt)
    if not (fl and fr):
        return 0, False
    e = exact_bin(tree[1], l, r)
    if e is None or not in_range(e, *rt):
        return 0, False
    return e, True


def tree_tokens(tree, env):
    if tree[0] == "V":
        return ["L", str(env[tree[1]])]
    if tree[0] == "K":
        return ["L", str(tree[1])]
    return ["B", tree[1], str(tree[2])] + tree_tokens(tree[3], env) + tree_tokens(tree[4], env)


# --------------------------------------------------------------------------------------------

class Runner:
    """runs grids of calls in child processes; every outcome is appended to a per-grid file as it is produced, so
    a crash (SIGFPE …) is attributed to exactly one call and the grid resumes behind it in a fresh child"""

    def __init__(self, ctx):
        self.ctx = ctx
        self.n = 0
        self.lock = __import__("threading").Lock()

    def run(self, so, jobs):
        """jobs: list of (fname, [args tuples] | 'all8s' | 'all8u').  Returns list of outcome lists (strings:
        decimal / 'r,o' / 'O' / 'Z' / 'E<Exc>' / 'crash SIG…' / 'timeout')."""
        with self.lock:
            self.n += 1
            d = os.path.join(self.ctx.scratch, "grid%d" % self.n)
        os.makedirs(d, exist_ok=True)
        total = [65536 if isinstance(j[1], str) else len(j[1]) for j in jobs]
        res = [[] for _ in jobs]
        todo = [i for i in range(len(jobs)) if total[i] > 0]
        rounds = 0
        while todo and rounds < 400:
            rounds += 1
            cases = []
            for i in todo:
                fname, args = jobs[i]
                path = os.path.join(d, "g%d_%d" % (i, rounds))
                cases.append(("_grid", "(%r, %r, %r, %d)" % (fname, args, path, len(res[i]))))
            outs = cybuild.run_cases(self.ctx, so, cases, timeout_per_case=300.0)
            nxt = []
            for i, o in zip(todo, outs):
                path = os.path.join(d, "g%d_%d" % (i, rounds))
                got = []
                if os.path.exists(path):
                    with open(path) as f:
                        got = f.read().split(";")[:-1]
                    os.unlink(path)
                res[i] += got
                if len(res[i]) < total[i]:
                    if o.startswith("ok "):
                        res[i] += ["?"] * (total[i] - len(res[i]))
                    elif o.startswith("err "):
                        res[i] += [o.replace(" ", ":")] * (total[i] - len(res[i]))      # the grid call itself failed
                    else:
                        res[i].append(o)          # the call that killed the child (or timed out / failed)
                        if len(res[i]) < total[i]:
                            nxt.append(i)
            todo = nxt
        return res


def run_many(ck, work):
    """work: list of (so, jobs); runs the modules' children concurrently, returns list of outcome lists"""
    import concurrent.futures as cf
    with cf.ThreadPoolExecutor(max_workers=12) as ex:
        return list(ex.map(lambda w: ck.runner.run(w[0], w[1]), work))


def all8_pairs(signed):
    lo, hi = (-128, 127) if signed else (0, 255)
    return [(a, b) for a in range(lo, hi + 1) for b in range(lo, hi + 1)]


def fxstr(f):
    return "%d%d%d%d%d%d%d" % (f["narrow"], f["div"], f["neg"], f["dAll"], f["dConst"], f["dCdiv"], f["scope"])


class Check:
    def __init__(self, ctx):
        self.ctx = ctx
        self.vcount = {}
        self.tcount = {}
        _v, _t = ctx.violation, ctx.tie_break

        def violation(key, what, replay):
            self.vcount[key] = self.vcount.get(key, 0) + 1
            if self.vcount[key] <= 2:
                _v(key, what, replay)

        def tie_break(name, what, replay):
            self.tcount[name] = self.tcount.get(name, 0) + 1
            if self.tcount[name] <= 3:
                _t(name, what, replay)
        ctx.violation, ctx.tie_break = violation, tie_break
        self.runner = Runner(ctx)
        self.spur = {}          # op -> [spurious, fitting]
        self.fx = dict(narrow=0, div=0, neg=0, dAll=0, dConst=0, dCdiv=0, scope=0)
        self.ub_points = 0
        self.sizes = None
        self.plat = None
        self.model_lines = []
        self.model_meta = []

    # ---- infrastructure ----
    def fxbits(self, **over):
        f = dict(self.fx)
        f.update(over)
        return fxstr(f)

    def prefix(self, variant, base, sg, w, cp="000", **over):
        return "%s %s %s %s %d %d %d" % (variant, self.plat, cp, self.fxbits(**over), base, sg, w)

    def type_info(self, name):
        """(sg, w, base) of a C type name as printed by cython.typeof"""
        if name in NARROW:
            sg, w = NARROW[name]
            return sg, w, 0
        n = {"tiny_t": "tiny", "utiny_t": "utiny", "small_t": "small"}.get(name)
        if n:
            sg, w = NARROW[n]
            return sg, w, 0
        if name not in self.sizes:
            return None
        sg = 0 if (name.startswith("unsigned") or name == "size_t") else 1
        return sg, 8 * self.sizes[name], 1 if name in BASE_NAMES else 0

    def spurious(self, op, is_spurious):
        s = self.spur.setdefault(op, [0, 0])
        s[1] += 1
        if is_spurious:
            s[0] += 1

    # ---- builds ----
    def build_all(self):
        ctx = self.ctx
        specs = [dict(name="c04probe", source=probe_source())]
        self.mods = {}
        order = ["probe"]
        opts = ["-O0"] if ctx.quick else ["-O0", "-O2"]
        for opt in opts:
            for variant in "bp":
                src, cat = helper_source(variant == "p", with_consts=(opt == "-O2"))
                key = ("H", variant, opt)
                specs.append(dict(name="c04h" + variant + opt[2], source=src, directives={"overflowcheck": False}, opt=opt))
                order.append(key)
                self.mods[key] = {"cat": cat, "src": src, "variant": variant, "opt": opt}
            for fold in (1, 0):
                for variant in "bp":
                    for gi, tags in enumerate(GROUPS):
                        src, cat = plumb_source(tags)
                        key = ("P", variant, fold, gi, opt)
                        specs.append(dict(name="c04p%s%d%d%s" % (variant, fold, gi, opt[2]), source=src,
                                          directives={"overflowcheck": True, "overflowcheck.fold": bool(fold)},
                                          cflags=PORTABLE_CFLAGS if variant == "p" else [], opt=opt))
                        order.append(key)
                        self.mods[key] = {"cat": cat, "src": src, "variant": variant, "fold": fold, "opt": opt,
                                          "cdivision": 0, "ll": 3}
            # cdivision=True: / and // are C division
            for variant, fold in (("b", 1), ("p", 0)):
                src, cat = plumb_source([t for t, _ in TYPES], cdivision=True, divonly=True)
                key = ("D", variant, fold, opt)
                specs.append(dict(name="c04d%s%d%s" % (variant, fold, opt[2]), source=src,
                                  directives={"overflowcheck": True, "overflowcheck.fold": bool(fold), "cdivision": True},
                                  cflags=PORTABLE_CFLAGS if variant == "p" else [], opt=opt))
                order.append(key)
                self.mods[key] = {"cat": cat, "src": src, "variant": variant, "fold": fold, "opt": opt, "cdivision": 1, "ll": 3}
            # language level 2: `/` on C integers is Python floor division
            src, cat = plumb_source([t for t, _ in TYPES], divonly=True, language_level=2)
            key = ("L2", "b", 1, opt)
            specs.append(dict(name="c04l2" + opt[2], source=src, language_level=2,
                              directives={"overflowcheck": True, "overflowcheck.fold": True}, opt=opt))
            order.append(key)
            self.mods[key] = {"cat": cat, "src": src, "variant": "b", "fold": 1, "opt": opt, "cdivision": 0, "ll": 2}
            for variant in "bp":
                key = ("N", variant, opt)
                specs.append(dict(name="c04n" + variant + opt[2], source=NARROW_SRC,
                                  directives={"overflowcheck": True, "overflowcheck.fold": True},
                                  cflags=PORTABLE_CFLAGS if variant == "p" else [], opt=opt))
                order.append(key)
                self.mods[key] = {"src": NARROW_SRC, "variant": variant, "fold": 1, "opt": opt}
        sos = cybuild.build_many(ctx, specs)
        ok = True
        for key, spec, so in zip(order, specs, sos):
            if isinstance(so, cybuild.BuildError):
                ok = False
                ctx.tie_break("build of harness module %s" % spec["name"], so.stage + ": " + so.log[-600:],
                              {"leg": "build", "module": spec["name"]})
                if key == "probe":
                    raise lib.Infra("probe module does not build: " + so.log[-400:])
                self.mods[key]["so"] = None
            elif key == "probe":
                self.probe_so = so
            else:
                self.mods[key]["so"] = so
        ctx.notes["modules_built"] = len([s for s in sos if not isinstance(s, cybuild.BuildError)])
        return ok

    def probe(self):
        ctx = self.ctx
        o = cybuild.run_cases(ctx, self.probe_so, [("sizes", "()"), ("char_signed", "()")])
        if not o[0].startswith("ok dict:"):
            raise lib.Infra("probe failed: %s" % o[0])
        self.sizes = eval(o[0][len("ok dict:"):])
        self.plat = "%d,%d,%d" % (8 * self.sizes["int"], 8 * self.sizes["long"], 8 * self.sizes["long long"])
        ctx.notes["platform"] = {"sizes": self.sizes, "char_signed": o[1]}
        wi, wl, wll = [int(x) for x in self.plat.split(",")]
        ctx.lean_obligation(
            "platform WF (sizeof int/long/long long from a compiled probe)",
            "import CyVerif.Model.C04\nexample : (⟨%d, %d, %d⟩ : CyVerif.C04.Plat).WF := by decide\n" % (wi, wl, wll),
            "Plat.WF ⟨%d,%d,%d⟩: int <= long <= long long and a strictly wider type is at least twice as wide" % (wi, wl, wll))
        # which binary operators the compiler routes to a checked helper (the model assumes exactly these)
        import Cython.Compiler.ExprNodes as EN
        names = dict(EN.NumBinopNode.overflow_op_names)
        ctx.obligation("NumBinopNode.overflow_op_names == {+ - * <<}",
                       names == {"+": "add", "-": "sub", "*": "mul", "<<": "lshift"}, json.dumps(names, sort_keys=True))

    # ---- model batching ----
    def ask(self, line, meta):
        self.model_lines.append("C04 " + line)
        self.model_meta.append(meta)

    def flush_model(self):
        outs = self.ctx.drv.batch(self.model_lines) if self.model_lines else []
        r = list(zip(self.model_meta, outs))
        self.model_lines, self.model_meta = [], []
        return r


_FORK = {}


def _fork_worker(i):
    ck, items, fn = _FORK["args"]
    ctx = ck.ctx
    ctx.evaluations = 0
    ctx.dist = {}
    ctx.distinct = set()
    ctx.violations = []
    ctx.tie_breaks = []
    ck.spur = {}
    ck.ub_points = 0
    ck.vcount = {}
    ck.tcount = {}
    ck.model_lines, ck.model_meta = [], []
    fn(ck, items[i])
    return dict(evaluations=ctx.evaluations, dist=ctx.dist, distinct=ctx.distinct, violations=ctx.violations,
                tie_breaks=ctx.tie_breaks, spur=ck.spur, ub=ck.ub_points, vcount=ck.vcount, tcount=ck.tcount)


def eval_parallel(ck, items, fn, workers=10):
    """evaluate the modules' outcomes (model batch + oracle) in forked workers; merge the records in order"""
    if not items:
        return
    ctx = ck.ctx
    if len(items) == 1:
        fn(ck, items[0])
        return
    import multiprocessing as mp
    _FORK["args"] = (ck, items, fn)
    with mp.get_context("fork").Pool(min(workers, len(items))) as pool:
        results = pool.map(_fork_worker, range(len(items)), chunksize=1)
    _FORK.clear()
    for r in results:
        ctx.evaluations += r["evaluations"]
        for k, v in r["dist"].items():
            ctx.dist[k] = ctx.dist.get(k, 0) + v
        if len(ctx.distinct) < 5_000_000:
            ctx.distinct |= r["distinct"]
        for k, v in r["spur"].items():
            s = ck.spur.setdefault(k, [0, 0])
            s[0] += v[0]
            s[1] += v[1]
        ck.ub_points += r["ub"]
        for v in r["violations"]:
            if sum(1 for x in ctx.violations if x["key"] == v["key"]) < 2 and len(ctx.violations) < 200:
                ctx.violations.append(v)
        for k, v in r["vcount"].items():
            ck.vcount[k] = ck.vcount.get(k, 0) + v
        for v in r["tie_breaks"]:
            if sum(1 for x in ctx.tie_breaks if x["name"] == v["name"]) < 3 and len(ctx.tie_breaks) < 200:
                ctx.tie_breaks.append(v)
        for k, v in r["tcount"].items():
            ck.tcount[k] = ck.tcount.get(k, 0) + v


def canon_impl(o):
    """'123' -> 'ok 123'; 'O' -> 'err OverflowError'; 'Z' -> 'err ZeroDivisionError'"""
    if o == "O":
        return "err OverflowError"
    if o == "Z":
        return "err ZeroDivisionError"
    if o.startswith("E"):
        return "err " + o[1:]
    if o.startswith(("crash", "timeout")):
        return o
    return "ok " + o


# --------------------------------------------------------------------------------------------
# helper leg

def eval_helper(ck, item):
    (key, m, jobs, metas), outs = item
    ctx = ck.ctx
    variant, opt = m["variant"], m["opt"]
    # sane checks
    sane = [fn for fn, d in m["cat"].items() if d["kind"] == "sane"]
    so_out = cybuild.run_cases(ctx, m["so"], [(fn, "()") for fn in sorted(sane)])
    for fn, o in zip(sorted(sane), so_out):
        ctx.count("H/sane")
        if o != "ok int:0":
            ctx.tie_break("SizeCheck", "%s -> %s (model: sane)" % (fn, o), {"leg": "H", "func": fn})
    for (fn, pairs), d, out in zip(jobs, metas, outs):
        T = d["T"]
        w = 8 * ck.sizes[T]
        sg = d["sg"]
        if isinstance(pairs, str):
            pairs = all8_pairs(pairs == "all8s")
        if len(out) != len(pairs):
            ctx.tie_break("helper grid", "%s: %d outcomes for %d cases" % (fn, len(out), len(pairs)), {"leg": "H", "func": fn})
            continue
        d["_w"] = w
        d["_bop"] = "lshift" if d["kind"] == "lshift" else d.get("op", "neg").replace("_const", "")
        dk = "H/%s/%s/%s" % (variant, d["kind"], d.get("op", "-"))
        ctx.dist[dk] = ctx.dist.get(dk, 0) + len(pairs)
        for (a, b), o in zip(pairs, out):
            kind = d["kind"]
            if kind == "negm":
                line = "negmacro %s %d %d" % (ck.plat, w, a)
            elif kind == "lshift":
                line = "lshift %s %d %d" % (ck.prefix(variant, 0, sg, w), a, b)
            else:
                op = d["op"]
                const = 1 if op.endswith("_const") else 0
                bop = op.replace("_const", "")
                aa, bb = a, b
                if "k" in d:
                    aa, bb = (a, d["k"]) if d["side"] == "r" else (d["k"], a)
                cp = "000" if opt == "-O0" else "%d%d%d" % ((a ^ b) & 1, ((a ^ b) >> 1) & 1, ((a + b) >> 2) & 1)
                line = "helper %s %s %d %d %d" % (ck.prefix(variant, d["base"], sg, w, cp), bop, const, aa, bb)
                a, b = aa, bb
            ck.ask(line, (key, fn, d, a, b, o))
    int_w = 8 * ck.sizes["int"]
    long_w = 8 * ck.sizes["long"]
    for (key2, fn, d, a, b, o), mo in ck.flush_model():
        sg = d["sg"]
        kind = d["kind"]
        w = d["_w"]
        ctx.evaluations += 1
        ctx.distinct.add(hash(("H", variant, fn, a, b)))
        # implementation outcome in model syntax
        if "," in o:
            r, f = o.split(",")
            if kind == "negm":
                impl = "ok 1" if r != "0" else "ok 0"
            else:
                impl = "ok %s %s" % (r, "0" if f == "0" else "1")
        else:
            impl = canon_impl(o)

        def rep():
            return {"leg": "H", "variant": variant, "opt": opt, "func": fn, "args": [a, b], "impl": impl, "model": mo}
        if mo.startswith("ub "):
            ck.ub_points += 1
        elif impl != mo:
            ctx.tie_break("D-c Overflow.c %s vs CyVerif.C04 (%s)" % (fn, variant), "(%d,%d): impl %s model %s" % (a, b, impl, mo), rep())
        # oracle
        if kind == "negm":
            want = "ok %d" % (1 if (w == long_w and a == -(1 << (w - 1))) else 0)
            if long_w == w and impl != want:
                ctx.violation("unary-neg-macro", "__Pyx_UNARY_NEG_WOULD_OVERFLOW(%d) on %s = %s" % (a, d["T"], impl), rep())
            continue
        bop = d["_bop"]
        e = exact_bin(bop, a, b)
        fits = e is not None and in_range(e, sg, w)
        if not impl.startswith("ok "):
            ctx.violation("helper-%s-%s-crash" % (bop, "s" if sg else "u"), "%s(%d,%d) -> %s" % (fn, a, b, impl), rep())
            continue
        _, r, f = impl.split()
        if f == "0" and (not fits or int(r) != e):
            if bop == "div" and sg and (kind == "base" or w >= int_w) and (a < 0 or b < 0) and fits:
                k = "dead-div-helper-negative-operand"
            elif kind == "binop" and w < int_w and not fits:
                k = "binop-narrow-extern-typedef"
            else:
                k = "helper-%s-%s-%s" % (bop, "s" if sg else "u", "wrong-value" if fits else "missed-overflow")
            ctx.violation(k, "%s (%s, %s branch)(%d, %d) = (%s, flag %s), exact %s %s" % (
                fn, d["T"], "builtin" if variant == "b" else "portable", a, b, r, f, e, "fits" if fits else "does not fit"), rep())
        if fits and not (bop == "div" and b == 0):
            ck.spurious("helper:" + bop, f == "1")


def helper_leg(ck, only=None):
    ctx = ck.ctx
    rng = ctx.rng
    work = []
    for key, m in ck.mods.items():
        if key[0] != "H" or not m.get("so"):
            continue
        variant, opt = m["variant"], m["opt"]
        hb = cybuild.run_cases(ctx, m["so"], [("_have_builtin", "()")])[0]
        want = "ok int:1" if variant == "b" else "ok int:0"
        ctx.obligation("helper module %s%s exercises the %s branch" % (variant, opt, "builtin" if variant == "b" else "portable"),
                       hb == want, hb)
        if hb != want:
            ctx.tie_break("variant switch", "module %s reports %s" % (key, hb), {"leg": "H", "module": list(key)})
            continue
        jobs = []
        metas = []
        for fn, d in sorted(m["cat"].items()):
            if only and fn not in only:
                continue
            if d["kind"] == "sane":
                continue
            T = d["T"]
            w = 8 * ck.sizes[T]
            sg = d["sg"]
            if d["kind"] == "base" and "k" in d:
                pairs = [(a, 0) for a in boundary_values(sg, w)] + [(p[0], 0) for p in random_pairs(rng, sg, w, ctx.n(100, 2000), "mul")]
            elif w == 8 and not only and opt == "-O0" and (not ctx.quick or (
                    (d["kind"] == "base" and variant == "p" and d["op"] in (("add", "sub", "mul", "mul_const", "div") if sg else ("add", "sub", "mul"))) or
                    (d["kind"] == "lshift" and variant == "b" and sg))):
                # every pair of 8-bit operands (quick tier: the portable base cases and LeftShift; thorough: everything)
                pairs = "all8s" if sg else "all8u"
                if d["kind"] == "binop" and d["op"] == "div":
                    pairs = [p for p in all8_pairs(sg) if p[1] != 0]   # plain promoted `a / b`: b == 0 traps by construction
            else:
                op = d.get("op", "lshift" if d["kind"] == "lshift" else "neg")
                bop = op.replace("_const", "")
                bv = boundary_values(sg, w)
                pairs = [(a, b) for a in bv for b in bv]
                pairs += random_pairs(rng, sg, w, 300 if opt == "-O2" else ctx.n(300, 8000 if w == 16 else 4000), bop)
                if d["kind"] == "negm":
                    pairs = [(a, 0) for a in bv] + [(p[0], 0) for p in random_pairs(rng, sg, w, ctx.n(100, 2000), "add")]
                if d["kind"] == "binop" and bop == "div" and w < 8 * ck.sizes["int"]:
                    pairs = [p for p in pairs if p[1] != 0]      # plain promoted `a / b`: b == 0 is a C trap by construction
            jobs.append((fn, pairs))
            metas.append(d)
        if only:
            jobs = [(fn, only[fn]) for fn, _ in jobs]
        work.append((key, m, jobs, metas))
    results = run_many(ck, [(m["so"], jobs) for _, m, jobs, _ in work])
    eval_parallel(ck, list(zip(work, results)), eval_helper)
    ctx.sample({"leg": "helper", "example": "h_mul_int(65536, 32768) -> (-2147483648, 1)"})


# --------------------------------------------------------------------------------------------
# plumbing leg

def classify(d, cfg, a_args, rt, impl, fits, exact, long_w):
    """stable key of a property violation in the plumbing leg: one key per failing call site / input class"""
    sg, w, _ = rt
    lo, _hi = rng_of(sg, w)
    kind = d["kind"]

    def mindiv(const):
        if cfg["cdivision"]:
            return "cdivision-min-div-minus1"
        if const is not None:
            return "floordiv-min-by-constant-minus1"
        # the existing guard covers exactly the long-sized types with a run-time divisor
        return "floordiv-min-by-minus1-type-narrower-than-long" if w < long_w else "floordiv-min-by-minus1-long-sized-type"
    if kind == "neg":
        if sg and a_args[0] == lo:
            return "unary-minus-signed-min"
        if not sg and a_args[0] != 0:
            return "unary-minus-unsigned"
    if kind == "div":
        a = a_args[0]
        b = a_args[1] if len(a_args) > 1 else d["const"]
        if sg and a == lo and b == -1:
            return mindiv(d["const"])
    if kind == "ndiv":
        a, b, c, _d = a_args
        if not in_range(b + c, sg, w):
            return "fold-through-division" if cfg["fold"] else "nofold-inner-sum-overflow"
        if sg and a == lo and b + c == -1:
            return mindiv(None)
    return "%s-%s-%s" % (kind, d.get("op", d.get("nest", "")), "value" if fits else "missed-overflow")


def eval_plumb(ck, item):
    (key, m, jobs, metas, cfg), outs = item
    ctx = ck.ctx
    variant, fold, opt = m["variant"], m["fold"], m["opt"]
    for (fn, args), (d, rt, rtname), out in zip(jobs, metas, outs):
        if isinstance(args, str):
            args = all8_pairs(args == "all8s")
        if len(out) != len(args):
            ctx.tie_break("plumbing grid", "%s: %d outcomes for %d cases" % (fn, len(out), len(args)), {"leg": "P", "func": fn})
            continue
        sg, w, base = rt
        kind = d["kind"]
        for t, o in zip(args, out):
            # ---- model line ----
            p = ck.prefix(variant, base, sg, w)
            if kind == "bin":
                mop = {"shl": "lshift"}.get(d["op"], d["op"])
                if d["const"] is None:
                    x, y, const = t[0], t[1], 0
                elif d["side"] == "r":
                    x, y, const = t[0], d["const"], 1
                elif d["op"] in ("add", "mul"):
                    x, y, const = t[0], d["const"], 1      # NumBinopNode swaps a constant first operand of + and *
                else:
                    x, y, const = d["const"], t[0], 0
                line = "binop %s %s %d %d %d" % (p, mop, const, x, y)
                ex = exact_bin(mop, x, y)
                opname = d["op"]
            elif kind == "neg":
                line = "neg %s %d" % (p, t[0])
                ex = -t[0]
                opname = "neg"
            elif kind == "div":
                x = t[0]
                y = t[1] if d["const"] is None else d["const"]
                line = "floordiv %s %d %d %d %d" % (p, cfg["cdivision"], 0 if d["const"] is None else 1, x, y)
                ex = exact_bin("tdiv" if cfg["cdivision"] else "fdiv", x, y)
                opname = d["op"]
            elif kind == "nest":
                env = dict(zip("abcd", t))
                tree = NESTS[d["nest"]][1]
                line = "tree %s %d %s" % (p, fold, " ".join(tree_tokens(tree, env)))
                v, allfit = eval_tree(tree, env, (sg, w))
                ex = v if allfit else None
                opname = "nest"
            else:   # ndiv
                a, b, c, dd = t
                line = "folddiv %s %d %d %d %d %d" % (p, cfg["cdivision"], a, b, c, dd)
                s = b + c
                if not in_range(s, sg, w):
                    ex = None
                elif s == 0:
                    ex = "Z"
                else:
                    q = c_trunc_div(a, s) if (cfg["cdivision"] or not sg) else a // s
                    ex = q + dd if in_range(q, sg, w) else None
                opname = "ndiv"
                if not fold:
                    # without fold the statement is three separately checked statements: same model with the
                    # repaired scope
                    line = "folddiv %s %d %d %d %d %d" % (ck.prefix(variant, base, sg, w, scope=1), cfg["cdivision"], a, b, c, dd)
            ck.ask(line, (key, fn, d, t, o, rt, rtname, ex, opname, cfg))
    tagc = "P/%s%d%s/" % (variant, fold, "c" if m["cdivision"] else ("2" if m["ll"] == 2 else ""))
    for (key2, fn, d, t, o, rt, rtname, ex, opname, cfg2), mo in ck.flush_model():
        sg, w, base = rt
        impl = canon_impl(o)
        ctx.evaluations += 1
        dk = tagc + opname + "/" + rtname
        ctx.dist[dk] = ctx.dist.get(dk, 0) + 1
        ctx.distinct.add(hash(("P", key2, fn, t)))

        def rep():
            return {"leg": "P", "module": list(key2), "func": fn, "args": list(t), "result_type": rtname, "impl": impl,
                    "model": mo, "config": cfg2, "expr": d["expr"]}
        if mo.startswith("ub "):
            ck.ub_points += 1
        elif mo != impl:
            ctx.tie_break("D-c generated code of `%s` (%s) vs CyVerif.C04" % (d["expr"], rtname),
                          "%s%s: impl %s model %s" % (fn, tuple(t), impl, mo), rep())
        # ---- oracle ----
        if ex == "Z":
            good = impl == "err ZeroDivisionError"
            fits = False
        else:
            fits = ex is not None and in_range(ex, sg, w)
            if d["kind"] == "div" and ex is None:      # zero divisor, Python semantics
                good = impl == "err ZeroDivisionError"
            elif fits:
                good = impl == "ok %d" % ex or impl == "err OverflowError"
                ck.spurious(opname, impl == "err OverflowError")
            else:
                good = impl == "err OverflowError"
        if not good:
            k = classify(d, cfg2, t, rt, impl, fits, ex, 8 * ck.sizes["long"])
            ctx.violation(k, "%s: `%s` with %s = %s (overflowcheck=True, fold=%s, %s helpers%s) -> %s; exact result %s, C result type %s" % (
                fn, d["expr"], ",".join(d["params"]), tuple(t), bool(fold), "builtin" if variant == "b" else "portable",
                ", cdivision=True" if cfg2["cdivision"] else "", impl,
                "ZeroDivisionError" if ex == "Z" else ("undefined/does not fit" if not fits else ex), rtname), rep())


def plumb_leg(ck, restrict=None):
    ctx = ck.ctx
    rng = ctx.rng
    work = []
    for key, m in ck.mods.items():
        if key[0] not in ("P", "D", "L2") or not m.get("so"):
            continue
        if restrict and key != restrict["key"]:
            continue
        variant, fold, opt = m["variant"], m["fold"], m["opt"]
        cfg = {"variant": variant, "fold": fold, "cdivision": m["cdivision"], "ll": m["ll"], "opt": opt}
        pre = cybuild.run_cases(ctx, m["so"], [("_have_builtin", "()"), ("_types", "()")])
        want = "ok int:1" if variant == "b" else "ok int:0"
        if pre[0] != want:
            ctx.tie_break("variant switch", "module %s reports %s" % (list(key), pre[0]), {"leg": "P", "module": list(key)})
            continue
        if not pre[1].startswith("ok dict:"):
            ctx.tie_break("typeof", "module %s: %s" % (list(key), pre[1]), {"leg": "P", "module": list(key)})
            continue
        types = eval(pre[1][len("ok dict:"):])
        jobs, metas = [], []
        for fn, d in sorted(m["cat"].items()):
            if restrict and fn != restrict["func"]:
                continue
            tag = d["tag"]
            T = TAG2TYPE[tag]
            sg = 1 if tag in SIGNED_TAGS else 0
            w = 8 * ck.sizes[T]
            rt = ck.type_info(types.get(fn, "?"))
            if rt is None:
                ctx.tie_break("result type", "%s: cython.typeof = %r is not a known C integer type" % (fn, types.get(fn)), {"leg": "P", "func": fn})
                continue
            # all operator nodes of a nest must have the type of the whole expression (model assumption)
            subs = [v for k, v in types.items() if k.startswith(fn + "#")]
            if any(s != types[fn] for s in subs):
                ctx.tie_break("result type", "%s: sub-expression types %s differ from %s" % (fn, subs, types[fn]), {"leg": "P", "func": fn})
                continue
            bv = boundary_values(sg, w)
            np_ = len(d["params"])
            op = d.get("op", "add")
            if restrict:
                args = [tuple(restrict["args"])]
            elif np_ == 1:
                args = [(a,) for a in bv] + [(p[0],) for p in random_pairs(rng, sg, w, 60 if opt == "-O2" else ctx.n(60, 600), op)]
            elif np_ == 2:
                if w == 8 and opt == "-O0" and ((ctx.tier == "thorough" and (key[0] != "P" or (variant, fold) in (("b", 1), ("p", 0))))
                                                or (key[0] == "P" and (variant, fold) == ("b", 1) and op in ("mul", "shl"))
                                                or (key[0] == "D" and variant == "b" and sg and d["const"] is None and d["op"] == "tdiv")):
                    args = "all8s" if sg else "all8u"
                else:
                    args = [(a, b) for a in bv for b in bv] + random_pairs(rng, sg, w, 150 if opt == "-O2" else ctx.n(150, 2500), op)
            else:
                small = [v for v in bv if abs(v) <= 7 or v in (rng_of(sg, w))] + [bv[len(bv) // 3], bv[2 * len(bv) // 3]]
                args = []
                for _ in range(250 if opt == "-O2" else ctx.n(250, 2500)):
                    args.append(tuple(rng.choice(small) if rng.random() < 0.6 else random_pairs(rng, sg, w, 1, "add")[0][0]
                                      for _ in range(4)))
                lo, hi = rng_of(sg, w)
                args += [(lo, lo, 0, 0), (hi, hi, 0, 0), (hi, 1, 0, 0), (hi // 2 + 1, hi // 2 + 1, 0, 5), (1, lo, lo, 0), (1, hi, 1, 0),
                         (lo, 1, -2 if sg else 1, 0) if sg else (hi, 1, 1, 0), (3, 4, 5, 5), (7, 1, 1, 5)]
                args = [t for t in args if all(in_range(x, sg, w) for x in t)]
            if cfg["cdivision"] and d["kind"] in ("div", "ndiv"):
                if isinstance(args, str):
                    args = all8_pairs(args == "all8s")
                if d["kind"] == "div" and d["const"] is None:
                    args = [t for t in args if t[1] != 0]
                elif d["kind"] == "ndiv":
                    args = [t for t in args if t[1] + t[2] != 0]
            jobs.append((fn, args))
            metas.append((d, rt, types[fn]))
        work.append((key, m, jobs, metas, cfg))
    results = run_many(ck, [(m["so"], jobs) for _, m, jobs, _, _ in work])
    eval_parallel(ck, list(zip(work, results)), eval_plumb)


def eval_narrow(ck, item):
    (key, m, jobs, metas), outs = item
    ctx = ck.ctx
    variant = m["variant"]
    for (fn, pairs), (nm, op, sg, w), out in zip(jobs, metas, outs):
        if isinstance(pairs, str):
            pairs = all8_pairs(pairs == "all8s")
        if len(out) != len(pairs):
            ctx.tie_break("narrow grid", "%s: %d outcomes for %d cases" % (fn, len(out), len(pairs)), {"leg": "N", "func": fn})
            continue
        mop = "lshift" if op == "shl" else op
        for (a, b), o in zip(pairs, out):
            ck.ask("binop %s %s 0 %d %d" % (ck.prefix(variant, 0, sg, w), mop, a, b), (fn, nm, op, sg, w, a, b, o))
    for (fn, nm, op, sg, w, a, b, o), mo in ck.flush_model():
        impl = canon_impl(o)
        ctx.count("N/%s/%s/%s" % (variant, op, nm))
        ctx.seen(("N", variant, fn, a, b))
        rep = {"leg": "N", "variant": variant, "func": fn, "args": [a, b], "impl": impl, "model": mo}
        if mo.startswith("ub "):
            ck.ub_points += 1
        elif mo != impl:
            ctx.tie_break("D-c Binop/LeftShift on a typedef narrower than int vs CyVerif.C04", "%s(%d,%d): impl %s model %s" % (fn, a, b, impl, mo), rep)
        ex = exact_bin("lshift" if op == "shl" else op, a, b)
        fits = ex is not None and in_range(ex, sg, w)
        good = impl in ("ok %d" % ex, "err OverflowError") if fits else impl == "err OverflowError"
        if fits:
            ck.spurious("narrow-typedef:" + op, impl == "err OverflowError")
        if not good:
            k = "binop-narrow-extern-typedef" if (op != "shl" and not fits and impl.startswith("ok ")) else "narrow-%s-%s" % (op, nm)
            ctx.violation(k, "`ctypedef int %s_t` over a %d-bit C type, overflowcheck=True: %s(%d, %d) -> %s, exact %s %s" % (
                nm, w, fn, a, b, impl, ex, "fits" if fits else "does not fit"), rep)


def narrow_leg(ck):
    ctx = ck.ctx
    rng = ctx.rng
    work = []
    for key, m in ck.mods.items():
        if key[0] != "N" or not m.get("so"):
            continue
        variant = m["variant"]
        pre = cybuild.run_cases(ctx, m["so"], [("_types", "()")])
        if not pre[0].startswith("ok dict:"):
            ctx.tie_break("typeof", "narrow module: %s" % pre[0], {"leg": "N"})
            continue
        jobs, metas = [], []
        if ctx.quick and variant != "b":
            continue        # no helper is involved for these types: the variant cannot matter
        for nm, (sg, w) in NARROW.items():
            for op in ("add", "sub", "mul", "shl"):
                fn = "%s_%s" % (op, nm)
                if w == 8 and m["opt"] == "-O0" and (not ctx.quick or (nm == "tiny" and op != "sub") or (nm == "utiny" and op == "mul")):
                    pairs = "all8s" if sg else "all8u"
                else:
                    bv = boundary_values(sg, w)
                    pairs = [(a, b) for a in bv for b in bv] + random_pairs(rng, sg, w, ctx.n(300, 5000), op)
                jobs.append((fn, pairs))
                metas.append((nm, op, sg, w))
        work.append((key, m, jobs, metas))
    results = run_many(ck, [(m["so"], jobs) for _, m, jobs, _ in work])
    eval_parallel(ck, list(zip(work, results)), eval_narrow)


# --------------------------------------------------------------------------------------------
# line coverage of the helper functions under the differential inputs (thorough tier)

def coverage_leg(ck):
    import re
    import subprocess
    ctx = ck.ctx
    rng = ctx.rng
    specs, cats = [], []
    for variant in "bp":
        src, cat = helper_source(variant == "p")
        specs.append(dict(name="c04cov" + variant, source=src, directives={"overflowcheck": False}, opt="-O0",
                          cflags=["--coverage"], ldflags=["--coverage"]))
        cats.append(cat)
    sos = cybuild.build_many(ctx, specs)
    report = {}
    for variant, so, cat in zip("bp", sos, cats):
        if isinstance(so, cybuild.BuildError):
            report[variant] = "coverage build failed: " + so.log[-200:]
            continue
        jobs = []
        for fn, d in sorted(cat.items()):
            if d["kind"] == "sane":
                continue
            sg, w = d["sg"], 8 * ck.sizes[d["T"]]
            bv = boundary_values(sg, w)
            pairs = [(a, b) for a in bv for b in bv] + random_pairs(rng, sg, w, 200, d.get("op", "add").replace("_const", ""))
            if d["kind"] == "binop" and d["op"] == "div" and w < 8 * ck.sizes["int"]:
                pairs = [q for q in pairs if q[1] != 0]
            jobs.append((fn, pairs))
        ck.runner.run(so, jobs)
        d = os.path.dirname(so)
        gcda = [f for f in os.listdir(d) if f.endswith(".gcda")]
        if not gcda:
            report[variant] = "no .gcda written"
            continue
        subprocess.run(["gcov", gcda[0]], cwd=d, stdout=subprocess.PIPE, stderr=subprocess.PIPE, text=True, timeout=600)
        gc = [f for f in os.listdir(d) if f.endswith(".c.gcov")]
        if not gc:
            report[variant] = "gcov produced no report"
            continue
        total = hit = 0
        missed = {}
        infn = None
        for line in open(os.path.join(d, gc[0]), errors="replace"):
            m = re.match(r"\s*([^:]+):\s*(\d+):(.*)$", line.rstrip("\n"))
            if not m:
                continue
            cnt, _ln, text = m.group(1).strip(), m.group(2), m.group(3)
            h = re.match(r"static CYTHON_INLINE .*\b(__Pyx_\w+_checking_overflow)\(.*\{\s*$", text)
            if h:
                infn = h.group(1)
                continue
            if infn and text.startswith("}"):
                infn = None
                continue
            if infn and cnt != "-":
                total += 1
                if cnt.startswith("#") or cnt.startswith("="):
                    missed.setdefault(text.strip(), set()).add(infn)
                else:
                    hit += 1
        report[variant] = {"helper_lines_executable": total, "helper_lines_executed": hit,
                           "not_executed": {k: sorted(v)[:4] + (["… %d more" % (len(v) - 4)] if len(v) > 4 else [])
                                            for k, v in sorted(missed.items())}}
    ctx.notes["gcov_of_Overflow.c_helpers_under_the_differential_inputs(-O0)"] = report


# --------------------------------------------------------------------------------------------
# witnesses: replayed first, select the model variant per defect

def witnesses(ck):
    ctx = ck.ctx
    path = os.path.join(lib.VERIF, "corpus", "C04", "witnesses.json")
    W = json.load(open(path))["witnesses"]
    sizes = ck.sizes
    env = {"INT_MIN": -(1 << (8 * sizes["int"] - 1)), "LONG_MIN": -(1 << (8 * sizes["long"] - 1)),
           "LLONG_MIN": -(1 << (8 * sizes["long long"] - 1))}
    status = {}
    votes = {}
    for wt in W:
        key = tuple(wt["module"]) + ("-O0",)
        m = ck.mods.get(key)
        if not m or not m.get("so"):
            for bit in wt.get("fix_bits", []):
                votes.setdefault(bit, []).append(False)
            continue
        args = tuple(eval(a, dict(env)) if isinstance(a, str) else a for a in wt["args"])
        out = ck.runner.run(m["so"], [(wt["func"], [args])])[0]
        o = out[0] if out else "?"
        defect = [eval(x, dict(env)) for x in wt["defect"]]
        repaired = (o == wt["repaired"])
        status[wt["id"]] = {"call": "%s%s" % (wt["func"], args), "observed": o, "reproduces": o in defect, "repaired": repaired}
        ctx.count("W/witness")
        for bit in wt.get("fix_bits", []):
            votes.setdefault(bit, []).append(repaired)
    # a model-variant bit is set when EVERY witness that drives it shows the repaired behaviour
    for bit in ck.fx:
        ck.fx[bit] = 1 if (votes.get(bit) and all(votes[bit])) else 0
    ctx.notes["witnesses"] = status
    ctx.notes["model_variant_bits(narrow,div,neg,dAll,dConst,dCdiv,scope)"] = ck.fxbits()
    gone = sorted(k for k, v in status.items() if not v["reproduces"])
    if gone:
        ctx.notes["witness_no_longer_reproduces"] = gone


def run(ctx):
    ctx.rule = ("H: every helper instantiation x (boundary x boundary of the type + seeded random with sum/product-boundary "
                "bias; ALL 65536 pairs for the 8-bit instantiations and 8-bit Binop/LeftShift types); P: every C integer type "
                "x {+,-,*,<<,unary -,//,/ (cdivision, language_level 2)} x {run-time, constant} right operand x nested shapes "
                "x fold {on,off} x {builtin, portable} helpers: boundary x boundary + random, all pairs for 8-bit operand types; "
                "non-trivial = every case (distinct by module, function, operands)")
    ctx.explanation = (
        "Theorems cover: every Overflow.c helper in both preprocessor variants (exact result/flag, no UB, all widths), LeftShift, "
        "the neg-overflow macro, the Binop dispatch, the emitted statement for + - * <<, fold/no-fold for arbitrary trees, and the "
        "emitted code of unary minus and // (existing code: _partial + counterexample; repaired variant: full). NOT covered by a theorem, "
        "only by the differential tie: that the compiler really emits the modelled call for every syntactic form (in-place operators, "
        "mixed-type operands and their implicit C conversions, operators inside other node kinds), Cython's choice of the result type "
        "(taken from cython.typeof at run time), and gcc's implementation of __builtin_*_overflow (its manual's specification is the model). "
        "Division by zero under cdivision=True (documented C behaviour) and implicit operand conversions are outside the statement.")
    ctx.assumptions = ["two's complement, gcc signed conversion = reduction mod 2^w (checked by the tie)",
                       "platform widths satisfy Plat.WF (kernel-checked obligation on the probed sizes)"]
    ctx.extra_trusted = ["GCC manual's specification of __builtin_{add,sub,mul}_overflow (tied by the helper leg)",
                         "-D__ibmxl__ -D__INTEL_COMPILER=1700 selects the portable branch (verified per module by a stringification probe)"]
    import time
    tm = {}
    t0 = time.time()
    FULL_BOUNDARY[0] = not ctx.quick
    ck = Check(ctx)
    ck.build_all()
    tm["build"] = round(time.time() - t0, 1)
    ck.probe()
    rp = ctx.replay_case
    witnesses(ck)
    tm["probe+witnesses"] = round(time.time() - t0, 1)
    if rp and "case" in rp and rp["case"].get("leg") in ("P", "H", "N"):
        case = rp["case"]
        if case["leg"] == "P":
            plumb_leg(ck, restrict={"key": tuple(case["module"]), "func": case["func"], "args": case["args"]})
        elif case["leg"] == "H":
            helper_leg(ck, only={case["func"]: [tuple(case["args"])]})
        else:
            narrow_leg(ck)
    else:
        helper_leg(ck)
        tm["helper_leg"] = round(time.time() - t0, 1)
        narrow_leg(ck)
        tm["narrow_leg"] = round(time.time() - t0, 1)
        plumb_leg(ck)
        tm["plumb_leg"] = round(time.time() - t0, 1)
        if not ctx.quick:
            coverage_leg(ck)
            tm["coverage_leg"] = round(time.time() - t0, 1)
    ctx.notes["phase_end_times_s"] = tm
    tot = {k: {"spurious": v[0], "fitting_cases": v[1], "rate": (round(v[0] / v[1], 6) if v[1] else None)} for k, v in sorted(ck.spur.items())}
    ctx.notes["spurious_OverflowError"] = tot
    ctx.notes["violating_cases_per_key"] = dict(sorted(ck.vcount.items()))
    if ck.tcount:
        ctx.notes["model_impl_disagreements_per_site"] = dict(sorted(ck.tcount.items()))
    ctx.notes["cases_where_model_says_C_undefined_behaviour(any outcome accepted for the tie)"] = ck.ub_points
    qualified_leg(ctx)


QUAL_SRC = '''
cimport cython
cdef enum QE:
    QE_A = 1
ctypedef const long long cll_t

def neg_signed_int(signed int a): return -a
def neg_signed_long(signed long a): return -a
def neg_const_ll(const long long a): return -a
def neg_const_ui(const unsigned int a): return -a
def neg_enum(QE a): return -a
def add_signed_int(signed int a, signed int b): return a + b
def sub_const_ll(const long long a, const long long b): return a - b
def mul_const_ll(const long long a, const long long b): return a * b
def negsum_signed_int(signed int a, signed int b): return -a + b
def shl_signed_int(signed int a, signed int b): return a << b
'''


def qualified_leg(ctx):
    """Operand types that are as wide as the result type but spelled/qualified differently (`signed int`, const, enum):
    under overflowcheck the result must be exact or OverflowError — never a silently wrapped value (oracle leg only)."""
    exact = {"neg": lambda a, b: -a, "add": lambda a, b: a + b, "sub": lambda a, b: a - b, "mul": lambda a, b: a * b,
             "negsum": lambda a, b: -a + b, "shl": lambda a, b: a << b if 0 <= b < 200 else None}
    funcs = [("neg_signed_int", 32, 1, 1), ("neg_signed_long", 64, 1, 1), ("neg_const_ll", 64, 1, 1), ("neg_const_ui", 32, 0, 1),
             ("neg_enum", 32, 1, 1), ("add_signed_int", 32, 1, 2), ("sub_const_ll", 64, 1, 2), ("mul_const_ll", 64, 1, 2),
             ("negsum_signed_int", 32, 1, 2), ("shl_signed_int", 32, 1, 2)]
    for fold in (True, False):
        try:
            so = cybuild.build_module(ctx, "c04qual%d" % fold, QUAL_SRC, directives={"overflowcheck": True, "overflowcheck.fold": fold})
        except cybuild.BuildError as e:
            ctx.tie_break("D-c build of the qualified-type module", e.stage + ": " + e.log[-400:], {"fold": fold})
            continue
        cases = []
        for name, w, sg, nargs in funcs:
            lo, hi = (-(1 << (w - 1)), (1 << (w - 1)) - 1) if sg else (0, (1 << w) - 1)
            vals = sorted(set(v for v in [lo, lo + 1, -2, -1, 0, 1, 2, 5, hi - 1, hi] if lo <= v <= hi))
            if name == "neg_enum":
                vals = [-(1 << 31), -1, 0, 1, (1 << 31) - 1]
            if nargs == 1:
                cases += [(name, (a,)) for a in vals]
            elif name.startswith("shl"):
                cases += [(name, (a, b)) for a in vals for b in (0, 1, 5, 30, 31)]
            else:
                cases += [(name, (a, b)) for a in vals for b in vals]
        outs = cybuild.run_cases(ctx, so, [(n, repr(a) if len(a) > 1 else "(%d,)" % a[0]) for n, a in cases])
        for (name, args), got in zip(cases, outs):
            op = name.split("_")[0]
            a = args[0]
            b = args[1] if len(args) > 1 else 0
            ex = exact[op](a, b)
            ctx.count("qualified/" + name)
            ctx.seen(("qual", fold, name, args))
            if got.startswith("ok int:") and ex is not None and int(got[7:]) != ex:
                ctx.violation("qualified-operand-type-wraps-%s" % name,
                              "overflowcheck=True fold=%s: %s%r returned %s, exact result %d (must be exact or OverflowError)" % (fold, name, args, got[7:], ex),
                              {"module": QUAL_SRC, "func": name, "args": list(args), "fold": fold, "got": got})
            elif got.startswith(("crash", "timeout")):
                ctx.violation("qualified-operand-type-crash-%s" % name, "%s%r: %s" % (name, args, got), {"func": name, "args": list(args)})

"""C42 — compilation is deterministic.

model  = CyVerif.C42 (unique_const_cname, string / number tables, use_utility_code, sort_types_by_inheritance)
impl   = staged Cython.Compiler.Code.GlobalState driven in-process (D-py), ModuleNode.sort_types_by_inheritance,
         and whole compilations (compile() / cythonize()) in child processes
oracle = the property itself: the same inputs compiled under PYTHONHASHSEED 0..3 / random, in different batch
         orders, isolated, with cythonize nthreads=1 / 4 must give byte-identical C; emitters fed with permuted
         dict orders must give identical output
"""
import collections
import hashlib
import json
import os
import re
import shutil
import subprocess
import sys
from concurrent.futures import ThreadPoolExecutor

import lib
from props import c42gen, c42scan

# ---------------------------------------------------------------------------------------------------------------
# audited whitelist of order-sensitive consumers of sets (key -> (count, class)); classes:
#  N not a set (scanner over-approximation: list attribute that shares its name with a set elsewhere)
#  S singleton (guarded by len(...) == 1) or unique candidate: the result does not depend on the order
#  A accumulation into a set / bit mask / unique fixpoint / max of distinct priorities / flags: order-free result
#  D diagnostics or tooling only (messages are sorted by position before printing, error text, coverage, inline arg list sorted later)
#  T relies on spanning_type being commutative+associative (type inference over the set of assignments)
#  B build metadata of cythonize: REAL order leak (findings cythonize-metadata-order:*), see known_findings.txt
W = {}
def _w(cls, n, key):
    W[key] = (n, cls)
_P = "Cython/Compiler/"
for k in ["ExprNodes.py|MemoryCopyScalar._generate_assignment_code|for|indices", "ExprNodes.py|MemoryViewSliceNode.generate_result_code|for|self.original_indices",
          "ExprNodes.py|MemoryViewSliceNode.merged_indices|call:enumerate|enumerate(self.original_indices)",
          "ExprNodes.py|MergedSequenceNode.calculate_constant_result|call:tuple|tuple(result)", "ExprNodes.py|MergedSequenceNode.calculate_constant_result|extend|result.extend(items)",
          "ExprNodes.py|MergedSequenceNode.compile_time_value|call:tuple|tuple(result)", "ExprNodes.py|NameNode.may_be_none|for|self.cf_state",
          "ExprNodes.py|PyMethodCallNode.generate_runtime_method_unpacking_code|for|self.function.cf_state",
          "ParseTreeTransforms.py|InterpretCompilerDirectives.visit_FromCImportStatNode|for|node.imported_names",
          "PyrexTypes.py|BuiltinObjectType|call:zip|zip(KNOWN_EXCEPTION_NAMES, repeat(['is_exception_type']))"]:
    _w("N", 1, _P + k)
for k in ["Code.py|UtilityCodeBase.load|call:list|list(values)", "ExprNodes.py|IndexNode.infer_type|pop|item_types.pop()",
          "ExprNodes.py|JoinedStrNode.generate_evaluation_code.aggregate|pop|steps.pop()", "Nodes.py|CascadedAssignmentNode.analyse_types|call:iter|iter(lhs_types)",
          "Optimize.py|_unpack_union_type_nodes|pop|type_set.pop()", "Symtab.py|Scope.lookup_operator|call:list|list(set(method_alternatives + function_alternatives))"]:
    _w("S", 1, _P + k)
_w("S", 2, _P + "Nodes.py|CascadedAssignmentNode.analyse_types|pop|lhs_types.pop()")
_w("S", 2, _P + "PyrexTypes.py|widest_cpp_type|comp|common_bases")
for k in ["FlowControl.py|ControlBlock.detach|for|self.parents", "FlowControl.py|ControlFlow.initialize|for|block.bounded", "FlowControl.py|ControlFlow.initialize|for|self.entries",
          "FlowControl.py|ControlFlow.normalize|for|block.parents", "FlowControl.py|ControlFlow.normalize|for|unreachable", "FlowControl.py|ControlFlow.normalize|for|visited",
          "FlowControl.py|ControlFlow.normalize|pop|queue.pop()", "FlowControl.py|ControlFlow.reaching_definitions|for|block.parents",
          "FlowControl.py|ControlFlow.reaching_definitions|for|self.blocks", "FlowControl.py|check_definitions|for|assignments", "FlowControl.py|check_definitions|for|flow.blocks",
          "FlowControl.py|check_definitions|for|flow.entries", "MatchCaseNodes.py|PatternNode.update_targets_with_targets|for|targets.intersection(other_targets)"]:
    _w("A", 1, _P + k)
_w("A", 2, _P + "FlowControl.py|ControlFlow.initialize|for|self.blocks")
_w("A", 2, _P + "FlowControl.py|check_definitions|for|assmt_nodes")
for k in ["DFA.py|StateMap.highest_priority_action|for|state_set", "DFA.py|add_to_epsilon_closure|for|state_set_2", "DFA.py|set_epsilon_closure|for|state_set"]:
    _w("A", 1, "Cython/Plex/" + k)
for k in ["FlowControl.py|GV.render|for|self.flow.blocks", "FlowControl.py|GV.render|for|block.children", "FlowControl.py|GVContext.render|for|self.children",
          "Options.py|CompilationOptions.__init__|join|', '.join(unknown_directives)", "Options.py|CompilationOptions.__init__|join|', '.join(unknown_options)"]:
    _w("D", 2 if "flow.blocks" in k else 1, _P + k)
for k in ["Cython/Build/Dependencies.py|cythonize|comp|failed_modules", "Cython/Build/Dependencies.py|cythonize|for|failed_modules",
          "Cython/Build/Inline.py|unbound_symbols|call:tuple|tuple(UnboundSymbols()(tree) - set(dir(builtins)))", "Cython/Coverage.py|Plugin._parse_cfile_lines|for|dead_lines"]:
    _w("D", 1, k)
for k in ["infer_name_node_type_partial|comp|node.cf_state", "infer_name_node_type|comp|node.cf_state", "reinfer|for|inferred", "resolve_assignments|for|assignments",
          "resolve_partial|for|assignments"]:
    _w("T", 1, _P + "TypeInference.py|SimpleAssignmentTypeInferer.infer_types." + k)
_w("D", 1, _P + "TypeInference.py|SimpleAssignmentTypeInferer.infer_types|for|inferred")
_w("T", 1, _P + "ExprNodes.py|infer_sequence_item_type|comp|item_types")
for k in ["DependencyTree.cimports_externs_incdirs|call:tuple|tuple(cimports)", "DependencyTree.distutils_info0|call:list|list(set(kwds['depends']).union(externs))",
          "normalize_existing|call:tuple|tuple(set(rel_paths))"]:
    _w("B", 1, "Cython/Build/Dependencies.py|" + k)


def cap(s, n=160):
    s = str(s)
    return s if len(s) <= n else s[:n] + "…"


def scan_obligation(ctx):
    try:
        sites = c42scan.scan_tree(ctx.stage)
    except Exception as e:                                  # a source the scanner cannot parse = broken tie, not a crash
        ctx.obligation("set-iteration scan of the compiler sources", False, "scanner failed: %s" % cap(e))
        return False
    cnt = collections.Counter(c42scan.site_key(s) for s in sites)
    new = sorted(k for k, v in cnt.items() if v > W.get(k, (0, ""))[0])
    classes = collections.Counter(W[k][1] for k in cnt if k in W)
    ctx.notes["order_sensitive_consumers_of_unordered_collections"] = {
        "sites_found": sum(cnt.values()), "by_class": dict(classes),
        "class_legend": "N not a set, S singleton/unique, A order-free accumulation/fixpoint, D diagnostics/tooling, T spanning_type lattice, B cythonize metadata (real leak, finding)",
        "B_and_T_sites": sorted(k for k in cnt if k in W and W[k][1] in "BT"), "not_whitelisted": [cap(k, 200) for k in new[:10]]}
    ctx.obligation("every statically recognisable iteration over a set in Cython/{Compiler,Build,Plex,.}/*.py is on the audited whitelist (%d sites)" % sum(cnt.values()),
                   not new, "new order-sensitive consumer(s) of a set: " + "; ".join(cap(k, 200) for k in new[:5]) if new else "ast scan, %d keys" % len(cnt))
    return not new


# ---------------------------------------------------------------------------------------------------------------
# D-py: the real GlobalState driven in-process

class _Cfg:
    emit_linenums = False
    emit_code_comments = False
    c_line_in_traceback = False


def new_gs():
    from Cython.Compiler import Code
    w = Code.CCodeWriter()
    gs = Code.GlobalState(w, None, _Cfg())
    gs.module_pos = None
    gs.initialize_main_c_code()
    return gs


PIECES = ["a", "b", "ab", "_", " ", "-", ".", "é", "0", "7", "\n", "A" * 17, "x" * 33, "__", "B", "z9", "ß", "/"]
ENCS = ["utf8", "UTF-8", "ascii", "latin1", "Latin-1", "iso-8859-1", "cp1252", "us-ascii", "UTF8"]
UNI_IDENT = re.compile(r"(?![0-9])\w+$", re.U).match


def gen_str_reqs(rng, n):
    texts = ["".join(rng.choice(PIECES) for _ in range(rng.randrange(1, 5))) for _ in range(max(2, n // 2))]
    reqs = []
    for _ in range(n):
        s = rng.choice(texts)
        kind = rng.choice("uuueb")
        enc = None
        if kind != "u":
            enc = rng.choice(ENCS)
            try:
                raw = s.encode(enc)
            except UnicodeError:
                kind, enc = "u", None
        if kind == "u":
            raw = s.encode("utf-8")
        op = rng.choice(["c", "T", "N", "N", "F"])
        if op == "T" and kind != "u":
            try:
                raw.decode("utf-8")
            except UnicodeError:
                op = "N"
        reqs.append((s, kind, enc, op))
    return reqs


def str_req_token(r):
    s, kind, enc, op = r
    raw = s.encode(enc) if enc else s.encode("utf-8")
    if kind == "b":
        ui = int(all(c < 128 for c in raw) and bool(re.match(rb"(?![0-9])\w+$", raw)))
    else:
        ui = int(bool(UNI_IDENT(s)))
    return "%s,%s,%s,%d,%s" % (raw.hex() or "-", kind, enc or "-", ui, op)


def impl_str_requests(gs, reqs):
    from Cython.Compiler.StringEncoding import EncodedString, bytes_literal
    out = []
    for s, kind, enc, op in reqs:
        if kind == "b":
            text = bytes_literal(s.encode(enc), enc)
        else:
            text = EncodedString(s)
            if kind == "e":
                text.encoding = enc
        if op == "c":
            out.append(gs.get_string_const(text).cname)
        else:
            out.append(gs.get_py_string_const(text, {"T": True, "N": None, "F": False}[op]).cname)
    return out


def read_str_tables(gs, P):
    gs.generate_string_constants()
    defs = re.findall(r"#define (\w+) \w+\[(\d+)\]", gs.parts["constant_name_defines"].getvalue())
    assert [int(i) for _, i in defs] == list(range(len(defs)))
    names = [n for n, _ in defs]
    def is_uni(n):
        for pre in (P["n"], P["kp"]):
            if n.startswith(pre):
                return n[len(pre)] == "u"
        raise AssertionError(n)
    u = [n for n in names if is_uni(n)]
    b = [n for n in names if not is_uni(n)]
    assert names == u + b, "text strings must precede byte strings"
    m = re.search(r"i >= (\d+)\) PyUnicode_InternInPlace", gs.parts["init_constants"].getvalue())
    c = [n[len(P["k"]):] for n in re.findall(r"static const char (\w+)\[\]", gs.parts["string_decls"].getvalue())]
    text = "\n".join(gs.parts[k].getvalue() for k in ("constant_name_defines", "string_decls", "init_constants", "module_state"))
    return "C=%s U=%s I=%s B=%s" % (",".join(c), ",".join(u), m.group(1) if m else "-1", ",".join(b)), text


def shuffled_dict(rng, d):
    items = list(d.items())
    rng.shuffle(items)
    return dict(items)


def run_strings(ctx, P, n_cases):
    rng = ctx.rng
    lines, cases = [], []
    fixed = [[("a b", "u", None, "N"), ("a-b", "u", None, "N")], [("a-b", "u", None, "N"), ("a b", "u", None, "N")],
             [("é", "b", "utf8", "N"), ("é", "u", None, "N")], [("é", "u", None, "N"), ("é", "b", "utf8", "N")],
             [("abc\n", "u", None, "N"), ("abc", "u", None, "N"), ("abc", "b", "ascii", "F"), ("abc", "b", "ascii", "N"), ("x", "b", "latin1", "c")],
             [("a_2", "u", None, "c"), ("a", "u", None, "c"), (" a", "u", None, "c"), ("-a", "u", None, "c"), ("a 2", "u", None, "c")]]
    for i in range(n_cases):
        reqs = fixed[i] if i < len(fixed) else gen_str_reqs(rng, rng.choice([2, 3, 5, 8, 13, 30]))
        cases.append(reqs)
        lines.append("C42 strings %s %s %s %s" % (P["k"], P["n"], P["kp"], " ".join(str_req_token(r) for r in reqs)))
    outs = ctx.drv.batch(lines)
    for reqs, line, mo in zip(cases, lines, outs):
        gs = new_gs()
        try:
            got = impl_str_requests(gs, reqs)
            tab, text = read_str_tables(gs, P)
            impl = "ok R=%s %s" % (",".join(got), tab)
        except Exception as e:
            impl, text = "err %s" % type(e).__name__, None
        ctx.count("strings:n=%d" % min(len(reqs), 30))
        ctx.seen(("s", line), nontrivial=len(reqs) > 1)
        rep = {"leg": "strings", "requests": [list(r) for r in reqs][:40], "model_line": cap(line, 1500)}
        if impl != mo:
            ctx.tie_break("D-py GlobalState string requests + generate_string_constants vs CyVerif.C42 Pool.run/emitStrings",
                          "impl %s / model %s" % (cap(impl, 170), cap(mo, 170)), rep)
        if text is None:
            continue
        # oracle = the property: the same constants held in differently ordered dicts must give the same text
        for k in range(2):
            gs2 = new_gs()
            impl_str_requests(gs2, reqs)
            gs2.string_const_index = shuffled_dict(rng, gs2.string_const_index)
            for sc in gs2.string_const_index.values():
                if sc.py_strings:
                    sc.py_strings = shuffled_dict(rng, sc.py_strings)
            order = [sc.cname for sc in gs2.string_const_index.values()]
            _, text2 = read_str_tables(gs2, P)
            ctx.count("strings:permuted-index")
            if text2 != text:
                rep2 = dict(rep, index_order=order[:40])
                ctx.violation("emit-order-leak:generate_string_constants",
                              "generate_string_constants output depends on the iteration order of string_const_index / py_strings: requests %s, order %s"
                              % (cap(reqs, 120), cap(order, 100)), rep2)
                break
    ctx.sample({"strings": cap(lines[len(fixed)] if len(lines) > len(fixed) else lines[0], 200), "model": cap(outs[min(len(fixed), len(outs) - 1)], 200)})


def gen_num_reqs(rng, n):
    vals = []
    for _ in range(n):
        k = rng.randrange(7)
        if k == 0:
            v = str(rng.randrange(-130, 130)); t = "i"
        elif k == 1:
            v = str(rng.choice([1, -1]) * rng.choice([2 ** 7, 2 ** 8, 2 ** 15, 2 ** 16, 2 ** 31, 2 ** 32, 2 ** 63 - 1, 2 ** 63, 2 ** 64]) + rng.randrange(-1, 2)); t = "i"
        elif k == 2:
            v = str(rng.randrange(10 ** 42, 10 ** 45)); t = "i"
        elif k == 3:
            v = ("-" if rng.random() < 0.3 else "") + "123456789012345678" + str(rng.randrange(10 ** 8, 10 ** 9)) + "123456789012345678"; t = "i"
        elif k == 4:
            v = str(rng.randrange(0, 300)); t = "l"
        elif k == 5:
            v = "%d.%d" % (rng.randrange(30), rng.randrange(100)); t = "f"
        else:
            v = "%de%s%d" % (rng.randrange(1, 9), rng.choice(["+", "-", ""]), rng.randrange(1, 400)); t = "f"
        vals.append((v, t))
    return vals + rng.sample(vals, len(vals) // 3)


def read_num_table(gs):
    gs.generate_num_constants()
    defs = re.findall(r"#define (\w+) \w+number_tab\[(\d+)\]", gs.parts["constant_name_defines"].getvalue())
    assert [int(i) for _, i in defs] == list(range(len(defs)))
    text = "\n".join(gs.parts[k].getvalue() for k in ("constant_name_defines", "init_constants", "module_state"))
    return [n for n, _ in defs], text


def impl_num_requests(gs, reqs):
    out = []
    for v, t in reqs:
        out.append((gs.get_float_const(v, v) if t == "f" else gs.get_int_const(v, t == "l")).cname)
    return out


def run_nums(ctx, P, n_cases):
    rng = ctx.rng
    cases = [gen_num_reqs(rng, rng.choice([1, 3, 6, 12, 40])) for _ in range(n_cases)]
    lines = ["C42 nums %s %s %s" % (P["int"], P["float"], " ".join("%s,%s" % r for r in reqs)) for reqs in cases]
    outs = ctx.drv.batch(lines)
    for reqs, line, mo in zip(cases, lines, outs):
        gs = new_gs()
        got = impl_num_requests(gs, reqs)
        order, text = read_num_table(gs)
        m = re.match(r"ok R=(\S*) F=(\S*) I=(\S*) L=(\S*)$", mo)
        ctx.count("nums:n=%d" % min(len(reqs), 40))
        ctx.seen(("n", line))
        rep = {"leg": "nums", "requests": [list(r) for r in reqs][:60]}
        mod_order = [x for g in (2, 3, 4) for x in (m.group(g).split(",") if m and m.group(g) else [])] if m else None
        if not m or m.group(1).split(",") != got or mod_order != order:
            ctx.tie_break("D-py GlobalState numeric requests + generate_num_constants vs CyVerif.C42 NumPool.run/emitNums",
                          "impl R=%s order=%s / model %s" % (cap(got, 100), cap(order, 100), cap(mo, 150)), rep)
        gs2 = new_gs()
        impl_num_requests(gs2, reqs)
        gs2.num_const_index = shuffled_dict(rng, gs2.num_const_index)
        _, text2 = read_num_table(gs2)
        ctx.count("nums:permuted-index")
        if text2 != text:
            ctx.violation("emit-order-leak:generate_num_constants", "generate_num_constants output depends on the iteration order of num_const_index: %s" % cap(reqs, 200),
                          dict(rep, index_order=[list(k) for k in gs2.num_const_index][:60]))


class _Util:
    def __init__(self, i, log):
        self.i, self.log = i, log

    def put_code(self, gs, used_by=None):
        self.log.append(self.i)


def run_util(ctx, n_cases):
    rng = ctx.rng
    cases = [[rng.randrange(rng.choice([2, 5, 12])) for _ in range(rng.randrange(0, 25))] for _ in range(n_cases)]
    lines = ["C42 util %d %s" % (i % 2, ",".join(map(str, c)) or "-") for i, c in enumerate(cases)]
    outs = ctx.drv.batch(lines)
    for c, line, mo in zip(cases, lines, outs):
        gs, log = new_gs(), []
        objs = {}
        for i in c:
            gs.use_utility_code(objs.setdefault(i, _Util(i, log)))
        spec = list(dict.fromkeys(c))
        impl = "ok " + (",".join(map(str, log)) or "-")
        ctx.count("util")
        ctx.seen(("u", line), nontrivial=len(c) > len(spec))
        if impl != mo:
            ctx.tie_break("D-py use_utility_code vs CyVerif.C42.useAll", "impl %s model %s" % (cap(impl, 100), cap(mo, 100)), {"leg": "util", "uses": c})
        if log != spec:
            ctx.violation("utility-order-not-first-use", "use_utility_code emitted %s for the uses %s (first-use order %s)" % (cap(log, 80), cap(c, 80), cap(spec, 80)),
                          {"leg": "util", "uses": c})


class _T:
    pass


def run_tsort(ctx, n_cases):
    from Cython.Compiler.ModuleNode import ModuleNode
    rng = ctx.rng
    cases = []
    for _ in range(n_cases):
        n = rng.choice([1, 2, 4, 7, 12])
        keys = rng.sample(range(1, 60), n)
        base = {}
        for j, k in enumerate(keys):
            r = rng.random()
            base[k] = None if (j == 0 or r < 0.3) else (rng.choice(keys[:j]) if r < 0.9 else 100 + rng.randrange(3))   # 100+: base outside the dict
        order = list(keys)
        rng.shuffle(order)
        ditems = list(base.items())
        rng.shuffle(ditems)
        cases.append((ditems, order))
    lines = ["C42 tsort %s %s" % (";".join("%d:%s" % (k, "-" if b is None else b) for k, b in d), ",".join(map(str, o))) for d, o in cases]
    outs = ctx.drv.batch(lines)
    for (ditems, order), line, mo in zip(cases, lines, outs):
        def build(items):
            types = {}
            def ty(k):
                if k is None:
                    return None
                if k not in types:
                    t = types[k] = _T()
                    t.key = k
                    t.base_type = None
                return types[k]
            d = {}
            for k, b in items:
                e = _T()
                e.type = ty(k)
                e.type.base_type = ty(b)
                d[k] = e
            return d
        res = ModuleNode.sort_types_by_inheritance(None, build(ditems), list(order), lambda t: t.key)
        got = [e.type.key for e in res]
        res2 = ModuleNode.sort_types_by_inheritance(None, build(sorted(ditems)), list(order), lambda t: t.key)
        impl = "ok " + (",".join(map(str, got)) or "-")
        ctx.count("tsort:n=%d" % len(order))
        ctx.seen(("t", line), nontrivial=len(order) > 1)
        rep = {"leg": "tsort", "dict": [list(x) for x in ditems], "order": order}
        if impl != mo:
            ctx.tie_break("D-py sort_types_by_inheritance vs CyVerif.C42.sortTypes", "impl %s model %s" % (cap(impl, 100), cap(mo, 100)), rep)
        base = dict(ditems)
        pos = {k: i for i, k in enumerate(got)}
        topo = sorted(got) == sorted(order) and all(base[k] is None or base[k] not in pos or pos[base[k]] < pos[k] for k in got)
        if not topo or [e.type.key for e in res2] != got:
            ctx.violation("type-order-not-a-function-of-the-list", "sort_types_by_inheritance(%s, %s) = %s: not a base-first permutation, or it depends on the dict order"
                          % (cap(ditems, 100), cap(order, 60), cap(got, 60)), rep)


# ---------------------------------------------------------------------------------------------------------------
# oracle leg: whole compilations in child processes

CHILD = r'''
import sys, os, json, hashlib
spec = json.loads(open(sys.argv[1]).read())
os.chdir(spec["cwd"])
import Cython.Compiler.Code as C
assert C.__file__.endswith(".py"), C.__file__
out = {}
if spec["mode"] == "compile":
    from Cython.Compiler.Main import compile as cy_compile, CompilationOptions
    for name, path in spec["modules"]:
        dst = os.path.join(spec["out"], name + ".c")
        try:
            res = cy_compile(path, CompilationOptions(language_level=3, output_file=dst))
            out[name] = "ok" if res.num_errors == 0 and os.path.exists(dst) else "ERRORS"
        except BaseException as e:
            out[name] = "EXC " + type(e).__name__ + ": " + str(e)[:200]
else:
    from Cython.Build import cythonize
    try:
        cythonize([p for _, p in spec["modules"]], force=True, quiet=True, language_level=3, nthreads=spec["nthreads"])
        for name, path in spec["modules"]:
            src = os.path.splitext(path)[0] + ".c"
            out[name] = "ok" if os.path.exists(src) else "ERRORS"
            if os.path.exists(src):
                os.replace(src, os.path.join(spec["out"], name + ".c"))
    except BaseException as e:
        out["*"] = "EXC " + type(e).__name__ + ": " + str(e)[:200]
print("RESULT " + json.dumps(out))
'''

META_SRC = {
    "p/h0.h": "int f0(void);\n",
    "p/m.pyx": 'cimport aa, bb, cc, dd\ncdef extern from "h0.h":\n    int f0()\ninclude "s1/inc1.pxi"\ninclude "s2/inc2.pxi"\ninclude "s3/inc3.pxi"\ndef g():\n    return 1\n',
}
for _i in (1, 2, 3):
    META_SRC["p/s%d/h%d.h" % (_i, _i)] = "int f%d(void);\n" % _i
    META_SRC["p/s%d/inc%d.pxi" % (_i, _i)] = 'cdef extern from "h%d.h":\n    int f%d()\n' % (_i, _i)
for _n in ("aa", "bb", "cc", "dd"):
    META_SRC["p/%s.pxd" % _n] = "# distutils: libraries = L%s\ncdef int v_%s\n" % (_n, _n)


def write_tree(root, files):
    for rel, txt in files.items():
        p = os.path.join(root, rel)
        os.makedirs(os.path.dirname(p), exist_ok=True)
        with open(p, "w") as f:
            f.write(txt)


def run_config(ctx, cfg):
    d = os.path.join(ctx.scratch, "cfg_" + cfg["id"])
    os.makedirs(os.path.join(d, "out"), exist_ok=True)
    spec = {"cwd": cfg["cwd"], "out": os.path.join(d, "out"), "modules": cfg["modules"], "mode": cfg["mode"], "nthreads": cfg.get("nthreads", 0)}
    sp = os.path.join(d, "spec.json")
    with open(sp, "w") as f:
        json.dump(spec, f)
    env = lib._clean_env({"PYTHONPATH": ctx.stage, "PYTHONHASHSEED": cfg["hashseed"]})
    try:
        p = subprocess.run([lib.PYTHON, "-c", CHILD, sp], stdout=subprocess.PIPE, stderr=subprocess.PIPE, text=True, env=env, timeout=1500)
    except subprocess.TimeoutExpired:
        return cfg, None, "timeout"
    for line in p.stdout.split("\n"):
        if line.startswith("RESULT "):
            return cfg, json.loads(line[7:]), spec["out"]
    return cfg, None, p.stderr[-600:]


def first_diff(a, b):
    la, lb = a.split(b"\n"), b.split(b"\n")
    for i, (x, y) in enumerate(zip(la, lb)):
        if x != y:
            return i + 1, x[:120].decode("latin1"), y[:120].decode("latin1")
    return min(len(la), len(lb)) + 1, "<eof>", "<eof>"


def classify(line_a):
    for tag, pat in (("include_dirs", '"p'), ("libraries", '"L')):
        if pat in line_a:
            return tag
    return None


def metadata_of(ctext):
    m = re.search(rb"/\* BEGIN: Cython Metadata\n(.*?)\nEND: Cython Metadata \*/", ctext, re.S)
    if not m:
        return None, ctext
    return json.loads(m.group(1).decode()), ctext[:m.start()] + ctext[m.end():]


def run_oracle(ctx, extra_seeds=0):
    rng = ctx.rng
    gen_dir = os.path.join(ctx.scratch, "gen")
    os.makedirs(gen_dir, exist_ok=True)
    sources = {}
    n_gen = 5 if ctx.quick else 10
    for i in range(n_gen):
        src = c42gen.gen_module(rng, 1 if i % 3 else 2, memview=(not ctx.quick and i == 0))
        sources["g%d" % i] = src
        with open(os.path.join(gen_dir, "g%d.pyx" % i), "w") as f:
            f.write(src)
    gen_mods = [["g%d" % i, os.path.join(gen_dir, "g%d.pyx" % i)] for i in range(n_gen)]
    real = ["Cython/StringIOTree.py", "Cython/Compiler/LineTable.py", "Cython/Utils.py", "Cython/Plex/Transitions.py", "Cython/Plex/DFA.py",
            "Cython/Plex/Machines.py", "Cython/Compiler/FlowControl.py"]
    if not ctx.quick:
        real += ["Cython/Compiler/StringEncoding.py", "Cython/Compiler/Visitor.py", "Cython/LZSS.py", "Cython/Plex/Scanners.py", "Cython/Compiler/Scanning.py",
                 "Cython/Compiler/FusedNode.py", "Cython/Compiler/Code.py"]
    real_mods = [["real_" + os.path.basename(p)[:-3], p] for p in real if os.path.exists(os.path.join(ctx.stage, p))]
    mods = gen_mods + real_mods
    cfgs = []
    seeds = ["0", "1", "2", "3", "random", "random"] + [str(10 + i) for i in range(extra_seeds)]
    for i, s in enumerate(seeds):
        order = list(mods) if i % 2 == 0 else list(reversed(mods))
        if i >= 4:
            order = rng.sample(mods, len(mods))
        cfgs.append({"id": "batch%d" % i, "group": "compile", "mode": "compile", "hashseed": s, "cwd": ctx.stage, "modules": order,
                     "desc": "PYTHONHASHSEED=%s, one process, module order %s" % (s, "forward" if i % 2 == 0 and i < 4 else "reversed" if i < 4 else "shuffled")})
    for j, m in enumerate(rng.sample(gen_mods, 2) + ([real_mods[-1]] if ctx.quick else rng.sample(real_mods, 2))):
        cfgs.append({"id": "iso%d" % j, "group": "compile", "mode": "compile", "hashseed": str(20 + j), "cwd": ctx.stage, "modules": [m],
                     "desc": "PYTHONHASHSEED=%d, isolated process (only this module)" % (20 + j)})
    for j, (nt, s) in enumerate([(0, "5"), (4, "random"), (4, "6")]):
        d = os.path.join(ctx.scratch, "cyz%d" % j)
        os.makedirs(d, exist_ok=True)
        for n, src in sources.items():
            with open(os.path.join(d, n + ".pyx"), "w") as f:
                f.write(src)
        cfgs.append({"id": "cyz%d" % j, "group": "cythonize", "mode": "cythonize", "nthreads": nt, "hashseed": s, "cwd": d,
                     "modules": [[n, n + ".pyx"] for n in sorted(sources)], "desc": "cythonize(nthreads=%d), PYTHONHASHSEED=%s" % (nt, s)})
    for j, s in enumerate(["0", "1", "2", "3"]):
        d = os.path.join(ctx.scratch, "meta%d" % j)
        write_tree(d, META_SRC)
        cfgs.append({"id": "meta%d" % j, "group": "meta", "mode": "cythonize", "nthreads": 0, "hashseed": s, "cwd": d, "modules": [["meta_m", "p/m.pyx"]],
                     "desc": "cythonize of a module with 4 cimported .pxd (distutils libraries) and 3 included .pxi with extern headers, PYTHONHASHSEED=%s" % s})
    sources["meta_m"] = json.dumps(META_SRC)
    with ThreadPoolExecutor(max_workers=min(12, len(cfgs))) as ex:
        results = list(ex.map(lambda c: run_config(ctx, c), cfgs))
    outputs = collections.defaultdict(list)     # (group, module) -> [(cfg, bytes)]
    for cfg, res, outdir in results:
        if res is None:
            raise lib.Infra("child %s failed: %s" % (cfg["id"], cap(outdir, 500)))
        for name, _ in cfg["modules"]:
            st = res.get(name, res.get("*", "missing"))
            if st != "ok":
                # a compiler error is not this property's business, but must be the same everywhere
                outputs[(cfg["group"], name)].append((cfg, ("STATUS " + st).encode()))
                continue
            with open(os.path.join(outdir, name + ".c"), "rb") as f:
                outputs[(cfg["group"], name)].append((cfg, f.read()))
    ctx.notes["oracle_configs"] = [c["desc"] for c in cfgs]
    for (group, name), lst in sorted(outputs.items()):
        cfg0, ref = lst[0]
        ctx.count("oracle:%s" % group, len(lst))
        ctx.seen(("o", group, name, hashlib.sha256(ref).hexdigest()), nontrivial=len(lst) > 1)
        if ref.startswith(b"STATUS "):
            ctx.notes.setdefault("oracle_compile_errors", []).append("%s: %s" % (name, cap(ref.decode(), 120)))
        for cfg, data in lst[1:]:
            if data == ref:
                continue
            src = sources.get(name)
            rep = {"leg": "oracle", "module": name, "config_a": cfg0["desc"], "config_b": cfg["desc"], "source": cap(src, 20000) if src else "staged " + name}
            ma, ra = metadata_of(ref)
            mb, rb = metadata_of(data)
            if ma is not None and mb is not None and ra == rb:
                fields = sorted(k for k in set(ma.get("distutils", {})) | set(mb.get("distutils", {})) if ma["distutils"].get(k) != mb["distutils"].get(k))
                for fld in fields or ["?"]:
                    ctx.violation("cythonize-metadata-order:%s" % fld,
                                  "C file written by cythonize differs between [%s] and [%s]: metadata %s = %s vs %s"
                                  % (cfg0["desc"][-20:], cfg["desc"][-20:], fld, cap(ma["distutils"].get(fld), 70), cap(mb["distutils"].get(fld), 70)), rep)
                continue
            ln, xa, xb = first_diff(ra if ma is not None else ref, rb if mb is not None else data)
            kind = "generated" if name.startswith("g") else name
            ctx.violation("nondeterministic-c-output:%s:%s" % (group, kind),
                          "%s: C output differs between [%s] and [%s]; first difference at line %d: %s | %s" % (name, cap(cfg0["desc"], 60), cap(cfg["desc"], 60), ln, cap(xa, 70), cap(xb, 70)),
                          dict(rep, line=ln, a=xa, b=xb))
            break
    return len(cfgs)


def run(ctx):
    from Cython.Compiler import Naming
    P = {"k": Naming.const_prefix, "n": Naming.interned_prefixes["str"], "kp": Naming.py_const_prefix,
         "int": Naming.interned_prefixes["int"], "float": Naming.interned_prefixes["float"]}
    ctx.rule = ("(a) D-py: random request sequences (texts built from colliding pieces, str / encoded str / bytes, identifier=True/None/False; ints up to 45 digits with equal "
                "heads and tails, longs, floats) driven through the real GlobalState, cnames and table orders compared with the Lean model, then the same constants re-emitted "
                "from shuffled dicts; use_utility_code with repeated uses; sort_types_by_inheritance on random forests with bases outside the dict and shuffled dict/list orders; "
                "(b) oracle: generated .pyx modules + the compiler's own modules compiled under PYTHONHASHSEED 0,1,2,3,random in forward/reversed/shuffled batch order, isolated, "
                "cythonize nthreads=0/4, byte comparison; a cythonize project with several cimported .pxd / included .pxi; non-trivial = more than one request / configuration")
    ctx.explanation = ("Theorems cover the constant-table emitters of GlobalState (string table, number table: output independent of dict iteration order for every reachable pool), "
                       "unique_const_cname freshness, when cnames are content-keyed vs. request-sequence-keyed, use_utility_code (first-use order) and sort_types_by_inheritance "
                       "(function of the list order). NOT covered by a theorem: that the request sequence is a function of the AST (parser, transforms, Symtab counters, closure / lambda "
                       "/ genexpr numbering, ModuleNode emission order, type inference over sets of assignments), Build/Dependencies ordering, parallel cythonize, and the "
                       "self-compiled compiler: these are checked only by the byte comparison of whole compilations and by the AST scan for iterations over sets; "
                       "the self-compiled (Cython-compiled) compiler is NOT exercised at all.")
    ctx.assumptions = ["Python's list.sort / sorted are stable sorts by the stated key (modelled by List.mergeSort)",
                       "UTF-8 byte order = code point order (text strings are keyed by their UTF-8 bytes in the model)",
                       "possible_unicode_identifier on non-ASCII text is an abstract input of the model (computed with the same regular expression)"]
    ok = scan_obligation(ctx)
    scale = ctx.budget_scale * (1 if ok else 3)
    n = int((150 if ctx.quick else 1500) * scale)
    run_strings(ctx, P, n)
    run_nums(ctx, P, n)
    run_util(ctx, n)
    run_tsort(ctx, n * 2)
    extra = 0 if (ok and not ctx.tie_breaks and ctx.budget_scale == 1.0) else 6
    if os.environ.get("VERIF_C42_SKIP_ORACLE") == "1":        # development aid only: in-process legs without the child compilations
        ctx.notes["oracle"] = "SKIPPED by VERIF_C42_SKIP_ORACLE (development aid): this run says nothing about whole compilations"
        ncfg = 0
    else:
        ncfg = run_oracle(ctx, extra_seeds=extra + (0 if ctx.quick else 4))
    ctx.notes["coverage_of_modelled_functions"] = ("every branch of unique_const_cname (collision loop), new_const_cname, new_num_const_cname (large / long / float), "
                                                   "StringConst.get_py_string_const (all identifier / encoding cases), generate_string_constants, the two sorts of "
                                                   "generate_pystring_constants, generate_num_constants (all bucket sizes, large), use_utility_code, sort_types_by_inheritance "
                                                   "(external base break, seen-return) is reached by the fixed + random D-py cases")
    ctx.notes["self_compiled_compiler"] = "not covered: compiling the compiler with itself was not attempted in this check"
    ctx.notes["configs"] = ncfg

"""C40 mini-language: generator, renderer (Python source) and encoder (token list for the Lean model).

Expr : ('int', n) ('float', hexstr) ('bool', b) ('str', s) ('none',) ('name', v) ('bin', op, a, b) ('un', op, a)
       ('cmp', op, a, b) ('call', a) ('len', a) ('idx', a, b) ('abs', a)
Stmt : ('assign', v, e) ('aug', v, op, e) ('forr', v, [e..], body) ('forin', v, e, body) ('while', e, body)
       ('if', e, body, orelse) ('ret', e) ('pass',)
Variables are small ints: 0..NPAR-1 are the parameters p0..p2, the others are locals v3.. .
"""
NPAR = 3
BINOPS = ['+', '-', '*', '//', '%', '**', '/', '<<', '>>', '&', '|', '^']
UNOPS = ['-', '+', '~', 'not']
CMPOPS = ['<', '<=', '==', '!=', '>', '>=', 'is', 'isnot']
OPNAME = {'+': 'add', '-': 'sub', '*': 'mul', '//': 'fdiv', '%': 'mod', '**': 'pow', '/': 'div', '<<': 'shl',
          '>>': 'shr', '&': 'and', '|': 'or', '^': 'xor'}
UNNAME = {'-': 'neg', '+': 'pos', '~': 'inv', 'not': 'not'}
CMPNAME = {'<': 'lt', '<=': 'le', '==': 'eq', '!=': 'ne', '>': 'gt', '>=': 'ge', 'is': 'is', 'isnot': 'isnot'}
INT_LITS = [0, 1, 2, 3, 5, 7, 10, 31, 32, 62, 63, 64, 70, 100, 1000000, 2 ** 31 - 1, 2 ** 31, 2 ** 32, 2 ** 62,
            2 ** 63 - 1, 2 ** 63, 2 ** 64, 9007199254740993, 10 ** 30]
FLOAT_LITS = [0.0, 1.0, 1.5, 2.0, 0.5, 1e308, 1e-320, 9007199254740992.0, 3.0, 0.1]
STR_LITS = ['', 'a', 'abc', 'abé', '7']


def vname(v):
    return ('p%d' if v < NPAR else 'v%d') % v


def rx(e):
    k = e[0]
    if k == 'int':
        return str(e[1]) if e[1] >= 0 else '(%d)' % e[1]
    if k == 'float':
        return repr(float.fromhex(e[1]))
    if k == 'bool':
        return 'True' if e[1] else 'False'
    if k == 'str':
        return repr(e[1])
    if k == 'none':
        return 'None'
    if k == 'name':
        return vname(e[1])
    if k == 'bin':
        return '(%s %s %s)' % (rx(e[2]), e[1], rx(e[3]))
    if k == 'un':
        return '(%s %s)' % (e[1], rx(e[2]))
    if k == 'cmp':
        return '(%s %s %s)' % (rx(e[2]), 'is not' if e[1] == 'isnot' else e[1], rx(e[3]))
    if k == 'call':
        return 'ident(%s)' % rx(e[1])
    if k == 'len':
        return 'len(%s)' % rx(e[1])
    if k == 'abs':
        return 'abs(%s)' % rx(e[1])
    if k == 'idx':
        return '%s[%s]' % (rx(e[1]) if e[1][0] in ('name', 'str') else '(' + rx(e[1]) + ')', rx(e[2]))
    raise ValueError(k)


def rs(body, ind, out):
    pad = '    ' * ind
    if not body:
        out.append(pad + 'pass')
    for s in body:
        k = s[0]
        if k == 'assign':
            out.append('%s%s = %s' % (pad, vname(s[1]), rx(s[2])))
        elif k == 'aug':
            out.append('%s%s %s= %s' % (pad, vname(s[1]), s[2], rx(s[3])))
        elif k == 'forr':
            out.append('%sfor %s in range(%s):' % (pad, vname(s[1]), ', '.join(rx(a) for a in s[2])))
            rs(s[3], ind + 1, out)
        elif k == 'forin':
            out.append('%sfor %s in %s:' % (pad, vname(s[1]), rx(s[2])))
            rs(s[3], ind + 1, out)
        elif k == 'while':
            out.append('%swhile %s:' % (pad, rx(s[1])))
            rs(s[2], ind + 1, out)
        elif k == 'if':
            out.append('%sif %s:' % (pad, rx(s[1])))
            rs(s[2], ind + 1, out)
            if s[3]:
                out.append(pad + 'else:')
                rs(s[3], ind + 1, out)
        elif k == 'ret':
            out.append('%sreturn %s' % (pad, rx(s[1])))
        elif k == 'pass':
            out.append(pad + 'pass')
        else:
            raise ValueError(k)


def render(prog, fname='f'):
    out = ['def %s(%s):' % (fname, ', '.join(vname(i) for i in range(NPAR)))]
    rs(prog, 1, out)
    return '\n'.join(out) + '\n'


PRELUDE = '''
def ident(x):
    return x
'''


def is_lit(e):
    return e[0] in ('int', 'float', 'bool', 'str', 'none')


class Gen:
    def __init__(self, rng, nloc=5, features=None, small=False):
        self.rng = rng
        self.small = small
        self.locs = list(range(NPAR, NPAR + nloc))
        self.assigned = []          # locals assigned so far on some path (bias for reads)
        self.reserved = set()       # while counters: not assignable by random statements
        self.f = features or {}

    def lit(self):
        r = self.rng
        k = r.random()
        if k < 0.45:
            n = r.choice(INT_LITS) if r.random() < 0.6 else r.randrange(0, 12)
            if r.random() < 0.15:
                n = -n
            return ('int', n)
        if k < 0.62:
            return ('float', r.choice(FLOAT_LITS).hex())
        if k < 0.78:
            return ('bool', r.random() < 0.5)
        if k < 0.93:
            return ('str', r.choice(STR_LITS))
        return ('none',)

    def name(self):
        r = self.rng
        k = r.random()
        if self.assigned and k < 0.7:
            return ('name', r.choice(self.assigned))
        return ('name', r.randrange(NPAR))

    def expr(self, d=0, want='any'):
        e = self.expr0(d, want)
        # the compiler folds operator applications on literals before inference: keep one non-literal operand
        k = e[0]
        if k == 'cmp' and e[1] in ('is', 'isnot') and is_lit(e[2]):
            e = (k, e[1], self.name(), e[3])
        elif k in ('bin', 'cmp') and is_lit(e[2]) and is_lit(e[3]):
            e = (k, e[1], self.name(), e[3]) if self.rng.random() < 0.5 or (k == 'bin' and e[1] == '**') else (k, e[1], e[2], self.name())
        elif k == 'un' and is_lit(e[2]):
            e = (k, e[1], self.name())
        elif k == 'un' and e[1] == 'not' and e[2][0] == 'cmp' and e[2][1] in ('is', 'isnot'):
            e = e[2]          # the compiler rewrites `not (a is b)` into `a is not b` before inference
        elif k in ('abs', 'len', 'call') and is_lit(e[1]) and k != 'call':
            e = (k, self.name())
        elif k == 'idx' and is_lit(e[1]) and is_lit(e[2]):
            e = (k, e[1], self.name())
        return e

    def expr0(self, d=0, want='any'):
        """want: 'any' | 'num' (numeric-looking) | 'int' (integer-looking) -- a bias, not a guarantee"""
        r = self.rng
        k = r.random()
        if d >= 3 or k < 0.30:
            if r.random() < 0.6:
                return self.name()
            e = self.lit()
            if want != 'any' and e[0] in ('str', 'none') and r.random() < 0.9:
                e = ('int', r.choice(INT_LITS))
            if want == 'int' and e[0] == 'float' and r.random() < 0.9:
                e = ('int', r.choice(INT_LITS))
            return e
        if k < 0.62:
            op = r.choice(BINOPS)
            w = 'int' if op in ('<<', '>>', '&', '|', '^') else 'num'
            if want == 'int' and op == '/':
                op = '//'
            a, b = self.expr(d + 1, w), self.expr(d + 1, w)
            if op == '<<' and r.random() < 0.6:
                b = ('int', r.choice([1, 2, 31, 32, 62, 63, 64, 70]))
            if op == '**':
                b = ('int', r.choice([0, 1, 2, 3, 31, 62, 63, 64, 70, -1])) if r.random() < 0.8 else ('un', 'not', self.name())
            return ('bin', op, a, b)
        if k < 0.72:
            op = r.choice(UNOPS)
            return ('un', op, self.expr(d + 1, 'any' if op == 'not' else 'int' if op == '~' else 'num'))
        if k < 0.82:
            op = r.choice(CMPOPS)
            if op in ('is', 'isnot'):
                return ('cmp', op, self.name() if r.random() < 0.7 else self.expr(d + 1, 'any'), ('none',))
            return ('cmp', op, self.expr(d + 1, 'any' if op in ('==', '!=') else 'num'), self.expr(d + 1, 'num'))
        if k < 0.87:
            return ('call', self.expr(d + 1, want))
        if k < 0.93:
            t = r.random()
            return ('len', ('name', 1) if t < 0.45 else ('name', 2) if t < 0.8 else ('str', r.choice(STR_LITS)) if t < 0.9 else self.name())
        if k < 0.96:
            return ('abs', self.expr(d + 1, 'num'))
        t = r.random()
        base = ('name', 1) if t < 0.3 else ('str', r.choice(STR_LITS[1:])) if t < 0.6 else self.name()
        return ('idx', base, ('int', r.choice([0, 1, -1, 2, 5])) if r.random() < 0.6 else self.expr(d + 1, 'int'))

    def target(self):
        r = self.rng
        c = [v for v in self.locs if v not in self.reserved]
        if not c:
            return None
        v = r.choice(c)
        if r.random() < 0.5 and self.assigned:
            a = [x for x in self.assigned if x not in self.reserved]
            if a:
                v = r.choice(a)
        return v

    def note(self, v):
        if v not in self.assigned:
            self.assigned.append(v)

    def stmt(self, d):
        r = self.rng
        k = r.random()
        if all(v in self.reserved for v in self.locs):
            return ('pass',)
        if d >= (1 if self.small else 2) or k < 0.5:
            v = self.target()
            e = self.expr(1) if r.random() < 0.7 else (self.lit() if r.random() < 0.7 else ('len', ('name', r.choice([1, 2]))))
            self.note(v)
            return ('assign', v, e)
        if k < 0.62:
            v = self.target()
            op = r.choice(BINOPS)
            e = self.expr(2, 'num')
            if op == '<<' and r.random() < 0.6:
                e = ('int', r.choice([1, 2, 31, 62, 63, 70]))
            if op == '**':
                e = ('int', r.choice([0, 1, 2, 3, 31, 63, 70, -1]))
            if v not in self.assigned:
                return ('assign', v, e)
            return ('aug', v, op, e)
        if k < 0.74:
            v = self.target()
            t = r.random()
            small = lambda: ('int', r.choice([0, 1, 2, 3, 4]))
            if t < 0.35:
                args = [small()]
            elif t < 0.5:
                args = [('len', ('name', 1))]
            elif t < 0.75:
                args = [r.choice([small(), ('int', 2 ** 31 - 2), ('int', 2 ** 63 - 3), ('int', 2 ** 63 + 5), ('int', -3)])]
                lo = args[0][1]
                args.append(('int', lo + r.choice([0, 1, 2, 3])))
            else:
                lo = r.choice([0, 5, 2 ** 63 - 4, -2])
                st = r.choice([1, 2, -1, 3])
                n = r.choice([0, 1, 2, 3])
                args = [('int', lo), ('int', lo + st * n), ('int', st)]
            self.note(v)
            self.reserved.add(v)
            body = self.block(d + 1)
            self.reserved.discard(v)
            return ('forr', v, args, body)
        if k < 0.80:
            v = self.target()
            t = r.random()
            seq = ('name', 1) if t < 0.6 else ('str', r.choice(STR_LITS))
            self.note(v)
            return ('forin', v, seq, self.block(d + 1))
        if k < 0.86:
            free = [v for v in self.locs if v not in self.reserved and v not in self.assigned]
            if not free:
                return ('pass',)
            w = free[0]
            self.note(w)
            self.reserved.add(w)
            body = self.block(d + 1)
            return ('WHILE', w, r.choice([1, 2, 3]), body)
        c = self.expr(1)
        if is_lit(c):
            c = self.name()
        return ('if', c, self.block(d + 1), self.block(d + 1) if r.random() < 0.5 else [])

    def block(self, d):
        out = []
        for _ in range(self.rng.choice([1, 1, 2] if self.small else [1, 1, 2, 3])):
            s = self.stmt(d)
            if s[0] == 'WHILE':
                _, w, n, body = s
                out.append(('assign', w, ('int', n)))
                out.append(('while', ('name', w), body + [('assign', w, ('bin', '-', ('name', w), ('int', 1)))]))
            else:
                out.append(s)
        return out

    def prog(self):
        body = []
        for _ in range(self.rng.choice([1, 2, 3] if self.small else [2, 3, 4, 5, 6])):
            body.extend(self.block(0))
        r = self.rng
        if self.assigned and r.random() < 0.8:
            e = ('name', r.choice(self.assigned))
        else:
            e = self.expr(1)
        body.append(('ret', e))
        return body


RUNTIME_PRELUDE = '''
class BigLen:
    def __init__(self, n):
        self.n = n
    def __len__(self):
        return self.n
    def __repr__(self):
        return 'BigLen(%d)' % self.n

def ident(x):
    return x

def _verif_env():
    import resource
    lim = 1536 * 1024 * 1024
    try:
        resource.setrlimit(resource.RLIMIT_AS, (lim, lim))
    except Exception:
        pass
    return {'BigLen': BigLen}
'''

P0_VALUES = ['0', '1', '-1', '5', '2**31-1', '2**31', '2**62', '2**63-1', '2**63', '-2**63', '-2**63-1', '10**30',
             '1.5', '0.0', '-0.0', '2.0', '1e308', '9007199254740992.0', 'inf', 'nan', 'True', 'False', 'None', "'ab'"]
P1_VALUES = ['[]', '[1, 2, 3]', '[2.5, -1]', "'xyz'", "''", '(4, 5)', "[10**20, True, None]"]
P2_VALUES = ['0', '3', '-7', '2**63-1', '2**64', '2.5', 'True', "'q'", '[7, 8]', 'BigLen(2**31)', 'BigLen(2**62)',
             'BigLen(2**63-1)', 'BigLen(2**53+1)', 'BigLen(5)']


def gen_inputs(rng, n):
    out = []
    for _ in range(n):
        out.append('(%s, %s, %s)' % (rng.choice(P0_VALUES), rng.choice(P1_VALUES), rng.choice(P2_VALUES)))
    return out


# ---------------------------------------------------------------- encoder for the Lean model
class Enc:
    def __init__(self):
        self.nid = 0
        self.did = 0

    def e(self, e, out):
        k = e[0]
        if k == 'int':
            out += ['i', str(e[1])]
        elif k == 'float':
            import struct
            out += ['f', str(struct.unpack('<Q', struct.pack('<d', float.fromhex(e[1])))[0])]
        elif k == 'bool':
            out += ['b', '1' if e[1] else '0']
        elif k == 'str':
            out += ['s', str(len(e[1]))] + [str(ord(c)) for c in e[1]]
        elif k == 'none':
            out.append('n')
        elif k == 'name':
            out += ['v', str(e[1]), str(self.nid)]
            self.nid += 1
        elif k == 'bin':
            out += ['B', OPNAME[e[1]]]
            self.e(e[2], out)
            self.e(e[3], out)
        elif k == 'un':
            out += ['U', UNNAME[e[1]]]
            self.e(e[2], out)
        elif k == 'cmp':
            out += ['C', CMPNAME[e[1]]]
            self.e(e[2], out)
            self.e(e[3], out)
        elif k in ('call', 'len', 'abs'):
            out.append(k)
            self.e(e[1], out)
        elif k == 'idx':
            out.append('idx')
            self.e(e[1], out)
            self.e(e[2], out)
        else:
            raise ValueError(k)

    def block(self, body, out):
        out.append('{')
        for s in body:
            k = s[0]
            if k == 'assign':
                sub = []
                self.e(s[2], sub)
                out += ['=', str(s[1]), str(self.did)] + sub
                self.did += 1
            elif k == 'aug':
                nid = self.nid
                self.nid += 1
                sub = []
                self.e(s[3], sub)
                out += ['aug', str(s[1]), str(self.did), str(nid), OPNAME[s[2]]] + sub
                self.did += 1
            elif k == 'forr':
                sub = []
                for a in s[2]:
                    self.e(a, sub)
                out += ['forr', str(s[1]), str(self.did), str(len(s[2]))] + sub
                self.did += len(s[2])
                self.block(s[3], out)
            elif k == 'forin':
                sub = []
                self.e(s[2], sub)
                out += ['forin', str(s[1]), str(self.did)] + sub
                self.did += 1
                self.block(s[3], out)
            elif k == 'while':
                out.append('while')
                self.e(s[1], out)
                self.block(s[2], out)
            elif k == 'if':
                out.append('if')
                self.e(s[1], out)
                self.block(s[2], out)
                self.block(s[3], out)
            elif k == 'ret':
                out.append('ret')
                self.e(s[1], out)
            elif k == 'pass':
                out.append('pass')
            else:
                raise ValueError(k)
        out.append('}')


def encode(prog):
    out = []
    Enc().block(prog, out)
    return ' '.join(out)


class BigLen:
    def __init__(self, n):
        self.n = n

    def __len__(self):
        return self.n


def encode_scalar(v):
    import struct
    if isinstance(v, bool):
        return 'b 1' if v else 'b 0'
    if isinstance(v, int):
        return 'i %d' % v
    if isinstance(v, float):
        return 'f %d' % struct.unpack('<Q', struct.pack('<d', v))[0]
    if isinstance(v, str):
        return ' '.join(['s', str(len(v))] + [str(ord(c)) for c in v])
    if v is None:
        return 'n'
    raise ValueError(repr(v))


def encode_val(v):
    if isinstance(v, (list, tuple)):
        return ' '.join(['L', str(len(v))] + [encode_scalar(x) for x in v])
    if isinstance(v, BigLen):
        return 'G %d' % v.n
    return encode_scalar(v)


def encode_args(argsrc):
    vals = eval(argsrc, {'BigLen': BigLen, 'inf': float('inf'), 'nan': float('nan')})
    return ' '.join(encode_val(v) for v in vals)


def canon_py(v):
    """the runner's canonical form of a Python value"""
    inf = float('inf')
    if isinstance(v, float):
        return 'float:' + (v.hex() if v == v and v not in (inf, -inf) else repr(v))
    if isinstance(v, (tuple, list)):
        return type(v).__name__ + ':[' + ';'.join(canon_py(x) for x in v) + ']'
    return type(v).__name__ + ':' + repr(v)


def model_to_canon(line):
    """model outcome line -> runner's canonical form (or the line itself for ub/unsup/crash)"""
    import struct
    if not line.startswith('ok '):
        return line
    t, _, r = line[3:].partition(':')
    if t == 'float':
        return 'ok ' + canon_py(struct.unpack('<d', struct.pack('<Q', int(r)))[0])
    if t == 'str':
        return 'ok ' + canon_py(''.join(chr(int(c)) for c in r.split(',')) if r else '')
    if t in ('list', 'BigLen'):
        return 'unsup'
    return line

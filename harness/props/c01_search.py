"""C01 search leg: differential testing of compiled pure-Python modules against CPython.

A seeded generator (every choice from ctx.rng) emits small pure-Python modules of functions
f0..fN, each instantiated from a named construct template.  The same source is (1) imported as
plain Python in a child CPython process (oracle) and (2) compiled as a .py file by the staged
compiler + gcc (implementation).  Both are driven through cybuild.run_cases via the module-level
`call(k, args)` which returns one canonical string (result type/repr or exception type/args,
followed by the evaluation-order log), so outcome strings are compared exactly.

Exports run_search(ctx) and replay_search(ctx, case).
"""
import hashlib
import os
import re

import cybuild

# exception *messages* (e.args) are compared too; wording-only differences get keys "search:msg:<Exc>:<slug of the CPython message>"
COMPARE_MESSAGES = True

PRELUDE = r'''
_LOG = []
_CALLABLE_TYPES = ('function', 'cython_function_or_method', 'builtin_function_or_method', 'method',
                   'method_descriptor', 'wrapper_descriptor', 'method-wrapper', 'classmethod_descriptor')
def _r(v, _d=0):
    if _d > 6:
        return '...'
    t = type(v)
    if t is set or t is frozenset:
        return t.__name__ + '(' + ', '.join(sorted(_r(x, _d + 1) for x in v)) + ')'
    if t is dict:
        return '{' + ', '.join(_r(k, _d + 1) + ': ' + _r(x, _d + 1) for k, x in v.items()) + '}'
    if t is list:
        return '[' + ', '.join(_r(x, _d + 1) for x in v) + ']'
    if t is tuple:
        return '(' + ', '.join(_r(x, _d + 1) for x in v) + (',)' if len(v) == 1 else ')')
    if t.__name__ in _CALLABLE_TYPES:
        return '<callable>'
    if t.__name__ in ('generator', 'coroutine', 'async_generator') or (hasattr(v, '__next__') and not hasattr(v, '_verif_repr')):
        return '<iterator>'
    if isinstance(v, BaseException):
        return t.__name__ + _r(v.args, _d + 1)
    return repr(v)
def _tn(v):
    n = type(v).__name__
    return 'callable' if n in _CALLABLE_TYPES else n
def _log(tag, v):
    _LOG.append((tag, _r(v)))
    return v
class _LC:
    """logging container"""
    def __init__(self, data, tag='c'):
        self.data = data
        self.tag = tag
    def __getitem__(self, i):
        _log(self.tag + '.get', i)
        return self.data[i]
    def __setitem__(self, i, v):
        _log(self.tag + '.set', (i, v))
        self.data[i] = v
    def __delitem__(self, i):
        _log(self.tag + '.del', i)
        del self.data[i]
    def __contains__(self, x):
        _log(self.tag + '.in', x)
        return x in self.data
    def __len__(self):
        _log(self.tag + '.len', None)
        return len(self.data)
    def __repr__(self):
        return '_LC(' + _r(self.data) + ')'
class _LA:
    """logging attribute holder"""
    def __init__(self, **kw):
        object.__setattr__(self, '_d', dict(kw))
    def __getattr__(self, n):
        if n.startswith('__'):
            raise AttributeError(n)
        _log('getattr', n)
        try:
            return self._d[n]
        except KeyError:
            raise AttributeError(n)
    def __setattr__(self, n, v):
        _log('setattr', (n, v))
        self._d[n] = v
    def __delattr__(self, n):
        _log('delattr', n)
        try:
            del self._d[n]
        except KeyError:
            raise AttributeError(n)
    def __repr__(self):
        return '_LA(' + _r(self._d) + ')'
class _LV:
    """logging value: arithmetic, comparison and truth value are observable"""
    def __init__(self, v, tag='v'):
        self.v = v
        self.tag = tag
    def _o(self, o):
        return o.v if isinstance(o, _LV) else o
    def __add__(self, o):
        _log(self.tag + '.add', self._o(o)); return _LV(self.v + self._o(o), self.tag)
    def __radd__(self, o):
        _log(self.tag + '.radd', self._o(o)); return _LV(self._o(o) + self.v, self.tag)
    def __iadd__(self, o):
        _log(self.tag + '.iadd', self._o(o)); self.v = self.v + self._o(o); return self
    def __mul__(self, o):
        _log(self.tag + '.mul', self._o(o)); return _LV(self.v * self._o(o), self.tag)
    def __rmul__(self, o):
        _log(self.tag + '.rmul', self._o(o)); return _LV(self._o(o) * self.v, self.tag)
    def __sub__(self, o):
        _log(self.tag + '.sub', self._o(o)); return _LV(self.v - self._o(o), self.tag)
    def __rsub__(self, o):
        _log(self.tag + '.rsub', self._o(o)); return _LV(self._o(o) - self.v, self.tag)
    def __neg__(self):
        _log(self.tag + '.neg', None); return _LV(-self.v, self.tag)
    def __lt__(self, o):
        _log(self.tag + '.lt', self._o(o)); return self.v < self._o(o)
    def __le__(self, o):
        _log(self.tag + '.le', self._o(o)); return self.v <= self._o(o)
    def __gt__(self, o):
        _log(self.tag + '.gt', self._o(o)); return self.v > self._o(o)
    def __ge__(self, o):
        _log(self.tag + '.ge', self._o(o)); return self.v >= self._o(o)
    def __eq__(self, o):
        _log(self.tag + '.eq', self._o(o)); return self.v == self._o(o)
    def __ne__(self, o):
        _log(self.tag + '.ne', self._o(o)); return self.v != self._o(o)
    def __hash__(self):
        return hash(self.v)
    def __bool__(self):
        _log(self.tag + '.bool', self.v); return bool(self.v)
    def __index__(self):
        _log(self.tag + '.index', self.v); return int(self.v)
    def __repr__(self):
        return '_LV(' + _r(self.v) + ')'
class _RC:
    """rich comparisons return non-bool objects"""
    def __init__(self, v):
        self.v = v
    def __lt__(self, o):
        return ['lt', self.v, getattr(o, 'v', o)]
    def __gt__(self, o):
        return ['gt', self.v, getattr(o, 'v', o)]
    def __eq__(self, o):
        return 'eq%r' % (getattr(o, 'v', o),) if self.v else ''
    def __ne__(self, o):
        return ()
    __hash__ = None
    def __repr__(self):
        return '_RC(%r)' % (self.v,)
class _CM:
    """logging context manager"""
    def __init__(self, tag, swallow=False, val=None):
        self.tag = tag; self.swallow = swallow; self.val = val
    def __enter__(self):
        _log(self.tag + '.enter', None)
        return self.val
    def __exit__(self, et, ev, tb):
        _log(self.tag + '.exit', None if et is None else et.__name__)
        return self.swallow
    def __repr__(self):
        return '_CM(' + self.tag + ')'
'''

EPILOGUE = r'''
def call(k, args):
    del _LOG[:]
    try:
        r = _FUNCS[k](*args)
        res = (_tn(r), _r(r))
    except BaseException as e:
        res = ('EXC', type(e).__name__, _r(e.args))
    return repr(res) + ' ' + repr(_LOG)
'''

# --------------------------------------------------------------------------
# generator helpers

INTS = ["0", "1", "-1", "2", "3", "5", "7", "-3", "-8", "10", "100", "255", "65536", "2**63", "2**70", "-2**70", "True", "False"]
IDX = ["0", "1", "2", "3", "-1", "-2", "5", "-7"]
FLOATS = ["1.5", "-0.5", "2.0", "0.0", "1e3"]
STRS = ["''", "'a'", "'abc'", "'hello'", "'Hello World'", "'x,y,z'", "'\\xdf\\u2202'", "'12'", "' 7 '", "'-3'", "'aXbXc'"]
MISC = ["None", "True", "1.5", "()", "[]", "{}", "'s'", "(1, 2)", "[1, [2, 3]]", "{'a': 1}", "2**70", "-1", "0", "b'by'", "(None,)"]


class Gen:
    def __init__(self, rng):
        self.rng = rng
        self.ntag = 0
        self.fn = "f"

    def ch(self, xs):
        return self.rng.choice(xs)

    def coin(self, p=0.5):
        return self.rng.random() < p

    def i(self, lo=-9, hi=9):
        return self.rng.randint(lo, hi)

    def lg(self, expr):
        self.ntag += 1
        return "_log('t%d', %s)" % (self.ntag, expr)

    def mlg(self, expr, p=0.6):
        return self.lg(expr) if self.coin(p) else expr

    def shuf(self, xs):
        xs = list(xs)
        self.rng.shuffle(xs)
        return xs

    # ---- argument values by kind
    def ilist(self, lo=0, hi=5):
        return [str(self.ch([0, 1, 2, 3, -1, 4, 7, -5, 10, 2])) for _ in range(self.i(lo, hi))]

    def val(self, kind):
        c = self.ch
        if kind == "i":
            return c(INTS)
        if kind == "j":        # small int
            return str(self.i(-6, 9))
        if kind == "k":
            return c(IDX)
        if kind == "n":
            return c(INTS + FLOATS)
        if kind == "s":
            return c(STRS)
        if kind == "l":
            return "[" + ", ".join(self.ilist()) + "]"
        if kind == "m":        # non-empty list, len >= 3
            return "[" + ", ".join(self.ilist(3, 6)) + "]"
        if kind == "t":
            x = self.ilist()
            return "(" + ", ".join(x) + ("," if len(x) == 1 else "") + ")"
        if kind == "q":
            return c([self.val("l"), self.val("t"), self.val("s"), "range(%d)" % self.i(0, 5), self.val("m")])
        if kind == "L":
            return "[" + ", ".join(c(STRS) for _ in range(self.i(0, 4))) + "]"
        if kind == "d":
            ks = self.shuf(["'a'", "'b'", "'c'", "'d'", "1", "(1, 2)"])[:self.i(0, 4)]
            return "{" + ", ".join("%s: %s" % (k, self.val("j")) for k in ks) + "}"
        if kind == "D":
            ks = self.shuf(["'a'", "'b'", "'c'", "'k'", "'z'"])[:self.i(0, 3)]
            return "{" + ", ".join("%s: %s" % (k, self.val("j")) for k in ks) + "}"
        if kind == "M":
            return "[" + ", ".join(self.ch([self.val("l"), self.val("t"), self.val("l")]) for _ in range(self.i(0, 4))) + "]"
        if kind == "p":
            return "[" + ", ".join("(%s, %s)" % (self.val("j"), c(STRS)) for _ in range(self.i(0, 4))) + "]"
        if kind == "b":
            return c(["True", "False", "0", "1", "''", "'x'", "[]", "[0]", "None"])
        return c(MISC + INTS[:8] + STRS[:4])

    def argtuple(self, vals):
        return "(" + "".join(v + ", " for v in vals) + ")"

    def cases(self, kinds, star, ngood, nbad):
        out = []
        for _ in range(ngood):
            out.append(self.argtuple([self.val(k) for k in kinds]))
        for _ in range(nbad):
            vals = [self.val(k) for k in kinds]
            r = self.rng.random()
            if star and r < 0.3:
                if vals and self.coin():
                    vals.pop()
                else:
                    vals.append(self.val("a"))
            elif vals:
                vals[self.i(0, len(vals) - 1)] = self.val("a")
            out.append(self.argtuple(vals))
        return out


def T(params, kinds, body, pre=(), extra=(), star_ok=True):
    return {"params": list(params), "kinds": kinds, "body": list(body), "pre": list(pre), "extra": list(extra), "star_ok": star_ok}


def guard(stmts):
    """each statement in its own try/except so that one exception does not hide the rest"""
    out = []
    for st in stmts:
        out += ["try:", "    " + st.replace("\n", "\n    "), "except Exception as e:", "    out.append(('E', type(e).__name__))"]
    return out


def ind(lines, n=1):
    return [("    " * n) + l for l in lines]


BINOPS = ["+", "-", "*", "//", "%", "&", "|", "^"]
CMPOPS = ["<", "<=", ">", ">=", "==", "!="]

# --------------------------------------------------------------------------
# templates: unpacking / assignment


def t_unpack_star(g):
    nb, na = g.i(0, 2), g.i(0, 2)
    names = ["u%d" % i for i in range(nb)] + ["*m"] + ["w%d" % i for i in range(na)]
    tgt = ", ".join(names) if len(names) > 1 else "*m,"
    if g.coin(0.3):
        tgt = "[" + tgt.rstrip(",") + "]"
    rhs = g.ch(["x", "iter(x)", g.lg("x"), "x[:]" if g.coin() else "x"])
    body = [tgt + " = " + rhs, "return (%s)" % "".join(n.lstrip("*") + ", " for n in names)]
    if g.coin(0.4):
        body.insert(1, "m.append(%s)" % g.i())
    return T(["x"], "q", body)


def _nested_target(g, depth, used):
    parts, vals, star = [], [], False
    for _ in range(g.i(2, 3)):
        r = g.rng.random()
        if depth < 2 and r < 0.35:
            t, v = _nested_target(g, depth + 1, used)
            parts.append(t); vals.append(v)
        elif not star and r < 0.55:
            star = True
            used.append("s%d" % len(used)); parts.append("*" + used[-1])
            vals.extend(str(g.i()) for _ in range(g.i(0, 2)))
        else:
            used.append("v%d" % len(used)); parts.append(used[-1])
            vals.append(g.ch([str(g.i()), g.ch(STRS), "None"]))
    br = g.ch(["(%s)", "[%s]"])
    vb = g.ch(["(%s,)", "[%s]"])
    return br % ", ".join(parts), vb % ", ".join(vals)


def t_unpack_nested(g):
    used = []
    tgt, v0 = _nested_target(g, 0, used)
    extra = ["(%s,)" % v0]
    st = g.rng.getstate()
    for _ in range(2):
        u2 = []
        _, v = _nested_target(g, 0, u2)
        extra.append("(%s,)" % v)
    body = [tgt + " = " + g.mlg("x", 0.3), "return (%s,)" % ", ".join(used)]
    return T(["x"], "a", body, extra=extra)


def t_swap_rotate(g):
    names = ["a", "b", "c"]
    perm = g.shuf(names)
    rhs = ", ".join(g.mlg(n) for n in perm)
    body = ["a, b, c = %s" % rhs]
    if g.coin():
        body.append("a, b = b, a %s c" % g.ch(BINOPS[:3]))
    if g.coin():
        body.append("(a, b), c = (c, a), b")
    body.append("return (a, b, c)")
    return T(names, "nis", body)


def t_swap_subscript(g):
    i, j = g.ch(["i", "0", "-1", "i - 1"]), g.ch(["j", "1", "-1", "j + 1"])
    body = ["c = _LC(list(x), 'c')"]
    form = g.i(0, 3)
    if form == 0:
        body.append("c[%s], c[%s] = c[%s], c[%s]" % (i, j, j, i))
    elif form == 1:
        body.append("i, c[i] = c[i], i")
    elif form == 2:
        body.append("c[i], i = i, c[j]")
        body.append("c[i] = j")
    else:
        body.append("c[%s], c[%s], c[%s] = c[%s], c[%s], %s" % (i, j, "0", j, "0", g.lg("c[%s]" % i)))
    body.append("return (c.data, i, j)")
    return T(["x", "i", "j"], "mkk", body)


def t_assign_chain_order(g):
    v = g.lg("v")
    tg = g.shuf(["c[%s]" % g.lg("i"), "d[%s]" % g.lg("j"), "o.%s" % g.ch(["p", "q"]), "w"])[:g.i(2, 4)]
    body = ["c = _LC(list(x), 'c')", "d = _LC({}, 'd')", "o = _LA()", "w = None",
            " = ".join(tg) + " = " + v, "return (c.data, d.data, o, w)"]
    return T(["x", "i", "j", "v"], "mkka", body)


def t_unpack_loop_target(g):
    form = g.i(0, 2)
    if form == 0:
        body = ["out = []", "for n, (a, *b) in enumerate(x, %d):" % g.i(0, 3), "    out.append((n, a, b))", "return out"]
        ex = ["([(1, 2, 3), 'ab', [5]],)", "([(1,), ()],)", "([[1, 2], 3],)"]
    elif form == 1:
        body = ["out = {}", "for (a, b), c in zip(x, y):", "    out[a] = %s" % g.ch(["(b, c)", "b + c", "[c, b]"]),
                "return out"]
        ex = ["([(1, 2), (3, 4)], [5, 6])", "([(1, 'a'), (1, 'b')], 'xyz')", "([(1, 2, 3)], [1])", "([1], [1])"]
        return T(["x", "y"], "pl", body, extra=ex)
    else:
        body = ["out = []", "for c[%s] in x:" % g.ch(["0", "-1", "i"]), "    out.append(list(c.data))", "return (out, i)"]
        return T(["x", "i"], "qk", ["c = _LC([0, 0], 'c')"] + body)
    return T(["x"], "p", body, extra=ex)


def t_condexpr(g):
    def cx(d):
        if d >= 2 or g.coin(0.3):
            return g.lg(g.ch(["a", "b", "c", str(g.i())]))
        return "(%s if %s else %s)" % (cx(d + 1), g.lg("%s %s %s" % (g.ch("abc"), g.ch(CMPOPS), g.ch(["a", "b", "c", str(g.i())]))), cx(d + 1))
    body = ["r = " + cx(0), "return (r, %s if %s else %s)" % (g.ch(["a", "'y'"]), g.ch(["not a", "a and b", "b or c", "c"]), g.ch(["b", "None"]))]
    return T(["a", "b", "c"], "jjn", body)

# --------------------------------------------------------------------------
# templates: augmented assignment


def t_aug_name(g):
    ops = ["+=", "-=", "*=", "//=", "%=", "**=", "<<=", ">>=", "&=", "|=", "^=", "/="]
    body = ["x = a"]
    for _ in range(g.i(2, 5)):
        op = g.ch(ops)
        if op == "**=":
            rhs = g.ch(["2", "3", "(b % 4)", "0"])
        elif op in ("<<=", ">>="):
            rhs = g.ch(["1", "3", "(b & 7)", "65", "(b & 31)"])
        else:
            rhs = g.ch(["b", str(g.i()), "(b %s %d)" % (g.ch(BINOPS[:3]), g.i(1, 9)), "x", "a"])
        body.append("x %s %s" % (op, g.mlg(rhs, 0.3)))
    body.append("return x")
    return T(["a", "b"], "ii", body)


def t_aug_name_seq(g):
    body_op = g.ch(["+=", "*="])
    body = ["y = x", "x %s %s" % (body_op, g.ch(["y", "x", "x[:1]", "x[1:]", "x[:0]", "[9]", "'z'"]) if body_op == "+=" else g.ch(["2", "n", "0", "1"])),
            "return (x, y, %s)" % g.ch(["x is y", "len(x)", "x == y"])]
    return T(["x", "n"], "qk", body)


def t_aug_attr_order(g):
    op = g.ch(["+=", "-=", "*=", "|=", "//="])
    attr = g.ch(["p", "q", "missing"])
    body = ["o = _LA(p=a, q=%s)" % g.ch(["b", "[b]", "a"]),
            "%s.%s %s %s" % (g.lg("o"), attr, op, g.lg(g.ch(["b", "a + b", "o.p", "[1]"])))]
    if g.coin():
        body.append("o.p = o.q = %s" % g.lg("b"))
    body.append("return o")
    return T(["a", "b"], "ij", body)


def t_aug_subscript_order(g):
    cont = g.ch(["list(x)", "dict(enumerate(x))", "{'k': list(x)}"])
    if "'k'" in cont:
        idx, op = "'k'", g.ch(["+=", "*="])
        val = g.ch(["[v]", "x", "c['k']"]) if op == "+=" else g.ch(["i", "2"])
    else:
        idx, op = g.ch(["i", "i + 1", "-i", "0"]), g.ch(["+=", "-=", "*=", "%=", "//=", "<<="])
        val = g.ch(["v", "c[0]", "i", "c[i]"])
    body = ["c = _LC(%s, 'c')" % cont, "%s[%s] %s %s" % (g.lg("c"), g.lg(idx), op, g.lg(val))]
    if g.coin(0.4):
        body.append("c[%s][%s] %s v" % (idx, g.lg("0"), g.ch(["+=", "*="])))
    body.append("return c.data")
    return T(["x", "i", "v"], "mkj", body)


def t_aug_nested_subscript(g):
    body = ["m = [_LC(list(x), 'r0'), _LC(list(x)[::-1], 'r1')]", "n = _LC(m, 'm')",
            "n[%s][%s] %s %s" % (g.lg(g.ch(["i % 2", "0", "1", "i"])), g.lg(g.ch(["j", "-1", "i"])), g.ch(["+=", "*=", "-="]), g.lg("n[0][0]")),
            "return [r.data for r in m]"]
    return T(["x", "i", "j"], "mkk", body)


def t_aug_slice(g):
    sl = "%s:%s" % (g.ch(["", "i", "1", "-2"]), g.ch(["", "j", "-1", "3"]))
    if g.coin(0.3):
        sl += ":" + g.ch(["2", "-1", "k"])
    form = g.i(0, 3)
    body = ["y = list(x)"]
    if form == 0:
        body.append("y[%s] = %s" % (sl, g.ch(["[7, 8]", "'ab'", "[]", "y", "(k,)", "k"])))
    elif form == 1:
        body.append("y[%s] += %s" % (sl, g.ch(["[7]", "[k]", "()"])))
    elif form == 2:
        body.append("del y[%s]" % sl)
    else:
        body.append("y[%s] *= %s" % (sl, g.ch(["2", "0", "k"])))
    body.append("return (y, x[%s])" % sl)
    return T(["x", "i", "j", "k"], "mkkk", body)


# --------------------------------------------------------------------------
# templates: lambdas / closures


def t_lambda_default(g):
    k0, k1 = g.i(), g.i()
    body = ["k = %d" % k0,
            "f = lambda x, y=k %s %d, z=%s: (x, y, z)" % (g.ch(BINOPS[:3]), g.i(1, 5), g.lg(g.ch(["a", "k", "[k]"]))),
            "k = %d" % k1, "_log('after', k)"]
    calls = g.shuf(["f(a)", "f(a, b)", "f(b, z=a)", "f(*[a, b, k])", "f(x=b)", "f(a, **{'y': b})"])[:g.i(2, 4)]
    body.append("return (%s,)" % ", ".join(calls))
    return T(["a", "b"], "js", body)


def t_lambda_loop_default(g):
    n = g.i(2, 4)
    form = g.i(0, 2)
    if form == 0:
        body = ["fs = [lambda v, i=i: v %s i for i in range(%d)]" % (g.ch(BINOPS[:3]), n)]
    elif form == 1:
        body = ["fs = []", "for i in range(%d):" % n, "    fs.append(lambda v, i=%s, j=[]: (v, i, j.append(v), len(j)))" % g.lg("i * %d" % g.i(1, 4)), "i = %d" % g.i()]
    else:
        body = ["fs = []", "for i in range(%d):" % n, "    fs.append(lambda v: v %s i)" % g.ch(BINOPS[:3]), "i = a"]
    body.append("return [f(a) for f in fs] + [fs[0](%d)]" % g.i())
    return T(["a"], "j", body)


def t_lambda_closure(g):
    body = ["acc = []", "def mk(n, s=%s):" % g.lg("a"),
            "    return lambda x, *r, **kw: (acc.append(x), n %s x %s s, r, sorted(kw.items()))" % (g.ch(BINOPS[:3]), g.ch(BINOPS[:3])),
            "g1 = mk(%d)" % g.i(), "g2 = mk(b, %d)" % g.i(),
            "return (g1(a), g2(b, a, %s=1), g1(*(1, 2)), acc)" % g.ch(["z", "k", "x2"])]
    return T(["a", "b"], "jj", body)


def t_nonlocal_counter(g):
    body = ["total = %s" % g.ch(["0", "a"]), "def bump(k=1):", "    nonlocal total", "    total %s k" % g.ch(["+=", "-=", "*="]),
            "    return total", "r = [bump(), bump(b), bump(k=%d)]" % g.i(), "return (r, total)"]
    return T(["a", "b"], "jj", body)


def t_global_update(g, ):
    nm = "_G_%s" % g.fn
    pre = ["%s = %d" % (nm, g.i())]
    body = ["global %s" % nm, "old = %s" % nm, "%s = old %s a" % (nm, g.ch(BINOPS[:3])),
            "def rd():", "    return %s" % nm, "r = (old, rd())", "%s = %d" % (nm, pre and g.i()), "return r + (rd(),)"]
    return T(["a"], "j", body, pre=pre)


# --------------------------------------------------------------------------
# templates: builtins


def t_builtins_num(g):
    exprs = ["abs(a)", "min(a, b)", "max(a, b, %d)" % g.i(), "min(a, b, key=lambda v: -v)", "max([a, b], default=None)",
             "max([], default=%d)" % g.i(), "divmod(a, b)", "int(a)", "bool(a)", "sum([a, b])", "sum([a, b], %d)" % g.i(),
             "abs(a - b)", "int(str(a))", "divmod(-a, b)", "min(x)", "max(x)", "sum(x)", "len(x)", "sum(x, a)", "min(x, default=b)",
             "int(a) if isinstance(a, float) else a", "round(a)", "pow(a, 2, %d)" % g.i(2, 9), "pow(a, %d)" % g.i(0, 3)]
    pick = g.shuf(exprs)[:g.i(3, 6)]
    body = ["out = []"] + ["out.append(%s)" % g.mlg(e, 0.3) for e in pick] + ["return out"]
    return T(["a", "b", "x"], "nnl", body)


def t_builtins_iter(g):
    exprs = ["sorted(x)", "sorted(x, reverse=True)", "sorted(x, key=lambda v: (v %% %d, v))" % g.i(2, 4), "list(reversed(x))",
             "list(enumerate(x, %d))" % g.i(), "list(zip(x, y))", "list(zip(x, y, x))", "list(zip(x, y, strict=True))",
             "list(range(len(x)))", "list(range(%d, %d, %d))" % (g.i(), g.i(), g.ch([-3, -1, 1, 2, 0])), "list(map(lambda v: v * %d, x))" % g.i(),
             "list(map(lambda u, v: (u, v), x, y))", "list(filter(None, x))", "list(filter(lambda v: v %% 2, x))" , "any(x)", "all(x)",
             "tuple(reversed(y))", "list(zip(*[x, y]))", "dict(zip(y, x))", "list(map(str, x))", "len(y)", "sorted(y)", "''.join(reversed(y))"]
    pick = g.shuf(exprs)[:g.i(3, 6)]
    body = ["out = []"] + ["out.append(%s)" % e for e in pick] + ["return out"]
    return T(["x", "y"], "ls", body)


def t_any_all_shortcircuit(g):
    fn = g.ch(["any", "all"])
    body = ["r1 = %s(%s for v in x)" % (fn, g.lg("v %s %d" % (g.ch(CMPOPS), g.i()))),
            "r2 = %s([%s for v in x])" % (g.ch(["any", "all"]), g.lg("v")),
            "it = iter(x)", "r3 = %s(it)" % fn, "return (r1, r2, r3, list(it))"]
    return T(["x"], "l", body)


def t_builtins_type(g):
    tys = g.ch(["int", "(int, str)", "(list, tuple)", "bool", "float", "(str, bytes)", "object", "(int, float)", "type(None)"])
    exprs = ["isinstance(a, %s)" % tys, "repr(a)", "str(a)", "repr([a, b])", "str((a,))", "int(b)", "bool(b)", "int(b, %d)" % g.ch([2, 8, 10, 16, 0]),
             "str(b).strip()", "repr(str(a))", "type(a).__name__", "isinstance(b, %s)" % tys, "len(b)", "float(a)", "list(b)", "tuple(b)",
             "str(a) + str(b)", "bool(a) + bool(b)", "int(bool(a))", "repr({a: b})", "isinstance(a, int) and not isinstance(a, bool)"]
    pick = g.shuf(exprs)[:g.i(3, 6)]
    body = ["return (%s,)" % ", ".join(pick)]
    return T(["a", "b"], "ns", body)


# --------------------------------------------------------------------------
# templates: comprehensions


def _comp_clauses(g, two=None):
    two = g.coin(0.5) if two is None else two
    cl = "for u in %s" % g.mlg("x", 0.4)
    if g.coin(0.5):
        cl += " if %s" % g.mlg("u %s %d" % (g.ch(CMPOPS), g.i(0, 5)), 0.4)
    if two:
        cl += " for w in %s" % g.ch(["y", "range(u)" if False else "y[:2]", g.lg("y"), "range(%d)" % g.i(0, 3)])
        if g.coin(0.5):
            cl += " if %s" % g.ch(["w != u", "w", "u < w", "(u + w) % 2"])
    elt = g.ch(["u %s w" % g.ch(BINOPS[:3]), "(u, w)", "w"]) if two else g.ch(["u", "u * %d" % g.i(), "(u, u)", "u %% %d" % g.i(1, 4)])
    return elt, cl


def t_comp_list(g):
    elt, cl = _comp_clauses(g)
    body = ["u = w = 'outer'", "r = [%s %s]" % (g.mlg(elt, 0.3), cl), "return (r, u, w)"]
    return T(["x", "y"], "ll", body)


def t_comp_set(g):
    elt, cl = _comp_clauses(g)
    body = ["r = {%s %s}" % (g.mlg(elt, 0.3), cl), "return (r, len(r), sorted(r, key=repr))"]
    return T(["x", "y"], "ll", body)


def t_comp_dict(g):
    elt, cl = _comp_clauses(g)
    body = ["r = {%s: %s %s}" % (g.lg(elt), g.lg(g.ch(["u", "[u]", "len(x)", "-u"])), cl), "return (r, list(r))"]
    return T(["x", "y"], "ll", body)


def t_comp_genexpr(g):
    elt, cl = _comp_clauses(g)
    body = ["ge = (%s %s)" % (g.lg(elt), cl), "_log('made', None)", "first = next(ge, 'none')", "_log('mid', first)",
            "rest = " + g.ch(["list(ge)", "tuple(ge)", "sorted(ge, key=repr)", "len(list(ge))", "sum(1 for _ in ge)"])]
    body.append("return (first, rest, next(ge, 'done'))")
    return T(["x", "y"], "ll", body)


def t_comp_nested(g):
    body = ["r = [[%s for c in row%s] for row in x%s]" % (g.ch(["c * %d" % g.i(), "(c, len(row))", g.lg("c")]),
                                                             g.ch(["", " if c", " if c != k"]), g.ch(["", " if row", " if len(row) > k"])),
            "flat = [c for row in x for c in row]", "t = {i: [c for c in row if c > i] for i, row in enumerate(x)}",
            "return (r, flat, t, sum(c for row in x for c in row if c %% %d))" % g.i(1, 3)]
    ex = ["([[1, 2], [3], []], 1)", "([(0, 5, 2), [7, 7]], 0)", "([[1], 2], 1)", "(['ab', 'c'], 0)"]
    return T(["x", "k"], "Mk", body, extra=ex)


def t_comp_scope(g):
    body = ["i = 'keep'", "n = 'outer-n'", "fs = [lambda: i for i in range(%d)]" % g.i(1, 3), "gs = [lambda i=i: i for i in x]",
            "class K:", "    n = %d" % g.i(1, 4), "    sq = [v * v for v in range(n)]", "    tot = %s" % g.ch(["sum(sq)", "len(sq)", "sq[-1]"]),
            "    vis = %s" % g.ch(["[n for v in range(2)]", "[(v, n) for v in range(n)]", "{v: n for v in range(2)}", "list(n for v in range(1))", "(lambda: n)()", "[w for v in range(n) for w in range(n)]" if False else "[n for v in sq]"]),
            "return ([f() for f in fs], [f() for f in gs], i, K.sq, K.tot, K.vis)"]
    return T(["x"], "l", body)


def t_walrus(g):
    body = ["out = []", "if (n := len(x)) > %d:" % g.i(0, 3), "    out.append(n)",
            "r = [y for v in x if (y := v %s %d) %s %d]" % (g.ch(BINOPS[:3]), g.i(1, 4), g.ch(CMPOPS), g.i()),
            "while (n := n - 1) > 0:", "    out.append(n)", "return (out, r, n, y if r else None)"]
    return T(["x"], "l", body)

# --------------------------------------------------------------------------
# templates: classes / decorators


def t_class_nested(g):
    c = "K_" + g.fn
    pre = ["class %s:" % c, "    base = %d" % g.i(), "    items = [%d, %d]" % (g.i(), g.i()),
           "    class Inner:", "        scale = %d" % g.i(1, 5), "        def __init__(self, v):", "            self.v = v",
           "        def get(self):", "            return self.v * self.scale %s %s.base" % (g.ch(BINOPS[:3]), c),
           "        def __repr__(self):", "            return 'Inner(%r)' % (self.v,)",
           "        class Deep:", "            tag = %s" % g.ch(["'d'", "('t', 1)", "None"]),
           "    def make(self, v):", "        return self.Inner(v)",
           "    @classmethod", "    def cm(cls, v):", "        return (cls.__name__, cls.base %s v)" % g.ch(BINOPS[:3]),
           "    @staticmethod", "    def sm(v=%d):" % g.i(), "        return v * 2",
           "    @property", "    def pr(self):", "        return _log('pr', self.base)",
           "    def __repr__(self):", "        return '%s()'" % c]
    body = ["o = %s()" % c, "i = o.make(a)", "o.base = b", "r = [i.get(), o.pr, %s.base, o.cm(a), %s.sm(), o.sm(b), %s.Inner.Deep.tag, i]" % (c, c, c),
            "%s.Inner.scale %s 1" % (c, g.ch(["+=", "-="])), "r.append(i.get())", "%s.Inner.scale = %d" % (c, g.i(1, 5)),
            "o.items.append(a)", "r.append(len(%s.items))" % c, "del %s.items[2:]" % c, "return r"]
    return T(["a", "b"], "jj", body, pre=pre)


def t_class_body_order(g):
    body = ["class C(%s):" % g.ch(["", "object", "dict", "list"]),
            "    x = %s" % g.lg("a"), "    y = %s" % g.lg("x %s %d" % (g.ch(BINOPS[:3]), g.i())),
            "    if y %s %d:" % (g.ch(CMPOPS), g.i()), "        z = %s" % g.lg("'big'"), "    else:", "        z = %s" % g.lg("'small'"),
            "    def m(self, k=y):", "        return (k, getattr(self, 'x', 'nox'), self.z)", "    for q in range(%d):" % g.i(0, 3), "        w = _log('w', q)",
            "    del x" if g.coin(0.3) else "    x2 = x",
            "_log('done', None)", "c = C()", "return (c.m(), c.m(b), sorted(k for k in C.__dict__ if not k.startswith('__')), getattr(C, 'q', 'noq'))"]
    return T(["a", "b"], "jj", body)


def t_class_inherit_super(g):
    a_, b_ = "A_" + g.fn, "B_" + g.fn
    pre = ["class %s:" % a_, "    kind = 'A'", "    def __init__(self, v):", "        _log('A.init', v)", "        self.v = v",
           "    def f(self, k):", "        return ('A.f', self.v %s k)" % g.ch(BINOPS[:3]),
           "    def __eq__(self, o):", "        return _log('eq', type(o) is type(self) and o.v == self.v)", "    __hash__ = None",
           "    def __repr__(self):", "        return type(self).__name__ + '(%r)' % (self.v,)",
           "class %s(%s):" % (b_, a_), "    kind = 'B'", "    def __init__(self, v, w=%d):" % g.i(), "        _log('B.init', (v, w))",
           "        %s.__init__(v %s w)" % (g.ch(["super()", "super(%s, self)" % b_]), g.ch(BINOPS[:3])),
           "        self.w = w", "    def f(self, k):", "        return ('B.f',) + super().f(k %s self.w)" % g.ch(BINOPS[:3])]
    body = ["x, y = %s(a), %s(a, b)" % (a_, b_), "return (x.f(b), y.f(b), x == y, y == %s(a, b), y.kind, isinstance(y, %s), %s.__mro__[1].__name__, y)" % (b_, a_, b_)]
    return T(["a", "b"], "jj", body, pre=pre)


def t_decorator_order(g):
    d = "dec_" + g.fn
    pre = ["def %s(tag, k=0):" % d, "    _log('factory', tag)", "    def deco(fn):", "        _log('apply', tag)",
           "        def wrapper(*a, **kw):", "            _log('enter', tag)", "            r = fn(*a, **kw)", "            _log('leave', tag)",
           "            return (tag, r) if k == 0 else r %s k" % g.ch(BINOPS[:3]), "        return wrapper", "    return deco"]
    n = g.i(2, 3)
    body = ["@%s(%s)" % (d, g.lg("'d%d'" % i)) if i % 2 == 0 else "@%s('d%d', k=%s)" % (d, i, g.lg("b")) for i in range(n)]
    body += ["def inner(x, y=%s):" % g.lg(str(g.i())), "    return _log('inner', x %s y)" % g.ch(BINOPS[:3]), "_log('defined', None)",
             "return (inner(a), inner(a, y=b))"]
    return T(["a", "b"], "jj", body, pre=pre)


def t_decorator_class(g):
    d = "cdec_" + g.fn
    pre = ["def %s(cls):" % d, "    _log('cdec', cls.__name__)", "    cls.extra = %d" % g.i(), "    return cls",
           "def reg_%s(store):" % g.fn, "    def r(fn):", "        store.append(fn.__name__)", "        return fn", "    return r"]
    body = ["names = []", "@%s" % d, "class P:", "    @reg_%s(names)" % g.fn, "    def one(self):", "        return a",
            "    @staticmethod", "    @reg_%s(names)" % g.fn, "    def two(v=%d):" % g.i(), "        return v",
            "    @property", "    def three(self):", "        return self.one() %s self.extra" % g.ch(BINOPS[:3]),
            "p = P()", "return (names, p.one(), P.two(), p.three, P.extra)"]
    return T(["a"], "j", body, pre=pre)


# --------------------------------------------------------------------------
# templates: try / finally / except / loops


def t_finally_return(g):
    form = g.i(0, 3)
    if form == 0:
        body = ["try:", "    return %s" % g.lg("a"), "finally:", "    %s" % g.ch(["return " + g.lg("b"), g.lg("'fin'"), "a = b"])]
    elif form == 1:
        body = ["try:", "    %s" % g.lg("a // b"), "    return 'ok'", "except ZeroDivisionError:", "    return %s" % g.lg("'exc'"),
                "finally:", "    %s" % g.ch([g.lg("'fin'"), "return " + g.lg("'fin'")])]
    elif form == 2:
        body = ["def h():", "    try:", "        raise ValueError(a)", "    finally:", "        %s" % g.ch(["return b", "_log('f', b)"]),
                "try:", "    return ('r', h())", "except ValueError as e:", "    return ('caught', e.args)"]
    else:
        body = ["x = []", "try:", "    try:", "        x.append(a // b)", "        return x", "    finally:", "        x.append('f1')",
                "        %s" % g.ch(["pass", "return x + ['r']", "x.append(b // a)"]), "finally:", "    x.append('f2')"]
    return T(["a", "b"], "jj", body)


def t_finally_loop(g):
    kw1, kw2 = g.ch(["break", "continue", "pass"]), g.ch(["break", "continue", "pass", "return out"])
    body = ["out = []", "for v in x:", "    try:", "        if v %s %d:" % (g.ch(CMPOPS), g.i(0, 4)), "            %s" % kw1,
            "        out.append(%s)" % g.ch(["v", "10 // v", "x[v]"]), "    finally:", "        out.append('f')",
            "        if v %s k:" % g.ch(CMPOPS), "            %s" % kw2, "    out.append('e')", "else:", "    out.append('else')", "return out"]
    return T(["x", "k"], "lk", body)


def t_while_else(g):
    body = ["n, out, steps = a, [], 0", "while n %s b:" % g.ch(["<", "!=", ">"]), "    n %s %d" % (g.ch(["+=", "-="]), g.i(1, 3)), "    steps += 1", "    if len(out) > 6 or steps > 25:", "        break",
            "    if n %% %d == 0:" % g.i(2, 4), "        continue", "    out.append(n)", "else:", "    out.append('else')", "return out"]
    return T(["a", "b"], "jj", body)


def t_try_except_else(g):
    excs = ["ValueError", "KeyError", "IndexError", "TypeError", "ZeroDivisionError", "AttributeError"]
    e1, e2 = g.ch(excs), g.ch(excs)
    ops = ["x[k]", "10 // k", "int(x)", "x.nope", "{}[k]", "x + k", "len(k)", "[1, 2][k]", "raise %s(k, 'm')" % e1]
    body = ["try:", "    try:"] + ["        " + (o if o.startswith("raise") else "r = " + g.lg(o)) for o in g.shuf(ops)[:2]] + [
            "    except %s as e:" % g.ch([e1, "(%s, %s)" % (e1, e2)]), "        _log('h1', e)", "        %s" % g.ch(["raise", "r = 'h1'", "raise %s('re', k) from e" % e2, "raise %s(k)" % e2]),
            "    else:", "        _log('else', r)", "    finally:", "        _log('fin', None)",
            "except (%s, LookupError%s) as e2:" % (e2, g.ch(["", ", TypeError"])), "    return ('outer', type(e2).__name__, e2.args, type(e2.__cause__).__name__, type(e2.__context__).__name__)",
            "return r"]
    return T(["x", "k"], "qk", body)


def t_except_var_unbound(g):
    body = ["e = 'before'", "try:", "    %s" % g.ch(["x[k]", "10 // k", "int(x)"]), "except %s as e:" % g.ch(["Exception", "(IndexError, ZeroDivisionError)", "LookupError"]),
            "    _log('in', type(e).__name__)", "return e"]
    return T(["x", "k"], "qk", body)


def t_unbound_local(g):
    form = g.i(0, 2)
    if form == 0:
        body = ["if a %s %d:" % (g.ch(CMPOPS), g.i()), "    v = a", "return %s" % g.lg("v")]
    elif form == 1:
        body = ["v = a", "if b:", "    del v", "return v"]
    else:
        body = ["for v in range(a):", "    pass", "def inner():", "    return v", "return inner()"]
    return T(["a", "b"], "jb", body)


def t_raise_assert(g):
    body = ["assert %s, %s" % (g.ch(["a", "a != b", "isinstance(a, int)"]), g.ch(["'msg'", "(a, b)", g.lg("b")])),
            "if b %s %d:" % (g.ch(CMPOPS), g.i()), "    raise %s" % g.ch(["ValueError", "KeyError(a)", "IndexError(a, b)", "StopIteration(b)", "RuntimeError()", "OSError(2, 'x')", "KeyboardInterrupt"]),
            "return 'fine'"]
    return T(["a", "b"], "jj", body)


def t_with_stmt(g):
    body = ["out = []", "for v in x:", "    with _CM('m1', %s, v) as p, _CM('m2', val=%d) as q:" % (g.ch(["True", "False", "v > 1"]), g.i()),
            "        out.append((p, q))", "        if v %s k:" % g.ch(CMPOPS), "            %s" % g.ch(["break", "continue", "return out", "raise KeyError(v)", "10 // 0"]),
            "        out.append('body')", "    out.append('after')", "return out"]
    return T(["x", "k"], "lk", body)


def t_generator_func(g):
    body = ["def gen(n):", "    try:", "        for i in range(n):", "            r = yield %s" % g.lg("i * %d" % g.i(1, 4)), "            if r:", "                _log('sent', r)",
            "        return %s" % g.ch(["'ret'", "n", "None"]), "    finally:", "        _log('gfin', None)",
            "def outer(n):", "    v = yield from gen(n)", "    yield ('v', v)",
            "it = outer(a)", "out = [next(it, 'end')]", "out.append(it.send(%s) if a > 1 else None)" % g.ch(["'s'", "7", "0"]),
            "%s" % g.ch(["out.extend(it)", "it.close()", "out.append(next(it, 'end'))"]), "out.append(list(gen(b)))", "return out"]
    return T(["a", "b"], "kk", body)

# --------------------------------------------------------------------------
# templates: comparisons / boolean / formatting / slicing / calls / data


def t_chained_compare(g):
    n = g.i(3, 4)
    names = g.shuf(["a", "b", "c", str(g.i()), "a + 1"])[:n]
    ops = [g.ch(CMPOPS + ["in", "not in", "is not"] if False else CMPOPS) for _ in range(n - 1)]
    e = g.lg(names[0])
    for o, nm in zip(ops, names[1:]):
        e += " %s %s" % (o, g.lg(nm))
    body = ["r1 = " + e, "r2 = %s %s b %s c" % (g.ch(["a", "0"]), g.ch(CMPOPS), g.ch(CMPOPS)),
            "r3 = a %s b %s (a, b, c) %s [a]" % (g.ch(["==", "!=", "<"]), g.ch(["in", "not in"]), g.ch(["!=", "=="])),
            "return (r1, r2, r3, not a < b, a < b < c < %d)" % g.i()]
    return T(["a", "b", "c"], "jjn", body)


def t_chained_compare_obj(g):
    n = g.i(3, 4)
    vs = ["_LV(%s, '%s')" % (g.ch(["a", "b", str(g.i())]), "pqrs"[i]) for i in range(n)]
    e = vs[0]
    for v in vs[1:]:
        e += " %s %s" % (g.ch(CMPOPS), v)
    body = ["r = " + e, "s = %s %s %s" % (g.ch(["a", "_LV(a, 'x')"]), g.ch(CMPOPS), "_LV(b, 'y')"), "return (r, s)"]
    return T(["a", "b"], "jj", body)


def t_bool_shortcircuit(g):
    def bx(d):
        if d >= 2 or g.coin(0.25):
            t = g.lg(g.ch(["a", "b", "c", str(g.i(0, 2)), "''", "[]", "None"]))
            return "not " + t if g.coin(0.15) else t
        return "(%s %s %s)" % (bx(d + 1), g.ch(["and", "or"]), bx(d + 1))
    body = ["r = " + bx(0), "s = _LV(a, 'p') %s _LV(b, 'q') %s _LV(c, 'r')" % (g.ch(["and", "or"]), g.ch(["and", "or"])),
            "if %s %s not %s:" % (g.lg("a"), g.ch(["and", "or"]), g.lg("b")), "    _log('then', None)",
            "return (r, s)"]
    return T(["a", "b", "c"], "bbb", body)


def t_fstring(g):
    specs_i = ["", ":5", ":<6", ":^7", ":+", ":05d", ":x", ":#b", ":,", "!r", "!s:>6", ":>{w}", ":{w}d", ":_"]
    specs_s = ["", "!r", ":>8", ":<{w}", ":.2", "!a", ":*^9", "!r:>10"]
    specs_f = ["", ":.2f", ":8.3f", ":e", ":g", ":+.1f", ":%", ":010.2f"]
    parts = []
    for _ in range(g.i(2, 5)):
        k = g.ch("isf")
        if k == "i":
            parts.append("{%s%s}" % (g.ch(["a", "a + 1", "a * w", "-a"]), g.ch(specs_i)))
        elif k == "s":
            parts.append("{%s%s}" % (g.ch(["s", "s.upper()", "s[::-1]", "s * 2"]), g.ch(specs_s)))
        else:
            parts.append("{%s%s}" % (g.ch(["f", "f / 3", "a / 7", "f * a"]), g.ch(specs_f)))
    sep = g.ch(["|", " ", ", ", "{{}}", "\\n"])
    body = ["r = f'%s'" % sep.join(parts), "return (r, f'{a=} {s!r:>7}', f'{%s}')" % g.lg("a")]
    return T(["a", "s", "f", "w"], "jsnk", body)


def t_percent_format(g):
    ci = ["%d", "%5d", "%-5d|", "%05d", "%x", "%o", "%+d", "%i", "%c", "%#x", "% d"]
    cs = ["%s", "%r", "%10s", "%-6s|", "%.3s", "%a"]
    cf = ["%.2f", "%8.3f", "%e", "%5.1f", "%g", "%+.0f", "%010.3f"]
    pick, vals = [], []
    for _ in range(g.i(2, 4)):
        r = g.rng.random()
        if r < 0.1:
            pick.append("%%")
        elif r < 0.4:
            pick.append(g.ch(ci)); vals.append(g.ch(["a", "a + 1", "a * 7", "abs(a) + 65", "s" if g.coin(0.1) else "a"]))
        elif r < 0.7:
            pick.append(g.ch(cs)); vals.append(g.ch(["a", "s", "f", "(a,)", "None", "[s]", "s * 2"]))
        else:
            pick.append(g.ch(cf)); vals.append(g.ch(["f", "a", "f / 3", "a / 7", "f * 1e10"]))
    if g.coin(0.08):
        vals.append("a")
    fmt = g.ch([" ", "|", ","]).join(pick)
    body = ["r = '%s' %% (%s)" % (fmt, "".join(v + ", " for v in vals)), "d = '%%(x)s-%%(y)%s' %% {'x': s, 'y': a}" % g.ch(["d", "r", "5s", "x"]),
            "return (r, d, '%%s' %% %s, '%%s %%s' %% (a, s))" % g.ch(["a", "s", "[a]", "(s,)", "f"])]
    return T(["a", "s", "f"], "jsn", body)


def t_str_format_method(g):
    body = ["return ('{} {}'.format(a, s), '{1}{0}{1}'.format(a, s), '{x:>%d}|{y!r}'.format(x=a, y=s), '{0[0]}'.format(s or 'z'), '{:%s}'.format(a), str.format('{:^7}', s))"
            % (g.i(1, 8), g.ch(["d", "5", "x", "+", "e", "<4"]))]
    return T(["a", "s"], "js", body)


def t_slicing(g):
    def sl():
        p = [g.ch(["", "i", "j", str(g.i(-4, 4)), "None"]) for _ in range(g.ch([2, 2, 3]))]
        return ":".join(p)
    body = ["return (x[%s], x[%s], x[%s], x[i], x[-1:], x[j:i:%s])" % (sl(), sl(), sl(), g.ch(["-1", "2", "k", "-2"]))]
    return T(["x", "i", "j", "k"], "qkkk", body)


def t_slice_obj(g):
    body = ["s = slice(%s, %s, %s)" % (g.ch(["i", "None"]), g.ch(["j", "None"]), g.ch(["None", "k", "-1"])),
            "c = _LC(list(x), 'c')", "r = c[%s]" % g.ch(["s", "i:j", "i:j:k", "::k", "_LV(i, 'ix'):j", "(i, j)", "..."]),
            "return (r, s.indices(len(x)))"]
    return T(["x", "i", "j", "k"], "mkkk", body)


def t_str_ops(g):
    exprs = ["s + t", "s * k", "k * t", "s in t", "t.split(s or None)", "s.join(t)", "t.replace(s, 'Q', k)", "t.find(s)", "t.index(s)",
             "t.upper().lower() == t", "s < t", "t.partition(s or ',')", "t[k]", "t.count(s)", "t.startswith((s, 'H'))", "s.center(k, '*')",
             "t.encode('utf-8')", "t.zfill(k)", "sorted(t)", "t.title()", "ord(t[0])", "chr(k + 65)", "'%s' % t[k:]", "t.strip(s)", "len(t.encode())"]
    pick = g.shuf(exprs)[:g.i(3, 6)]
    body = ["out = []"] + ["out.append(%s)" % e for e in pick] + ["return out"]
    return T(["s", "t", "k"], "ssk", body)


def t_int_arith(g):
    def ex(d):
        if d >= 2 or g.coin(0.3):
            return g.ch(["a", "b", str(g.i()), "c"])
        op = g.ch(BINOPS + ["**", "<<", ">>", "/"])
        r = ex(d + 1)
        if op == "**":
            r = g.ch(["2", "3", "0"])
        elif op in ("<<", ">>"):
            r = g.ch(["1", "5", "(c & 15)", "c"])
        return "(%s %s %s)" % (ex(d + 1), op, r)
    body = ["return (%s, %s, %s, -a // %s, a %% -%s, ~a, divmod(a, c))" % (ex(0), ex(0), ex(1), g.ch(["b", "3", "c"]), g.ch(["b", "7", "c"]))]
    return T(["a", "b", "c"], "iij", body)


def t_float_arith(g):
    body = ["r = a %s b" % g.ch(["/", "//", "%", "*", "+", "-"]), "return (r, a ** 2, a ** 0.5 if a >= 0 else 0, a %s %s, int(a) if a == a else a, round(a, %d), a == b, a < b, abs(a), -a, a // 1)"
            % (g.ch(["/", "*", "//", "%"]), g.ch(["2", "0.5", "b", "3"]), g.i(0, 2))]
    return T(["a", "b"], "nn", body)


def t_args_default_kw(g):
    body = ["def h(p, q=%s, *r, k=%s, **kw):" % (g.lg(str(g.i())), g.lg("a")), "    return (p, q, r, k, sorted(kw.items()))",
            "def acc(v, store=[]):", "    store.append(v)", "    return list(store)",
            "_log('defd', None)"]
    calls = g.shuf(["h(a)", "h(a, b)", "h(a, b, 3, 4)", "h(a, k=b)", "h(p=a, q=b)", "h(a, z=b, y=1)", "h(*x)", "h(*x, k=a)", "h(a, *x, **{'k': b})",
                    "h(a, **{'m': 1, 'k': 2})", "h(%s, *%s, k=%s)" % (g.lg("a"), g.lg("x"), g.lg("b")), "h(a, b, *x, w=%s, **%s)" % (g.lg("1"), g.lg("{'u': 2}"))])[:g.i(3, 5)]
    body.append("return (%s, acc(a), acc(b))" % ", ".join(calls))
    return T(["a", "b", "x"], "jjm", body)


def t_star_call_order(g):
    body = ["def h(*p, **kw):", "    return (p, list(kw.items()))",
            "r1 = h(%s)" % (", ".join(g.shuf([g.lg("a"), "*" + g.lg("x"), g.lg("b")]) + g.shuf(["k=" + g.lg("a"), "**" + g.lg("d")])) if g.coin(0.6) else
                        ", ".join([g.lg("a"), "k=" + g.lg("b"), "*" + g.lg("x"), "**" + g.lg("d")])),
            "r2 = [%s]" % ", ".join(g.shuf([g.lg("a"), "*" + g.lg("x"), "*x", g.lg("b")])),
            "r3 = {%s}" % ", ".join(g.shuf(["**" + g.lg("d"), "'k': " + g.lg("b"), "**{'z': a}", g.lg("'m'") + ": " + g.lg("a")])),
            "r4 = (*x, %s, *%s)" % (g.lg("a"), g.ch(["x", "'ab'", "range(2)", "d"])),
            "return (r1, r2, r3, r4)"]
    return T(["a", "b", "x", "d"], "jjtD", body)


def t_kwonly_inner(g):
    body = ["def h(p, /, q, *, r=%d, s):" % g.i(), "    return (p, q, r, s)",
            "return (h(a, b, s=1), h(a, q=b, s=2, r=3), h(a, b, **{'s': b}), (lambda *, k=a: k)(), (lambda *v, k: (v, k))(a, b, k=1))"]
    return T(["a", "b"], "jj", body)


def t_dict_ops(g):
    stmts = ["out.append(d[k])", "out.append(d.get(k, %d))" % g.i(), "out.append(d.setdefault(k, []))", "out.append(d.pop(k))", "out.append(d.pop(k, None))",
             "d[k] = len(d)", "out.append(k in d)", "out.append(list(d.items()))", "d.update({k: 1}, z=2)", "out.append(d.popitem())", "del d[k]",
             "out.append(list(reversed(d)))", "out.append({**d, k: 0})", "out.append(d | {'n': k})", "out.append(dict.fromkeys(d, k))", "out.append(sorted(d, key=repr))",
             "for kk, vv in d.items():\n        out.append((kk, vv))", "out.append(len(d))", "out.append(next(iter(d), None))"]
    body = ["d = dict(d)", "out = []"] + g.shuf(stmts)[:g.i(3, 6)] + ["return (out, d)"]
    return T(["d", "k"], "da", body, extra=["({'a': 1, 'b': 2}, 'a')", "({'a': 1}, 'zz')", "({1: 2}, [1])", "({}, 'a')"])


def t_list_ops(g):
    stmts = ["y.append(k)", "y.insert(k, 'i')", "out.append(y.pop())", "out.append(y.pop(k))", "y.extend(x)", "y.remove(k)", "out.append(y.index(k))",
             "y.sort()", "y.sort(key=lambda v: -v)", "y.reverse()", "out.append(y.count(k))", "out.append(y * 2)", "out.append(y + [k])", "out.append(k in y)",
             "y[k] = 'set'", "del y[k]", "out.append(y == x)", "out.append(y < [k])", "out.append(y.copy())", "y.clear()"]
    body = ["y = list(x)", "out = []"] + g.shuf(stmts)[:g.i(3, 6)] + ["return (out, y, x)"]
    return T(["x", "k"], "lk", body)


def t_set_ops(g):
    body = ["s, t = set(x), set(y)", "r = [s %s t, s %s t, s %s t, %s in s, s.isdisjoint(t), len(s), s == t]" % (g.ch("&|-^"), g.ch("&|-^"), g.ch(["<=", "<", ">=", "=="]), g.ch(["k", "1"])),
            "s.%s(k)" % g.ch(["add", "discard", "remove"]), "s %s t" % g.ch(["|=", "&=", "-=", "^="]), "return (r, s, frozenset(t), {*x, k})"]
    return T(["x", "y", "k"], "llk", body)


def t_del_stmt(g):
    body = ["c = _LC(list(x), 'c')", "o = _LA(p=1, q=2)", "del %s" % ", ".join(g.shuf(["c[%s]" % g.lg("i"), "o.%s" % g.ch(["p", "q", "zz"]), "c[%s]" % g.lg("0")])[:g.i(1, 3)]),
            "return (c.data, o)"]
    return T(["x", "i"], "mk", body)


def t_for_iter_mutation(g):
    body = ["y = list(x)", "out = []", "for n, v in enumerate(y):", "    out.append(v)", "    if v %s k and len(y) < 8:" % g.ch(CMPOPS),
            "        y.%s" % g.ch(["append(n)", "pop()", "insert(0, n)", "remove(v)"]), "return (out, y)"]
    return T(["x", "k"], "lk", body)


def t_range_loop(g):
    body = ["out = []", "for i in range(%s):" % g.ch(["a", "a, b", "a, b, c", "b, a, -1", "len(x)", "a, b, %d" % g.ch([2, -2, 3])]),
            "    out.append(i)", "    if len(out) > 8:", "        break", "    i += 10", "return (out, i if out else None, x[%s] if x else 0)" % g.ch(["i - 10", "0"])]
    return T(["a", "b", "c", "x"], "jjjl", body)



# --------------------------------------------------------------------------
# templates: locals initialised from literals (type inference must stay invisible)


def t_float_local_infer(g):
    x0 = g.ch(["1.5", "-8.0", "0.0", "-0.0", "1e308", "2.0", "1e-320", "3.0"])
    stmts = ["out.append(x ** %s)" % g.ch(["1000", "0.5", "-1", "2", "k", "1.5"]), "out.append(x %% %s)" % g.ch(["0.0", "-3.0", "k", "2.5"]),
             "out.append(x // %s)" % g.ch(["0.0", "-3.0", "k", "0.7"]), "out.append(x / %s)" % g.ch(["0.0", "k", "3.0", "y"]), "x *= %s" % g.ch(["10.0", "x", "1e10", "k"]),
             "out.append(int(x))", "out.append(round(x))", "out.append(round(x, 1))", "out.append(divmod(x, %s))" % g.ch(["2.0", "k", "-0.7"]), "out.append(abs(x))", "out.append(-x)",
             "out.append(x == y)", "out.append(x < k)", "y = x - y", "out.append(str(x))", "out.append(x.is_integer())", "out.append(x + k)", "out.append(x * k)", "x += 1",
             "out.append(min(x, y))", "out.append(max(x, y, k))", "out.append(bool(x))", "out.append('%.3g|%r' % (x, y))", "out.append(f'{x:.2f}{y!r}')", "out.append(x.hex())"]
    body = ["x = %s" % x0, "y = %s" % g.ch(["2.5", "0.0", "-1.0", "1e308"]), "out = []"] + guard(g.shuf(stmts)[:g.i(4, 8)]) + ["return (out, x, y)"]
    return T(["k"], "j", body, extra=["(0,)", "(3,)", "(-2,)", "(2**70,)", "(1.5,)"])


def t_int_local_infer(g):
    x0 = g.ch(["1", "7", "-5", "2**62", "4611686018427387904", "9223372036854775807", "-9223372036854775808", "0", "2147483647", "255"])
    stmts = ["x += %s" % g.ch(["1", "x", "k", "2**62"]), "x *= %s" % g.ch(["2", "x", "int(k)", "-1"]), "out.append(x << %s)" % g.ch(["1", "62", "70", "k"]),
             "out.append(x ** %s)" % g.ch(["2", "20", "(k & 7)", "-1"]), "out.append(-x)", "out.append(abs(x))", "out.append(x // %s)" % g.ch(["-1", "k", "7", "-7"]),
             "out.append(x %% %s)" % g.ch(["-1", "k", "7", "-7"]), "out.append(divmod(x, %s))" % g.ch(["-7", "k", "3"]), "out.append(x / %s)" % g.ch(["2", "k", "3"]),
             "out.append(x >> %s)" % g.ch(["1", "k", "63", "64"]), "out.append(~x)", "out.append(x & %s)" % g.ch(["k", "-1", "0xff"]), "out.append(x - y)", "y = x * y",
             "out.append(x == y)", "out.append(x < k)", "out.append(hex(x))", "out.append('%d|%x' % (x, x & 0xffff))", "out.append(f'{x:,}')", "out.append(x.bit_length())",
             "out.append(float(x))", "out.append(str(x))", "out.append(x | y)", "out.append(x ^ k)", "out.append(bool(x))", "out.append(pow(x, 3, %s))" % g.ch(["7", "k", "-5"])]
    body = ["x = %s" % x0, "y = %s" % g.ch(["3", "-1", "2**63", "1"]), "out = []"] + guard(g.shuf(stmts)[:g.i(4, 8)]) + ["return (out, x, y)"]
    return T(["k"], "j", body, extra=["(0,)", "(3,)", "(-2,)", "(2**70,)", "(64,)"])


def t_range_infer_overflow(g):
    stmts = ["out.append(i * %s)" % g.ch(["4611686018427387904", "2**62", "k", "-2**63"]), "out.append(i << %s)" % g.ch(["62", "63", "70", "k"]), "out.append(i ** %s)" % g.ch(["20", "30", "k"]),
             "out.append(-i)", "out.append(i - %s)" % g.ch(["2**63", "k", "9223372036854775807"]), "out.append(i + %s)" % g.ch(["9223372036854775807", "k", "2**63"]), "acc += i * %s" % g.ch(["2**61", "k", "3"]),
             "acc = acc * %s + i" % g.ch(["2**20", "1000003", "k"]), "out.append(i / %s)" % g.ch(["2", "k", "(i - 2)"]), "out.append(i // %s)" % g.ch(["-2", "k", "(i - 2)"]), "out.append(i %% %s)" % g.ch(["-3", "k", "(i - 1)"]),
             "out.append(divmod(-i, %s))" % g.ch(["3", "k"]), "out.append(str(i) + repr(i))", "out.append(x[i])" , "out.append(x[-i])", "out.append(x[i:i + 2])", "i += %s" % g.ch(["1", "2**63", "k"]),
             "out.append(abs(i - %d))" % g.i(0, 4), "out.append(i == k)", "out.append(i in x)", "out.append(i & -i)", "out.append('%d:%s' % (i, i))"]
    rng = g.ch(["range(%d)" % g.i(2, 5), "range(%d, %d)" % (g.i(-3, 0), g.i(1, 4)), "range(%d, %d, -1)" % (g.i(2, 5), g.i(-2, 0)), "range(len(x))", "range(k)", "range(-k, k)",
                "range(9223372036854775805, 9223372036854775809)", "range(2**63, 2**63 + 2)"])
    body = ["out = []", "acc = %s" % g.ch(["0", "1", "2**62"]), "for i in %s:" % rng] + ind(g.shuf(stmts)[:g.i(2, 5)]) + ["    if len(out) > 12:", "        break", "return (out, acc, i)"]
    return T(["x", "k"], "mk", body)


def t_str_local_infer(g):
    s0 = g.ch(["'hello'", "'aXb'", "'\\xe9\\u20ac\\U0001f600z'", "'a'", "''", "'abc def'"])
    stmts = ["out.append([ch * 2 for ch in s])", "out.append(s[k] * 2)", "out.append(s[0] + s[-1])", "out.append(s[k] < 'm')", "out.append(s[k] in 'aeiou')", "out.append(ord(s[k]))",
             "out.append(s[k].upper())", "out.append(s[k] == s[0])", "out.append(s[k] == %s)" % g.ch(["'a'", "97", "'he'"]), "out.append(s[k] + %s)" % g.ch(["'x'", "1", "s"]),
             "for ch in s:\n        out.append(ch %s)" % g.ch(["* k", "+ 'x'", "< 'b'", "in 'lo'", "* 2", ".isupper()", "== 'l'", "+ ch", "% ()" , "[0]", "> ch"]),
             "out.append({ch: n for n, ch in enumerate(s)})", "out.append(s[k:k + 2])", "out.append(s * k)", "out.append(len(s) * s[:1])", "out.append(s.find(s[k]))",
             "out.append(max(s))", "out.append(sorted(s, reverse=True)[:2])", "out.append(s[k].join(['1', '2']))", "out.append('%s|%r|%c' % (s[k], s[k], s[k]))", "out.append(f'{s[k]!r}{s[k]:>3}')",
             "out.append(s[k] is not None)", "out.append(s[k] or 'empty')", "out.append(int(s[k], 16))", "out.append(chr(ord(s[k]) + 1))", "out.append(hash(s[k]) == hash(s[k:k + 1]))",
             "out.append(isinstance(s[k], str))", "out.append(type(s[k]).__name__)", "out.append(s[k].encode('utf-8'))"]
    body = ["s = %s" % s0, "out = []"] + guard(g.shuf(stmts)[:g.i(4, 7)]) + ["return out"]
    return T(["k"], "k", body)


def t_bytes_local(g):
    b0 = g.ch(["b'hello'", "b'\\x00\\xff\\x80'", "b'a'", "b''", "bytearray(b'abc')"])
    stmts = ["out.append(b[k])", "out.append(b[k:k + 2])", "out.append([c for c in b])", "out.append(b[k] + 1)", "out.append(b[k] * 300)", "out.append(b[0] == %s)" % g.ch(["104", "b'h'", "'h'"]),
             "out.append(b[-1] - 256)", "out.append(b * k)", "out.append(b + b'x')", "out.append(b.decode('latin-1'))", "out.append(bytes(reversed(b)))", "out.append(b[k] in b)",
             "out.append(b'%s|%d' % (bytes(b), len(b)))", "out.append(b.hex())", "out.append(type(b[k]).__name__)", "for c in b:\n        out.append(c << 60)", "out.append(max(b) if b else None)",
             "out.append(-b[k])", "out.append(b[k] / 2)", "out.append(b[k] ** 9)", "out.append(repr(b))", "out.append(b.upper())", "out.append(b.find(b[k:]))"]
    body = ["b = %s" % b0, "out = []"] + guard(g.shuf(stmts)[:g.i(4, 7)]) + ["return out"]
    return T(["k"], "k", body)


def t_const_fold(g):
    lits_i = ["7", "-7", "2", "-2", "3", "0", "1", "255", "2147483647", "9223372036854775807", "10", "-1"]
    lits_f = ["1.5", "-0.5", "2.0", "1e308", "0.1", "3.0"]
    def ex(d, pool):
        if d >= 2 or g.coin(0.3):
            return g.ch(pool)
        op = g.ch(["+", "-", "*", "//", "%", "/", "**", "<<", ">>", "&", "|", "^"] if pool is lits_i else ["+", "-", "*", "/", "//", "%", "**"])
        r = ex(d + 1, pool)
        if op in ("**", "<<", ">>"):
            r = g.ch(["2", "3", "0", "-1", "10", "63", "64"] if pool is lits_i else ["2", "0.5", "-1", "400"])
        return "(%s %s %s)" % (ex(d + 1, pool), op, r)
    sx = ["'ab' * 3", "'a' + 'b' * 2", "(1, 2) * 2 + (3,)", "'%s-%d' % ('x', 7)", "'abc'[1]", "'abc'[::-1]", "[1, 2, 3][-1]", "not 0", "1 < 2 < 3", "-2 ** 2", "2 ** -1", "True + True",
          "1 if 0 else 2", "'a' 'b'", "len('abc')", "0.1 + 0.2", "1e16 + 1", "7 // -2", "-7 % 3", "divmod(-7, 2)", "round(2.5)", "round(-0.5)", "int(-1.5)", "abs(-2**63)", "1 << 63", "-(2**63) // -1",
          "float('inf') - float('inf') != 0", "10 ** 20", "3 * 'ab'", "b'a' * 2", "0x7fffffffffffffff + 1", "~0", "5 / 2", "-5 // 2", "5 % -2", "2 ** 0.5", "(-8) ** (1 / 3)", "1_000 * 3", "0b101 | 0o17"]
    exprs = [ex(0, lits_i), ex(0, lits_i), ex(0, lits_f), ex(0, lits_f)] + g.shuf(sx)[:4]
    body = ["out = []"] + guard(["out.append(%s)" % e for e in g.shuf(exprs)]) + ["return (out, a)"]
    return T(["a"], "j", body)


def t_rich_compare_obj(g):
    body = ["p, q = _RC(a), _RC(b)", "r = p %s q" % g.ch(["<", ">", "==", "!="]), "out = [r, p %s b, a %s q]" % (g.ch(["<", ">", "=="]), g.ch(["<", ">", "==", "!="])),
            "out.append(p %s q %s p)" % (g.ch(["<", ">", "=="]), g.ch(["<", ">", "=="])), "out.append(p in [q])", "out.append([q, p].index(p) if a else None)",
            "out.append('T' if p %s q else 'F')" % g.ch(["==", "!=", "<"]), "out.append(not p == q)", "return out"]
    return T(["a", "b"], "jj", body)


def t_class_private_mangle(g):
    c = "P_" + g.fn
    pre = ["class %s:" % c, "    __secret = %d" % g.i(), "    def __init__(self, v):", "        self.__v = v", "        self.__dict__['plain'] = %d" % g.i(),
           "    def __hid(self, k):", "        return self.__v %s k %s self.__secret" % (g.ch(BINOPS[:3]), g.ch(BINOPS[:3])),
           "    def pub(self, k):", "        f = lambda: self.__v", "        return (self.__hid(k), f(), [self.__v for _ in range(2)], %s.__secret)" % c,
           "    class In:", "        __deep = 'deep'", "        def get(self):", "            return self.__deep",
           "    def __repr__(self):", "        return '%s(%%r)' %% (sorted(self.__dict__.items()),)" % c]
    body = ["o = %s(a)" % c, "r = [o.pub(b), sorted(k for k in vars(%s) if 'secret' in k or 'hid' in k), o.In().get(), sorted(k for k in vars(o.In) if 'deep' in k)]" % c,
            "try:", "    r.append(o.__v)", "except AttributeError as e:", "    r.append(('AE', e.args[0][-6:]))", "r.append(getattr(o, '_%s__v'))" % c, "return (r, o)"]
    return T(["a", "b"], "jj", body, pre=pre)


def t_class_hooks(g):
    c = "H_" + g.fn
    pre = ["class D_%s:" % g.fn, "    def __set_name__(self, owner, name):", "        _log('set_name', (owner.__name__, name))", "        self.name = name",
           "    def __get__(self, obj, typ=None):", "        _log('get', self.name)", "        return %d if obj is None else obj.__dict__.get(self.name, %d)" % (g.i(), g.i()),
           "    def __set__(self, obj, v):", "        _log('set', (self.name, v))", "        obj.__dict__[self.name] = v %s 1" % g.ch(BINOPS[:3]),
           "class %s:" % c, "    subs = []", "    def __init_subclass__(cls, tag=None, **kw):", "        _log('init_subclass', (cls.__name__, tag, sorted(kw)))", "        %s.subs.append(cls.__name__)" % c,
           "        super().__init_subclass__(**kw)", "    def __class_getitem__(cls, item):", "        return (cls.__name__, item)"]
    body = ["class S1(%s, tag=%s):" % (c, g.lg("a")), "    d = D_%s()" % g.fn, "    e = D_%s()" % g.fn, "class S2(S1):", "    pass", "o = S2()", "o.d = b", "r = (o.d, o.e, S1.d, %s[a], S2[a, b], list(%s.subs))" % (c, c),
            "del %s.subs[:]" % c, "return r"]
    return T(["a", "b"], "jj", body, pre=pre)


def t_class_def_order(g):
    d = "cd_" + g.fn
    pre = ["def %s(tag):" % d, "    _log('dec-eval', tag)", "    def ap(c):", "        _log('dec-apply', tag)", "        return c", "    return ap",
           "class M_%s(type):" % g.fn, "    def __new__(m, name, bases, ns, **kw):", "        _log('meta-new', (name, [b.__name__ for b in bases], sorted(kw.items()), [k for k in ns if not k.startswith('__')]))",
           "        return super().__new__(m, name, bases, ns)", "    def __init__(c, name, bases, ns, **kw):", "        super().__init__(name, bases, ns)",
           "    @classmethod", "    def __prepare__(m, name, bases, **kw):", "        _log('prepare', name)", "        return {'injected': %d}" % g.i()]
    body = ["@%s(%s)" % (d, g.lg("'o'")), "@%s('i')" % d, "class C(%s, metaclass=%s, opt=%s):" % (g.lg("object"), g.lg("M_%s" % g.fn), g.lg("a")),
            "    z = %s" % g.lg("b"), "    y = z", "    def m(self, q=%s):" % g.lg("z"), "        return q", "return (C.y, C.injected, C().m(), type(C).__name__)"]
    return T(["a", "b"], "jj", body, pre=pre)

# --------------------------------------------------------------------------
# registry (name -> template); names are the stable violation-key identifiers

TEMPLATES = [
    ("unpack-star", t_unpack_star), ("unpack-nested", t_unpack_nested), ("swap-rotate", t_swap_rotate),
    ("swap-subscript", t_swap_subscript), ("assign-chain-order", t_assign_chain_order), ("unpack-loop-target", t_unpack_loop_target),
    ("condexpr", t_condexpr), ("aug-name", t_aug_name), ("aug-name-seq", t_aug_name_seq), ("aug-attr-order", t_aug_attr_order),
    ("aug-subscript-order", t_aug_subscript_order), ("aug-nested-subscript", t_aug_nested_subscript), ("aug-slice", t_aug_slice),
    ("lambda-default", t_lambda_default), ("lambda-loop-default", t_lambda_loop_default), ("lambda-closure", t_lambda_closure),
    ("nonlocal-counter", t_nonlocal_counter), ("global-update", t_global_update), ("builtins-num", t_builtins_num),
    ("builtins-iter", t_builtins_iter), ("any-all-shortcircuit", t_any_all_shortcircuit), ("builtins-type", t_builtins_type),
    ("comp-list", t_comp_list), ("comp-set", t_comp_set), ("comp-dict", t_comp_dict), ("comp-genexpr", t_comp_genexpr),
    ("comp-nested", t_comp_nested), ("comp-scope", t_comp_scope), ("walrus", t_walrus), ("class-nested", t_class_nested),
    ("class-body-order", t_class_body_order), ("class-inherit-super", t_class_inherit_super), ("decorator-order", t_decorator_order),
    ("decorator-class", t_decorator_class), ("finally-return", t_finally_return), ("finally-loop", t_finally_loop),
    ("while-else", t_while_else), ("try-except-else", t_try_except_else), ("except-var-unbound", t_except_var_unbound),
    ("unbound-local", t_unbound_local), ("raise-assert", t_raise_assert), ("with-stmt", t_with_stmt), ("generator-func", t_generator_func),
    ("chained-compare", t_chained_compare), ("chained-compare-obj", t_chained_compare_obj), ("bool-shortcircuit", t_bool_shortcircuit),
    ("fstring", t_fstring), ("percent-format", t_percent_format), ("str-format-method", t_str_format_method), ("slicing", t_slicing),
    ("slice-obj", t_slice_obj), ("str-ops", t_str_ops), ("int-arith", t_int_arith), ("float-arith", t_float_arith),
    ("args-default-kw", t_args_default_kw), ("star-call-order", t_star_call_order), ("kwonly-inner", t_kwonly_inner),
    ("dict-ops", t_dict_ops), ("list-ops", t_list_ops), ("set-ops", t_set_ops), ("del-stmt", t_del_stmt),
    ("for-iter-mutation", t_for_iter_mutation), ("range-loop", t_range_loop),
    ("float-local-infer", t_float_local_infer), ("int-local-infer", t_int_local_infer), ("range-infer-overflow", t_range_infer_overflow),
    ("str-local-infer", t_str_local_infer), ("bytes-local", t_bytes_local), ("rich-compare-obj", t_rich_compare_obj),
    ("const-fold", t_const_fold), ("class-private-mangle", t_class_private_mangle), ("class-hooks", t_class_hooks), ("class-def-order", t_class_def_order),
]
TEMPLATE_BY_NAME = dict(TEMPLATES)

RULE = ("search leg: %d construct templates, each parameterised by ctx.rng (constants, operators, operand order, nesting, logged sub-expressions); "
        "modules of 16 functions; per function 4 well-typed + 2 ill-typed/wrong-arity argument tuples from a pool of ints (0, negatives, 2**63, 2**70), floats, "
        "strings, lists, tuples, dicts, None, bools; outcome = (type name, repr) or (exception type, e.args) plus the evaluation-order log; "
        "every case is non-trivial (a distinct (module, function, args) triple executed by both CPython and the compiled module)" % len(TEMPLATES))
EXPLANATION = ("no theorem covers 'compiled pure-Python code behaves like CPython' in general: this leg samples programs over unpacking, conditional expressions, "
               "augmented assignment, lambdas/closures, builtins, comprehensions, classes, decorators, try/finally, comparisons, short-circuit, formatting, slicing, "
               "call argument passing and literal-initialised locals (type inference) and compares outcome strings with CPython exactly")


def gen_function(g, k, tname, ngood=4, nbad=2):
    """Returns (function_source, cases) for function f<k> of template `tname` (syntax-checked)."""
    fn = "f%d" % k
    for _ in range(8):
        g.fn = fn
        g.ntag = 0
        t = TEMPLATE_BY_NAME[tname](g)
        star = t["star_ok"] and g.coin(0.5)
        ps = t["params"]
        if star:
            head = ["def %s(*args):" % fn, "    %s = args" % (", ".join(ps) + ("," if len(ps) == 1 else ""))]
        else:
            head = ["def %s(%s):" % (fn, ", ".join(ps))]
        src = "\n".join(["# template: " + tname] + t["pre"] + head + ind(t["body"])) + "\n"
        try:
            compile(src, fn, "exec")
        except SyntaxError:
            continue
        extra = g.shuf(t["extra"])[:3]
        cases = extra + g.cases(t["kinds"], star, max(1, ngood - len(extra)), nbad)
        return src, cases
    return None, []


def assemble(fsrcs):
    """fsrcs: {k: function_source}"""
    ks = sorted(fsrcs)
    return (PRELUDE + "\n" + "\n".join(fsrcs[k] for k in ks) + "\n_FUNCS = {" + ", ".join("%d: f%d" % (k, k) for k in ks) + "}\n" + EPILOGUE)


def gen_module(g, tnames, ngood=4, nbad=2):
    fsrcs, cases, tmpl = {}, [], {}
    for k, tn in enumerate(tnames):
        src, cs = gen_function(g, k, tn, ngood, nbad)
        if src is None:
            continue
        fsrcs[k] = src
        tmpl[k] = tn
        cases.extend((k, a) for a in cs)
    return {"fsrcs": fsrcs, "tmpl": tmpl, "cases": cases, "source": assemble(fsrcs)}


# --------------------------------------------------------------------------
# execution


def _src_hash(s):
    return hashlib.sha256(s.encode()).hexdigest()[:12]


def _oracle_path(ctx, name, source):
    d = os.path.join(ctx.scratch, "oracle", name + "_" + _src_hash(source))
    p = os.path.join(d, name + ".py")
    if not os.path.exists(p):
        os.makedirs(d, exist_ok=True)
        with open(p, "w") as f:
            f.write(source)
    return p


def _abnormal(o):
    return not (o.startswith("ok ") or o.startswith("err "))


def run_both(ctx, name, source, so, cases, timeout=10.0):
    """cases: [(k, args_src)].  Returns (oracle_outcomes, impl_outcomes); after a crash/timeout both sides restart fresh."""
    op = _oracle_path(ctx, name, source)
    rc = [("call", "(%d, %s)" % (k, a)) for k, a in cases]
    exp, got, start = [], [], 0
    while start < len(rc):
        e = cybuild.run_cases(ctx, op, rc[start:], modname=name, timeout_per_case=timeout)
        o = cybuild.run_cases(ctx, so, rc[start:], modname=name, timeout_per_case=timeout)
        n = len(rc) - start
        e += ["missing"] * (n - len(e))
        o += ["missing"] * (n - len(o))
        cut = next((i for i in range(n) if _abnormal(e[i]) or _abnormal(o[i])), None)
        if cut is None:
            exp += e[:n]; got += o[:n]
            break
        exp += e[:cut + 1]; got += o[:cut + 1]
        start += cut + 1
    return exp, got


def _split_outcome(o):
    """'ok str:<repr of "RES LOG">' -> (res_tuple, log_repr) or None"""
    import ast
    if not o.startswith("ok str:"):
        return None
    try:
        s = ast.literal_eval(o[len("ok str:"):])
    except Exception:
        return None
    for m in re.finditer(r"\) \[", s):
        try:
            return ast.literal_eval(s[:m.start() + 1]), s[m.start() + 2:]
        except Exception:
            continue
    return None


def classify(tname, exp, got):
    """violation key for a mismatch: message-only exception differences get their own input-class key"""
    a, b = _split_outcome(exp), _split_outcome(got)
    if a and b and a[0][0] == "EXC" and b[0][0] == "EXC" and a[0][1] == b[0][1] and a[1] == b[1]:
        msg = a[0][2]
        try:
            import ast
            t = ast.literal_eval(msg)
            if isinstance(t, tuple) and t and isinstance(t[0], str):
                msg = t[0]
        except Exception:
            pass
        msg = re.sub(r"\S+\(\)|'[^' ]*'|\"[^\" ]*\"|\d+", "", msg)
        slug = re.sub(r"[^a-z]+", "-", msg.lower()).strip("-")[:48].rstrip("-")
        return "search:msg:%s:%s" % (a[0][1], slug or "args")
    return "search:" + tname


def _fn_of(source, k):
    m = re.search(r"(?ms)^# template: (\S+)\n(.*?)(?=^# template: |^_FUNCS = )", source[source.find("# template: "):] if False else source)
    for m in re.finditer(r"(?ms)^# template: (\S+)\n(.*?)(?=^# template: |^_FUNCS = )", source):
        if re.search(r"(?m)^def f%d\(" % k, m.group(2)):
            return m.group(1), m.group(0)
    return None, ""


def report(ctx, tname, source, k, args, exp, got, prior=None):
    key = classify(tname, exp, got)
    _, fsrc = _fn_of(source, k)
    what = ("%s | f%d%s | CPython: %s | compiled: %s" % (fsrc.replace("\n", "; ")[:110], k, args[:40], exp[:70], got[:70]))[:300]
    rp = {"kind": "impl-violates", "leg": "search", "template": tname, "key": key, "source": source[:9000],
          "k": k, "args": args, "expected": exp, "observed": got}
    if prior:
        rp["prior"] = prior[-60:]
    ctx.violation(key, what, rp)
    return key


def _single(source, k):
    """single-function module (prelude + template block of f<k>)"""
    tname, block = _fn_of(source, k)
    return tname, PRELUDE + "\n" + block + "\n_FUNCS = {%d: f%d}\n" % (k, k) + EPILOGUE


def _shrink_lines(ctx, name, block, k, args, rounds=3):
    """cheap shrink: parallel single-line deletions of the template block, keep a variant that still mismatches"""
    def mod(b):
        return PRELUDE + "\n" + b + "\n_FUNCS = {%d: f%d}\n" % (k, k) + EPILOGUE
    best = None
    for rnd in range(rounds):
        lines = block.rstrip("\n").split("\n")
        cands = []
        for i, l in enumerate(lines):
            if l.startswith("# template: ") or l.startswith("def f%d(" % k):
                continue
            b = "\n".join(lines[:i] + lines[i + 1:]) + "\n"
            try:
                compile(b, "s", "exec")
            except SyntaxError:
                continue
            cands.append(b)
        cands = cands[:16]
        if not cands:
            break
        sos = cybuild.build_many(ctx, [{"name": "%s_r%d_%d" % (name, rnd, i), "source": mod(b), "ext": ".py"} for i, b in enumerate(cands)])
        hit = None
        for i, (b, so) in enumerate(zip(cands, sos)):
            if isinstance(so, cybuild.BuildError):
                continue
            e, o = run_both(ctx, "%s_r%d_%d" % (name, rnd, i), mod(b), so, [(k, args)])
            # keep only real result differences (not both-NameError artefacts of the deletion)
            if e[0] != o[0] and "NameError" not in e[0] and (hit is None or len(b) < len(hit[0])):
                hit = (b, e[0], o[0])
        if hit is None:
            break
        block = hit[0]
        best = hit
    return best and (mod(best[0]), best[1], best[2])


def _handle_mismatches(ctx, name, mod, mism, all_cases):
    """mism: [(index_in_all_cases, k, args, exp, got)].  Isolate (single-function module, fresh process), shrink, report."""
    source = mod["source"]
    seen_keys = getattr(ctx, "_c01_keys", None)
    if seen_keys is None:
        seen_keys = ctx._c01_keys = {}
    todo = []
    for idx, k, args, exp, got in mism:
        tname = mod["tmpl"][k]
        key = classify(tname, exp, got)
        seen_keys[key] = seen_keys.get(key, 0) + 1
        ctx.notes.setdefault("search_mismatches_by_key", {})[key] = seen_keys[key]
        if seen_keys[key] > 2:
            continue                  # lib keeps the first two per key anyway; counted in notes
        if key.startswith("search:msg:"):
            # wording-only difference of an exception message: no isolation build needed
            report(ctx, tname, _single(source, k)[1], k, args, exp, got)
            continue
        todo.append((idx, k, args, exp, got, tname))
    if not todo:
        return
    singles = {}
    for _, k, _, _, _, _ in todo:
        singles.setdefault(k, _single(source, k)[1])
    ks = sorted(singles)
    sos = dict(zip(ks, cybuild.build_many(ctx, [{"name": "%s_s%d" % (name, k), "source": singles[k], "ext": ".py"} for k in ks])))
    for idx, k, args, exp, got, tname in todo:
        so = sos[k]
        if not isinstance(so, cybuild.BuildError):
            e, o = run_both(ctx, "%s_s%d" % (name, k), singles[k], so, [(k, args)])
            if e[0] != o[0]:
                src, e0, o0 = singles[k], e[0], o[0]
                if ctx.elapsed() < (120 if ctx.quick else 900) and seen_keys[classify(tname, exp, got)] == 1 and not classify(tname, exp, got).startswith("search:msg:"):
                    sh = _shrink_lines(ctx, "%s_s%d" % (name, k), _fn_of(src, k)[1], k, args)
                    if sh:
                        src, e0, o0 = sh
                report(ctx, tname, src, k, args, e0, o0)
                continue
        # not reproducible in isolation: depends on earlier calls in the same process
        prior = [[kk, aa] for kk, aa in all_cases[:idx] if kk == k]
        report(ctx, tname, singles[k], k, args, exp, got, prior=prior)


def _bisect_build_failure(ctx, name, mod, err):
    """module failed to build: build every function alone; report the culprits; return {k: so} of the survivors"""
    ks = sorted(mod["fsrcs"])
    singles = {k: _single(mod["source"], k)[1] for k in ks}
    sos = cybuild.build_many(ctx, [{"name": "%s_b%d" % (name, k), "source": singles[k], "ext": ".py"} for k in ks])
    ok, bad = {}, 0
    for k, so in zip(ks, sos):
        if isinstance(so, cybuild.BuildError):
            bad += 1
            tname = mod["tmpl"][k]
            log = [l for l in so.log.split("\n") if l.strip()]
            msg = " / ".join(log[-6:])[-200:]
            ctx.violation("search:compile:" + tname, ("valid Python fails to build (%s): %s | %s" % (so.stage, mod["fsrcs"][k].replace("\n", "; ")[:110], msg))[:300],
                          {"kind": "impl-violates", "leg": "search", "template": tname, "key": "search:compile:" + tname, "source": singles[k], "k": k, "args": None,
                           "expected": "builds", "observed": "BuildError(%s): %s" % (so.stage, so.log[-1500:])})
        else:
            ok[k] = (so, singles[k])
    if not bad:
        ctx.violation("search:compile:combination", ("module fails to build but every function builds alone (%s): %s" % (err.stage, err.log[-200:]))[:300],
                      {"kind": "impl-violates", "leg": "search", "template": "combination", "key": "search:compile:combination", "source": mod["source"], "k": None, "args": None,
                       "expected": "builds", "observed": "BuildError(%s): %s" % (err.stage, err.log[-1500:])})
    return ok


def _compare(ctx, name, mod, runs):
    """runs: list of (module_name, source, so, cases)"""
    shash = _src_hash(mod["source"])
    for mname, source, so, cases in runs:
        exp, got = run_both(ctx, mname, source, so, cases)
        mism = []
        for idx, ((k, args), e, o) in enumerate(zip(cases, exp, got)):
            tname = mod["tmpl"][k]
            ctx.count("search:" + tname)
            sp = _split_outcome(e)
            ctx.notes.setdefault("search_oracle_outcomes", {})
            oc = (sp[0][1] if sp and sp[0][0] == "EXC" else "value") if sp else e.split(" ")[0]
            ctx.notes["search_oracle_outcomes"][oc] = ctx.notes["search_oracle_outcomes"].get(oc, 0) + 1
            ctx.seen((shash, k, args), nontrivial=True)
            if _abnormal(e):
                ctx.notes.setdefault("search_abnormal_oracle", []).append([tname, args, e, mod["fsrcs"][k][:400]])
            if e != o:
                if not COMPARE_MESSAGES and classify(tname, e, o).startswith("search:msg:"):
                    ctx.notes["search_msg_only_ignored"] = ctx.notes.get("search_msg_only_ignored", 0) + 1
                    continue
                if _abnormal(e) or _abnormal(o):
                    # crash/timeout on one side: confirm once in fresh processes with a longer limit (loaded machine)
                    e2, o2 = run_both(ctx, mname, source, so, [(k, args)], timeout=40.0)
                    if e2[0] == o2[0]:
                        ctx.notes["search_unconfirmed_abnormal"] = ctx.notes.get("search_unconfirmed_abnormal", 0) + 1
                        continue
                    e, o = e2[0], o2[0]
                mism.append((idx, k, args, e, o))
            elif len(ctx.samples) < 4 and sp and sp[0][0] != "EXC" and ctx.rng.random() < 0.05:
                ctx.sample({"template": tname, "function": mod["fsrcs"][k][:300], "args": args, "outcome": e[:200]})
        if mism:
            _handle_mismatches(ctx, mname, mod, mism, cases)



# --------------------------------------------------------------------------
# FIXED boundary grid for subscripts and slices (no random choice: the same programs in every run and tier).
# Every function is `f(x, n, it, v, w)`: `n` selects ONE expression, whose text is returned with the result, so a
# mismatch names the exact subscript.  Template names (= violation keys) are `slice-grid:<op>:<base>`.

_G_LIT = ["", "None", "0", "1", "-1", "2", "-2", "True", "False", "1-1", "len(x)", "len(x)-1", "-len(x)"]
_G_STEP = ["", "None", "1", "2", "-1", "-2", "0", "True", "False", "1-1", "-(1-1)-1"]
_G_STEP_PAIRS = [("", ""), ("0", "0"), ("1", "-1"), ("-1", "0"), ("None", "None"), ("1-1", "1-1"), ("0", ""), ("", "0"),
                 ("-1", ""), ("len(x)", "0"), ("False", "True")]
_G_VAR = ["v:", ":v", "v:w", "v:0", "0:v", "v:1-1", "::v", "v::w", "w:v:-1", "v:w:v", "0:0:v", ":v:w"]
_G_IDX = ["0", "1", "-1", "2", "-2", "True", "False", "1-1", "len(x)-1", "-len(x)", "len(x)", "-len(x)-1", "v", "w", "-v", "v-1"]
_G_MD = ["0:1, 2", "..., 0", ":, :0", "::2, 1:0", "0:, None", "1-1:, :1-1", "(0, 1)", "0, 1", "..., :0, ...", ":0,", "0:,",
         "v:w, ::v", "slice(0, None)", "slice(None, 0), 0:", "None:None, 0:0:0", "False:, :False", "-1:0:-1, ...", "(q := v)", "(q := 0):(q := 1)"]
_G_VALS = ["None", "0", "1", "-1", "2", "-2", "True", "False", "5", "4", "-5", "6", "-6"]


def _g_slices():
    out = ["%s:%s" % (a, b) for a in _G_LIT for b in _G_LIT]
    out += ["%s:%s:%s" % (a, b, c) for (a, b) in _G_STEP_PAIRS for c in _G_STEP]
    return out


_G_READ_BASES = [   # (name, setup lines, base expression, args source for x)
    ("list-arg", [], "x", "[10, 11, 12, 13, 14]"), ("tuple-arg", [], "x", "(10, 11, 12, 13, 14)"),
    ("str-arg", [], "x", "'abcde'"), ("bytes-arg", [], "x", "b'abcde'"), ("bytearray-arg", [], "x", "bytearray(b'abcde')"),
    ("range-arg", [], "x", "range(10, 15)"),
    ("list-literal", [], "[10, 11, 12, 13, 14]", "'abcde'"), ("tuple-literal", [], "(10, 11, 12, 13, 14)", "'abcde'"),
    ("str-literal", [], "'abcde'", "'abcde'"), ("bytes-literal", [], "b'abcde'", "'abcde'"),
    ("list-local", ["y = [10, 11, 12, 13, 14]"], "y", "'abcde'"), ("tuple-local", ["y = (10, 11, 12, 13, 14)"], "y", "'abcde'"),
    ("str-local", ["y = 'abcde'"], "y", "'abcde'"), ("bytes-local", ["y = b'abcde'"], "y", "'abcde'"),
    ("list-cast", ["y = list(x)"], "y", "(10, 11, 12, 13, 14)"),
    ("logging-container", ["y = _LC(list(x), 'c')"], "y", "(10, 11, 12, 13, 14)"),
]
_G_WRITE_BASES = [  # (name, setup, args source for x, items source, scalar source)
    ("list-arg", ["y = x"], "[10, 11, 12, 13, 14]", "[7, 8]", "99"),
    ("list-cast", ["y = list(x)"], "(10, 11, 12, 13, 14)", "[7, 8]", "99"),
    ("list-local", ["y = [10, 11, 12, 13, 14]"], "'abcde'", "[7, 8]", "99"),
    ("bytearray", ["y = bytearray(x)"], "b'abcde'", "b'xy'", "65"),
    ("logging-container", ["y = _LC(list(x), 'c')"], "(10, 11, 12, 13, 14)", "[7, 8]", "99"),
]


def _g_function(fn, tname, setup, branches):
    """branches: list of (label, statements, result expression)"""
    lines = ["# template: " + tname, "def %s(x, n, it, v, w):" % fn] + ["    " + st for st in setup]
    for i, (label, stmts, res) in enumerate(branches):
        lines.append("    if n == %d:" % i)
        lines += ["        " + st for st in stmts]
        lines.append("        return (%r, %s)" % (label, res))
    lines.append("    return 'no-such-branch'")
    return "\n".join(lines) + "\n"


def grid_functions():
    """-> list of (template_name, function_source_with_placeholder_name, [args_src per case])"""
    fs = []
    sl = _g_slices()

    def add(tname, setup, branches, xsrc, itsrc="[7, 8]", vw=("0", "0")):
        cases = ["(%s, %d, %s, %s, %s, )" % (xsrc, i, itsrc, vw[0], vw[1]) for i in range(len(branches))]
        fs.append((tname, setup, branches, cases))

    def addvar(tname, setup, mk, xsrc, itsrc="[7, 8]"):
        branches = [mk(e) for e in _G_VAR]
        cases = ["(%s, %d, %s, %s, %s, )" % (xsrc, i, itsrc, v, w) for i in range(len(branches))
                 for v in _G_VALS for w in ("None", "0", "1", "-1", "False")]
        fs.append((tname, setup, branches, cases))
    for name, setup, base, xsrc in _G_READ_BASES:
        add("slice-grid:read:" + name, setup, [("%s[%s]" % (base, e), [], "%s[%s]" % (base, e)) for e in sl], xsrc)
        addvar("slice-grid:read-var:" + name, setup, lambda e: ("%s[%s]" % (base, e), [], "%s[%s]" % (base, e)), xsrc)
        idx = [("%s[%s]" % (base, e), [], "%s[%s]" % (base, e)) for e in _G_IDX]
        cases = ["(%s, %d, [7, 8], %s, %s, )" % (xsrc, i, v, w) for i in range(len(idx)) for (v, w) in
                 (("0", "0"), ("1", "-1"), ("-1", "4"), ("5", "-5"), ("True", "False"), ("-6", "6"), ("None", "1.0"))]
        fs.append(("slice-grid:index-read:" + name, setup, idx, cases))
    for name, setup, xsrc, itsrc, sc in _G_WRITE_BASES:
        res = "y"
        add("slice-grid:assign:" + name, setup, [("y[%s] = it" % e, ["y[%s] = it" % e], res) for e in sl], xsrc, itsrc)
        add("slice-grid:delete:" + name, setup, [("del y[%s]" % e, ["del y[%s]" % e], res) for e in sl], xsrc, itsrc)
        add("slice-grid:augassign:" + name, setup, [("y[%s] += it" % e, ["y[%s] += it" % e], res) for e in sl], xsrc, itsrc)
        addvar("slice-grid:assign-var:" + name, setup, lambda e: ("y[%s] = it" % e, ["y[%s] = it" % e], "y"), xsrc, itsrc)
        addvar("slice-grid:delete-var:" + name, setup, lambda e: ("del y[%s]" % e, ["del y[%s]" % e], "y"), xsrc, itsrc)
        addvar("slice-grid:augassign-var:" + name, setup, lambda e: ("y[%s] += it" % e, ["y[%s] += it" % e], "y"), xsrc, itsrc)
        ib = []
        for e in _G_IDX:
            ib += [("y[%s] = %s" % (e, sc), ["y[%s] = %s" % (e, sc)], "y"), ("del y[%s]" % e, ["del y[%s]" % e], "y"),
                   ("y[%s] += 1" % e, ["y[%s] += 1" % e], "y")]
        cases = ["(%s, %d, %s, %s, %s, )" % (xsrc, i, itsrc, v, w) for i in range(len(ib)) for (v, w) in
                 (("0", "0"), ("1", "-1"), ("-1", "4"), ("5", "-5"), ("True", "False"), ("-6", "6"))]
        fs.append(("slice-grid:index-write:" + name, setup, ib, cases))
    # multi-dimensional / extended subscripts: the key OBJECT handed to __getitem__ / __setitem__ / __delitem__
    for dname, dsetup in (("list-data", ["y = _LC(list(x), 'c')"]), ("dict-data", ["y = _LC({}, 'c')"])):
        md = []
        for e in _G_MD:
            md += [("y[%s]" % e, [], "y[%s]" % e), ("y[%s] = it" % e, ["y[%s] = it" % e], "y"),
                   ("del y[%s]" % e, ["del y[%s]" % e], "y"), ("y[%s] += it" % e, ["y[%s] += it" % e], "y")]
        cases = ["((10, 11, 12), %d, [7], %s, %s, )" % (i, v, w) for i in range(len(md)) for (v, w) in (("0", "0"), ("None", "1"), ("-1", "2"))]
        fs.append(("slice-grid:multidim:" + dname, dsetup, md, cases))
    return fs


def grid_modules(per_module=7):
    fs = grid_functions()
    mods = []
    for start in range(0, len(fs), per_module):
        fsrcs, tmpl, cases = {}, {}, []
        for k, (tname, setup, branches, cs) in enumerate(fs[start:start + per_module]):
            src = _g_function("f%d" % k, tname, setup, branches)
            compile(src, tname, "exec")
            fsrcs[k] = src
            tmpl[k] = tname
            cases += [(k, a) for a in cs]
        mods.append({"fsrcs": fsrcs, "tmpl": tmpl, "cases": cases, "source": assemble(fsrcs)})
    return mods


def run_search(ctx, n_modules=None, n_funcs=None, templates=None):
    """SEARCH leg of C01: compiled pure-Python modules vs CPython on generated programs."""
    g = Gen(ctx.rng)
    nmod = n_modules or ctx.n(8, 40)
    nf = n_funcs or 16
    names = [t[0] for t in TEMPLATES if templates is None or t[0] in templates]
    deck = []
    mods = []
    for m in range(nmod):
        pick = []
        while len(pick) < nf:
            if not deck:
                deck = g.shuf(names)
            pick.append(deck.pop())
        mods.append(gen_module(g, pick))
    tag = "s%d" % (ctx.seed % 100000)
    mnames = ["c01%s_m%d" % (tag, i) for i in range(nmod)]
    if templates is None or any(t.startswith("slice-grid") for t in templates):
        gm = grid_modules()          # the fixed subscript / slice boundary grid: always part of the corpus
        mods += gm
        mnames += ["c01grid_m%d" % i for i in range(len(gm))]
        ctx.notes["search_grid"] = {"modules": len(gm), "cases": sum(len(m["cases"]) for m in gm)}
    sos = cybuild.build_many(ctx, [{"name": n, "source": m["source"], "ext": ".py"} for n, m in zip(mnames, mods)])
    for n, m, so in zip(mnames, mods, sos):
        if isinstance(so, cybuild.BuildError):
            ok = _bisect_build_failure(ctx, n, m, so)
            runs = [("%s_b%d" % (n, k), src, s, [c for c in m["cases"] if c[0] == k]) for k, (s, src) in sorted(ok.items())]
        else:
            runs = [(n, m["source"], so, m["cases"])]
        _compare(ctx, n, m, runs)
    ctx.notes["search_modules"] = nmod
    ctx.notes["search_templates"] = len(TEMPLATES)
    return mods


def replay_search(ctx, case):
    """Re-run exactly one replay dict produced by this leg."""
    source, k, args = case["source"], case.get("k"), case.get("args")
    tname = case.get("template") or (_fn_of(source, k)[0] if k is not None else None) or "replay"
    name = "c01rp_" + _src_hash(source)
    try:
        so = cybuild.build_module(ctx, name, source, ext=".py")
    except cybuild.BuildError as e:
        key = case.get("key") or ("search:compile:" + tname)
        ctx.violation(key, ("valid Python fails to build (%s): %s" % (e.stage, e.log[-200:]))[:300],
                      dict(case, observed="BuildError(%s): %s" % (e.stage, e.log[-1500:])))
        return False
    if k is None:
        return True
    cases = [(int(kk), aa) for kk, aa in case.get("prior", [])] + [(int(k), args)]
    exp, got = run_both(ctx, name, source, so, cases)
    ctx.count("search:" + tname, len(cases))
    ctx.seen((_src_hash(source), k, args), nontrivial=True)
    for (kk, aa), e, o in zip(cases, exp, got):
        if e != o:
            report(ctx, tname, source, kk, aa, e, o, prior=case.get("prior"))
            return False
    return True

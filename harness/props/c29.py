"""C29 — automatic pickling of extension types round-trips.

impl   = cdef classes generated below, compiled by the staged compiler + gcc; `__reduce__`, pickle (protocols 0-5),
         copy.copy / copy.deepcopy, direct `__setstate__` / `__pyx_unpickle_*` calls, cross-version (layout skew) loads
model  = CyVerif.C29 (decide / reduce / rt / setstate / unpickle)
oracle = the property itself: attribute-wise equality after the round trip, TypeError for refused classes, an exception
         for a changed layout; hashlib for the checksums; an independent restatement of the documented decision rule
"""
import hashlib
import json
import os
import struct
import subprocess

import cybuild
import lib

# key -> (Cython declaration type, model type token, public?)
TYPES = {
    "obj": ("object", "o", True), "list": ("list", "tlist", True), "str": ("str", "tstr", True),
    "dict": ("dict", "tdict", True), "other": ("Other", "tOther", True),
    "int": ("int", "i32s", True), "long": ("long", "i64s", True), "uchar": ("unsigned char", "i8u", True),
    "short": ("short", "i16s", True), "ull": ("unsigned long long", "i64u", True), "enum": ("E", "i32u", True),
    "bint": ("bint", "b", True), "double": ("double", "f", True), "float": ("float", "f", True),
    "struct": ("S2", "S2", True), "arr": ("int", "A3", True),
    "ptr": ("int*", "p", False), "voidp": ("void*", "p", False), "structnc": ("SP", "X", False),
}
PICKLABLE = ["obj", "obj", "list", "str", "dict", "other", "int", "long", "uchar", "short", "ull", "enum", "bint", "double",
             "float", "arr"]
NAMES = ["a", "b", "B", "_c", "a1", "aa", "Z", "z9", "m", "x", "y0", "ab", "A_", "_", "k2", "é", "zz", "M"]
PRELUDE = '''# cython: language_level=3
cimport cython
cdef enum E:
    E1 = 1
    E2 = 2
cdef struct S2:
    int x
    int y
cdef struct SP:
    int* q
cdef class Other:
    cdef public object tag
    def __reduce__(self):
        return (Other_new, (self.tag,))
def Other_new(tag):
    o = Other(); o.tag = tag; return o
'''


def decl(name, tk):
    cty, _, pub = TYPES[tk]
    suffix = "[3]" if tk == "arr" else ""
    return "    cdef %s%s %s%s" % ("public " if pub else "", cty, name, suffix)


def render_class(c, classes):
    out = []
    if c["ap"] is not None:
        out.append("@cython.auto_pickle(%s)" % c["ap"])
    base = "(%s)" % classes[c["base"]]["name"] if c["base"] is not None else ""
    out.append("cdef class %s%s:" % (c["name"], base))
    body = [decl(n, t) for n, t in c["vars"]]
    if c["dict"]:
        body.append("    cdef dict __dict__")
    if c["weakref"]:
        body.append("    cdef object __weakref__")
    if c["cinit"]:
        body.append("    def __cinit__(self):\n        pass")
    if c["reduce"] == "reduce":
        body.append("    def __reduce__(self):\n        return (%s, ())" % c["name"])
    elif c["reduce"] == "reduce_ex":
        body.append("    def __reduce_ex__(self, proto):\n        return (%s, ())" % c["name"])
    out.extend(body or ["    pass"])
    return "\n".join(out) + "\n"


def render_module(classes):
    return PRELUDE + "\n".join(render_class(c, classes) for c in classes)


def chain_of(classes, k):
    ch = []
    while k is not None:
        ch.append(classes[k])
        k = classes[k]["base"]
    return ch


def class_vars(c):
    """var_entries in declaration order, as the model token list"""
    vs = [(n, TYPES[t][1]) for n, t in c["vars"]]
    if c["dict"]:
        vs.append(("__dict__", "tdict"))
    if c["weakref"]:
        vs.append(("__weakref__", "o"))
    return vs


def chain_token(chain):
    toks = []
    for c in chain:
        fl = ("c" if c["cinit"] else "") + ("r" if c["reduce"] else "") or "-"
        vs = ",".join("%s:%s" % v for v in class_vars(c)) or "-"
        toks.append(fl + "~" + vs)
    return "/".join(toks)


def ap_token(ap):
    return {None: "N", True: "T", False: "F"}[ap]


def gen_classes(rng, nclasses, allow_refused=True):
    """Random hierarchy of cdef classes (chains up to depth 3) with unique attribute names per chain."""
    classes = []
    for k in range(nclasses):
        base = None
        if classes and rng.random() < 0.6:
            cands = [i for i, c in enumerate(classes) if len(chain_of(classes, i)) < 3 and not c["forced_error"]]
            base = rng.choice(cands) if cands else None
        used = set()
        inherited_dict = False
        if base is not None:
            for c in chain_of(classes, base):
                used.update(n for n, _ in c["vars"])
                inherited_dict = inherited_dict or c["dict"] or c["weakref"]
        nv = rng.choice([0, 1, 2, 2, 3, 3, 4, 5])
        avail = [n for n in NAMES if n not in used]
        rng.shuffle(avail)
        vars_ = []
        for n in avail[:nv]:
            r = rng.random()
            if allow_refused and r < 0.05:
                tk = rng.choice(["ptr", "voidp", "structnc"])
            elif r < 0.13:
                tk = "struct"
            else:
                tk = rng.choice(PICKLABLE)
            vars_.append((n, tk))
        r = rng.random()
        c = {"name": "K%d" % k, "base": base, "vars": vars_, "dict": (not inherited_dict) and rng.random() < 0.25,
             "weakref": (not inherited_dict) and rng.random() < 0.1, "cinit": allow_refused and rng.random() < 0.08,
             "reduce": (rng.choice(["reduce", "reduce_ex"]) if allow_refused and rng.random() < 0.07 else None),
             "ap": (False if r < 0.07 else True if r < 0.3 else None), "forced_error": False}
        classes.append(c)
        # auto_pickle(True) on a class that must be refused is a compile error: keep the module compilable here
        ch = chain_of(classes, k)
        if c["ap"] is True and spec_decision(ch)[0] == "refuse":
            c["ap"] = None
    return classes


def spec_decision(chain):
    """ORACLE for the decision: the documented rule restated independently of the compiler and of the Lean model.
    Returns ('nothing',) | ('refuse', kind, names, compile_error) | ('gen', sorted names)."""
    own = chain[0]
    if own["ap"] is False or any(c["reduce"] for c in chain):
        return ("nothing",)
    members = sorted((n, t) for c in chain for n, t in c["vars"])
    forced = own["ap"] is True
    if any(c["cinit"] for c in chain):
        return ("refuse", "cinit", [], forced)
    bad = [n for n, t in members if t in ("ptr", "voidp", "structnc")]
    if bad:
        return ("refuse", "nonpy", bad, forced)
    st = [n for n, t in members if t == "struct"]
    if st and not forced:
        return ("refuse", "struct", st, forced)
    return ("gen", [n for n, _ in members])


CHILD = r'''
import sys, json, pickle, copy, struct, importlib.util, re
job = json.load(open(sys.argv[1]))
spec = importlib.util.spec_from_file_location(job["modname"], job["so"])
mod = importlib.util.module_from_spec(spec); sys.modules[job["modname"]] = mod; spec.loader.exec_module(mod)
SUBS = {}
def subclass(cls):
    if cls not in SUBS:
        nm = "PySub_" + cls.__name__
        SUBS[cls] = type(nm, (cls,), {}); globals()[nm] = SUBS[cls]
    return SUBS[cls]
def build(tok, root, pool):
    k, r = tok[0], tok[1:]
    if tok == "N": return None
    if k == "i": return int(r)
    if k == "b": return r == "1"
    if k == "f": return struct.unpack("<d", struct.pack("<Q", int(r)))[0]
    if k == "s": return r
    if k == "D": x, y = r.split(";"); return {"x": int(x), "y": int(y)}
    if k == "L": return [int(x) for x in r.split(";")]
    if k == "d": return {kv.split("=", 1)[0]: build(kv.split("=", 1)[1], root, pool) for kv in r.split("&")} if r else {}
    if k == "r":
        tag, i = r.split("#"); i = int(i)
        if i == 0: return root
        if (tag, i) not in pool:
            if tag == "list": pool[(tag, i)] = [("ref", i)] + ([root] if i >= 100 else [])
            elif tag == "dict": pool[(tag, i)] = {"ref": i}
            elif tag == "Other": pool[(tag, i)] = mod.Other_new(i)
            else: raise ValueError(tok)
        return pool[(tag, i)]
    raise ValueError(tok)
ALIAS = [None]
def rpy(v, root, structpos=False):
    if v is None: return "N"
    if v is root or (ALIAS[0] is not None and v is ALIAS[0]): return "r%s#0" % type(root).__name__
    if isinstance(v, bool): return "b1" if v else "b0"
    if isinstance(v, int): return "i%d" % v
    if isinstance(v, float): return "f%d" % struct.unpack("<Q", struct.pack("<d", v))[0]
    if isinstance(v, str): return "s" + v
    if isinstance(v, bytes): return "y" + (v.hex() or "-")
    if isinstance(v, mod.Other): return "rOther#%s" % v.tag
    if isinstance(v, list):
        if v and isinstance(v[0], tuple):
            i = v[0][1]
            if i >= 100 and not (len(v) == 2 and (v[1] is root or (ALIAS[0] is not None and v[1] is ALIAS[0]))): return "rBROKEN#%d" % i
            return "rlist#%d" % i
        return "L" + ";".join(map(str, v))
    if isinstance(v, dict):
        if "ref" in v: return "rdict#%d" % v["ref"]
        if structpos: return "D%d;%d" % (v["x"], v["y"])
        return "d" + "&".join("%s=%s" % (k, rpy(x, root)) for k, x in v.items())
    return "?" + type(v).__name__
def rslot(v, tk, root):
    if tk in ("obj", "list", "str", "dict", "other"): return "P" + rpy(v, root)
    if tk == "bint": return "B1" if v else "B0"
    if tk in ("double", "float"): return "F%d" % struct.unpack("<Q", struct.pack("<d", v))[0]
    if tk == "struct": return "S%d;%d" % (v["x"], v["y"])
    if tk == "arr": return "A" + ";".join(map(str, v))
    return "I%d" % v
def robj(o, layout):
    sl = ",".join("%s=%s" % (n, rslot(getattr(o, n), tk, o)) for n, tk in layout) or "-"
    d = getattr(o, "__dict__", None)
    return "%s %s %s" % (type(o).__name__, sl, "-" if d is None else "d" + "&".join("%s=%s" % (k, rpy(x, o)) for k, x in d.items()))
def exc(e):
    return "err " + ("PickleError" if isinstance(e, pickle.PickleError) and type(e).__name__ == "PickleError" else type(e).__name__)
def make(inst):
    cls = getattr(mod, inst["cls"])
    if inst["sub"]: cls = subclass(cls)
    o = cls.__new__(cls); pool = {}
    for n, tok in inst["slots"]: setattr(o, n, build(tok, o, pool))
    for k, tok in (inst["dict"] or []): setattr(o, k, build(tok, o, pool))
    return o
def rreduce(o, n):
    try: r = o.__reduce__()
    except BaseException as e: return exc(e)
    if not (isinstance(r, tuple) and getattr(r[0], "__name__", "").startswith("__pyx_unpickle_")): return "other"
    args = r[1]; st = args[2] if len(r) == 2 else r[2]
    def rs(st):
        if st is None: return "None"
        return ",".join(rpy(v, o, structpos=(i < n)) for i, v in enumerate(st)) or "-"
    return "%d %s %d %s" % (len(r), args[0].__name__, args[1], rs(st))
def observe(cname):
    cls = getattr(mod, cname)
    f = cls.__dict__.get("__reduce__")
    if f is None or getattr(f, "__name__", "") != "__reduce_cython__": return {"kind": "nothing"}
    try: cls.__new__(cls).__reduce__()
    except TypeError as e:
        m = str(e)
        names = re.findall(r"self\.(\w+)", m)
        kind = "cinit" if "__cinit__" in m else "nonpy" if "cannot be converted" in m else "struct" if "explicitly requested" in m else "?" + m[:60]
        try: cls.__new__(cls).__setstate__(()); ss = "ok"
        except BaseException as e2: ss = type(e2).__name__
        return {"kind": "refuse", "why": kind, "names": names, "setstate": ss}
    except BaseException as e: return {"kind": "raises " + type(e).__name__}
    try: getattr(mod, "__pyx_unpickle_" + cname)(cls, -1, None); return {"kind": "gen", "msg": "no error for checksum -1"}
    except pickle.PickleError as e: m = str(e)
    mm = re.search(r"vs \(([^)]*)\) = \((.*)\)\)$", m)
    return {"kind": "gen", "accepted": [int(x, 16) for x in mm.group(1).split(", ")], "names": [x for x in mm.group(2).split(", ") if x]}
out = {"decisions": {}, "insts": [], "setstate": [], "unpickle": []}
for cname in job.get("classes", []): out["decisions"][cname] = observe(cname)
for inst in job.get("insts", []):
    res = {}
    try:
        o = make(inst); lay = inst["layout"]; res["orig"] = robj(o, lay) if lay is not None else ""; res["reduce"] = rreduce(o, inst["n"])
        rt = {}
        for label in inst["labels"]:
            try:
                ALIAS[0] = o if label == "copy" else None
                if label == "copy": o2 = copy.copy(o)
                elif label == "deepcopy": o2 = copy.deepcopy(o)
                else: o2 = pickle.loads(pickle.dumps(o, int(label[1:])))
                rt[label] = "ok " + robj(o2, lay) if lay is not None else "ok"
            except BaseException as e: rt[label] = exc(e)
            ALIAS[0] = None
        res["rt"] = rt
    except BaseException as e: res["fail"] = repr(e)[:200]
    out["insts"].append(res)
for t in job.get("setstate", []):
    cls = getattr(mod, t["cls"])
    if t["sub"]: cls = subclass(cls)
    try:
        o = cls.__new__(cls); st = None if t["state"] is None else tuple(build(x, o, {}) for x in t["state"])
        if "cs" in t: o = getattr(mod, "__pyx_unpickle_" + t["cls"])(cls, t["cs"], st)
        else: o.__setstate__(st)
        out["setstate"].append("ok " + robj(o, t["layout"]))
    except BaseException as e: out["setstate"].append(exc(e))
if "dump" in job:
    blobs = []
    for inst in job["dump"]:
        o = make(inst); blobs.append([pickle.dumps(o, p).hex() for p in inst["protos"]])
    out["blobs"] = blobs
if "load" in job:
    res = []
    for item in job["load"]:
        r = []
        for h in item["blobs"]:
            try: r.append("ok " + robj(pickle.loads(bytes.fromhex(h)), item["layout"]))
            except BaseException as e: r.append(exc(e))
        res.append(r)
    out["loaded"] = res
json.dump(out, open(sys.argv[2], "w"))
'''


def run_child(ctx, job, tag):
    d = os.path.join(ctx.scratch, "jobs")
    os.makedirs(d, exist_ok=True)
    cp = os.path.join(d, "child.py")
    if not os.path.exists(cp):
        with open(cp, "w") as f:
            f.write(CHILD)
    jp, op = os.path.join(d, tag + ".json"), os.path.join(d, tag + ".out.json")
    with open(jp, "w") as f:
        json.dump(job, f)
    p = subprocess.run([lib.PYTHON, cp, jp, op], stdout=subprocess.PIPE, stderr=subprocess.STDOUT, text=True,
                       env=lib._clean_env({"PYTHONPATH": ctx.stage}), timeout=600)
    if p.returncode != 0:
        return {"crash": p.returncode, "log": p.stdout[-600:]}
    return json.load(open(op))


F64 = [0, 1 << 63, 0x3FF8000000000000, 0x7FF0000000000000, 0xFFF0000000000000, 0x7FF8000000000000, 0x7FEFFFFFFFFFFFFF, 1,
       0x400921FB54442D18]
F32 = [0, 1 << 63, 0x3FF8000000000000, 0x7FF0000000000000, 0xFFF0000000000000, 0x7FF8000000000000, 0xC000000000000000]
RANGES = {"int": (-2**31, 2**31 - 1), "long": (-2**63, 2**63 - 1), "uchar": (0, 255), "short": (-2**15, 2**15 - 1),
          "ull": (0, 2**64 - 1), "enum": (0, 2**32 - 1)}
STRS = ["", "x", "abc", "Zq9"]


def gen_atom(rng, tname):
    r = rng.random()
    if r < 0.2:
        return "N"
    if r < 0.45:
        return "i%d" % rng.choice([0, 1, -7, 2**70])
    if r < 0.6:
        return "s" + rng.choice(STRS)
    if r < 0.75:
        return "r%s#0" % tname
    return "r%s#%d" % (rng.choice([("list", rng.choice([1, 2, 101])), ("dict", 3), ("Other", 4)]))


def gen_value(rng, tk, tname, lean_none=False):
    if tk == "obj":
        return "N" if lean_none or rng.random() < 0.3 else rng.choice([gen_atom(rng, tname), "b1", "f%d" % rng.choice(F64)])
    if tk in ("list", "dict"):
        return "N" if lean_none or rng.random() < 0.4 else "r%s#%d" % (tk, rng.choice([1, 2, 5, 101] if tk == "list" else [3, 6]))
    if tk == "str":
        return "N" if lean_none or rng.random() < 0.4 else "s" + rng.choice(STRS)
    if tk == "other":
        return "N" if lean_none or rng.random() < 0.4 else "rOther#%d" % rng.choice([4, 8])
    if tk in RANGES:
        lo, hi = RANGES[tk]
        return "i%d" % rng.choice([lo, hi, 0, 1, max(lo, -1), (lo + hi) // 2, rng.randint(lo, hi)])
    if tk == "bint":
        return rng.choice(["b0", "b1"])
    if tk == "double":
        return "f%d" % rng.choice(F64)
    if tk == "float":
        return "f%d" % rng.choice(F32)
    if tk == "struct":
        return "D%d;%d" % (rng.choice([0, -2**31, 5]), rng.choice([0, 2**31 - 1, -9]))
    if tk == "arr":
        return "L%d;%d;%d" % (rng.choice([0, 7]), rng.choice([-1, 2**31 - 1]), rng.choice([0, -2**31]))
    raise ValueError(tk)


def layout_of(chain):
    return [[n, t] for c in reversed(chain) for n, t in c["vars"]]


def digests(names):
    text = " ".join(names).encode("utf-8")
    return [int(getattr(hashlib, a)(text, usedforsecurity=False).hexdigest()[:7], 16) for a in ("sha256", "sha1", "md5")]


def htoken(names):
    return "h:%s:%d:%d:%d" % (("+".join(names) or "-",) + tuple(digests(names)))


def model_decision(ctx, cfg, chain):
    return "C29 decide %s %s %s" % (cfg, ap_token(chain[0]["ap"]), chain_token(chain))


def fmt_spec(d):
    if d[0] == "nothing":
        return "ok nothing"
    if d[0] == "refuse":
        return "ok refuse %s%s %s" % (d[1], "" if d[1] == "cinit" else ":" + ",".join(d[2]), "E" if d[3] else "-")
    return "ok gen " + (",".join(d[1]) or "-")


def fmt_obs(o):
    if o["kind"] == "nothing":
        return "ok nothing"
    if o["kind"] == "refuse":
        return "ok refuse %s%s -" % (o["why"], "" if o["why"] == "cinit" else ":" + ",".join(o["names"]))
    if o["kind"] == "gen":
        return "ok gen " + (",".join(o.get("names", ["?"])) or "-")
    return "ok " + o["kind"]


WITNESS_SRC = PRELUDE + '''
cdef class WCP:
    cdef char* s
    cdef public int i
cdef class WCA:
    cdef public char a[4]
cdef class WMV:
    cdef public double[:] mv
def mkmv():
    import array
    w = WMV(); w.mv = array.array('d', [1.0, 2.0]); return w
'''


def detect_cfg(ctx, so):
    """Which variant of the decision / state construction does the CURRENT source implement? (behavioural probe)"""
    probes = {
        "cp_kind": "o = mod.WCP.__new__(mod.WCP)\ntry:\n    import os; f = mod.WCP.__dict__['__reduce__']\n    o.__setstate__(())\nexcept TypeError: print('refused')\nexcept BaseException as e: print('gen')\nelse: print('gen')",
        "cp_null": "import pickle; o = mod.WCP(); print(pickle.loads(pickle.dumps(o)).i)",
        "ca_zero": "import pickle; o = mod.WCA(); s = o.__reduce__()[1][2]; print(repr(s)); s2 = pickle.loads(pickle.dumps(o)).__reduce__()[1][2]; print('same' if s == s2 else 'diff')",
        "mv_none": "import pickle; pickle.dumps(mod.WMV())",
        "mv_set": "import pickle; pickle.dumps(mod.mkmv())",
    }
    res = {}
    for k, body in probes.items():
        code = ("import sys, importlib.util\nspec = importlib.util.spec_from_file_location('c29wit', %r)\n"
                "mod = importlib.util.module_from_spec(spec); sys.modules['c29wit'] = mod; spec.loader.exec_module(mod)\n"
                "try:\n%s\nexcept BaseException as e: print('err ' + type(e).__name__)\n"
                % (so, "\n".join("    " + l for l in body.split("\n"))))
        p = subprocess.run([lib.PYTHON, "-c", code], stdout=subprocess.PIPE, stderr=subprocess.DEVNULL, text=True,
                           env=lib._clean_env({"PYTHONPATH": ctx.stage}), timeout=120)
        res[k] = ("crash %d" % p.returncode) if p.returncode < 0 else p.stdout.strip().replace("\n", " | ")[:120]
    ptr_refused = res["cp_kind"] == "refused"
    arr_exact = res["ca_zero"].startswith("(b'\\x00\\x00\\x00\\x00',)")
    return ("1" if ptr_refused else "0") + ("1" if arr_exact else "0"), res


def witness_checks(ctx, cfg, res):
    """Replay of the counterexample theorems on the real code + three-way for the fixed witnesses."""
    lines = [
        "C29 decide %s N -~s:cp,i:i32s" % cfg,
        "C29 reduce %s N -~s:cp,i:i32s WCP i=I0,s=Z - %s" % (cfg, htoken(["i", "s"])),
        "C29 rt %s N -~a:ca4 N -~a:ca4 0 WCA a=H00000000 - %s" % (cfg, htoken(["a"])),
        "C29 reduce %s N -~mv:mv WMV mv=M - %s" % (cfg, htoken(["mv"])),
        "C29 rt %s N -~mv:mv N -~mv:mv 0 WMV mv=V5 - %s" % (cfg, htoken(["mv"])),
    ]
    m = ctx.drv.batch(lines)
    ctx.notes["witness_probe"] = res
    ctx.notes["witness_model"] = m
    ctx.count("witness", 5)
    # char* member
    impl_cp = "ok refused" if res["cp_kind"] == "refused" else ("ub null-deref" if res["cp_null"].startswith("crash") else "ok " + res["cp_null"])
    model_cp = "ok refused" if m[0].startswith("ok refuse") else m[1]
    if impl_cp != model_cp and not (impl_cp.startswith("ok") and model_cp.startswith("ok")):
        ctx.tie_break("witness char*", "impl %s model %s" % (impl_cp, model_cp), {"witness": "WCP"})
    if impl_cp.startswith("ub"):
        ctx.violation("charptr-member-pickled-null-deref", "cdef class WCP: cdef char* s: pickle.dumps(WCP()) kills the process (%s); "
                      "pickle methods are generated for char* members (strlen(NULL) on pickling; dangling pointer after unpickling)" % res["cp_null"],
                      {"witness": "WCP", "probe": res["cp_null"]})
    # char[4] member
    impl_ca = res["ca_zero"]
    ok_ca = impl_ca.endswith("| same")
    model_ok = m[2].startswith("ok WCA")
    if ("err" in impl_ca or "crash" in impl_ca) == model_ok:
        ctx.tie_break("witness char[4]", "impl %s model %s" % (impl_ca, m[2]), {"witness": "WCA"})
    if not ok_ca:
        ctx.violation("chararr-member-does-not-roundtrip", "cdef class WCA: cdef public char a[4]: pickle.loads(pickle.dumps(WCA())) -> %s "
                      "(char[n] attribute is pickled as a NUL-terminated C string, unpickling needs exactly n bytes)" % impl_ca[:150],
                      {"witness": "WCA", "probe": impl_ca})
    # memoryview member
    if (res["mv_none"] or "ok") != m[3] and not (res["mv_none"] == "" and m[3].startswith("ok")):
        ctx.tie_break("witness memoryview (unassigned)", "impl %r model %s" % (res["mv_none"], m[3]), {"witness": "WMV"})
    if res["mv_set"] != m[4]:
        ctx.tie_break("witness memoryview (assigned)", "impl %r model %s" % (res["mv_set"], m[4]), {"witness": "WMV"})
    if res["mv_none"] != "err TypeError":
        ctx.violation("memoryview-member-unassigned-not-typeerror", "cdef class WMV: cdef public double[:] mv: pickle.dumps(WMV()) -> %r "
                      "(property: what cannot be pickled raises TypeError)" % res["mv_none"], {"witness": "WMV"})


def ce_cases():
    return [
        ("ce_ptr", [{"name": "K0", "base": None, "vars": [("p", "ptr"), ("a", "int")], "dict": False, "weakref": False,
                     "cinit": False, "reduce": None, "ap": True, "forced_error": True}], "cannot be converted"),
        ("ce_cinit", [{"name": "K0", "base": None, "vars": [("a", "int")], "dict": False, "weakref": False,
                       "cinit": True, "reduce": None, "ap": None, "forced_error": False},
                      {"name": "K1", "base": 0, "vars": [("b", "obj")], "dict": False, "weakref": False,
                       "cinit": False, "reduce": None, "ap": True, "forced_error": True}], "__cinit__"),
        ("ce_structnc", [{"name": "K0", "base": None, "vars": [("s", "structnc")], "dict": False, "weakref": False,
                          "cinit": False, "reduce": None, "ap": True, "forced_error": True}], "cannot be converted"),
    ]


def compile_error_checks(ctx, cfg, cases, specs, outs):
    """auto_pickle(True) on a class that must be refused: compile-time error with the refusal message."""
    lines = [model_decision(ctx, cfg, chain_of(cl, len(cl) - 1)) for _, cl, _ in cases]
    ms = ctx.drv.batch(lines)
    for (n, cl, msg), o, m in zip(cases, outs, ms):
        ctx.count("compile-error")
        chain = chain_of(cl, len(cl) - 1)
        orc = fmt_spec(spec_decision(chain))
        impl = "E" if isinstance(o, cybuild.BuildError) and o.stage == "cython" and msg in o.log else "-"
        ctx.seen(("ce", n))
        if impl != "E":
            ctx.violation("forced-refusal-no-compile-error-" + n, "auto_pickle(True) on an unpicklable class compiled without the expected error (%s)" % msg,
                          {"case": n, "source": specs[0]["source"][-300:]})
        if not (m.endswith(" E") and m == orc):
            ctx.tie_break("decide (forced)", "%s: model %s oracle %s impl %s" % (n, m, orc, impl), {"case": n})


def inst_for(rng, classes, k, sub):
    chain = chain_of(classes, k)
    c = chain[0]
    tname = ("PySub_" if sub else "") + c["name"]
    lay = layout_of(chain)
    lean = rng.random() < 0.25          # all object members None: 2-tuple form
    slots = [[n, gen_value(rng, t, tname, lean_none=lean)] for n, t in lay]
    has_dict = sub or any(x["dict"] for x in chain)
    d = None
    if has_dict and rng.random() < 0.7:
        d = [[key, gen_atom(rng, tname)] for key in rng.sample(["p", "q1", "extra"], rng.choice([1, 2, 3]))]
    return {"cls": c["name"], "sub": sub, "slots": slots, "dict": d, "layout": lay, "n": len(lay),
            "labels": ["p0", "p1", "p2", "p3", "p4", "p5", "copy", "deepcopy"]}


def default_state(lay):
    dv = {"obj": "N", "list": "N", "str": "N", "dict": "N", "other": "N", "bint": "b0", "double": "f0", "float": "f0",
          "struct": "D0;0", "arr": "L0;0;0"}
    return [dv.get(t, "i0") for _, t in lay]


def setstate_tests(rng, classes, k):
    """Direct `__setstate__` / `__pyx_unpickle_*` calls with malformed states."""
    chain = chain_of(classes, k)
    names = sorted(n for c in chain for n, _ in c["vars"])
    tmap = {n: t for c in chain for n, t in c["vars"]}
    lay = layout_of(chain)
    base = [gen_value(rng, tmap[n], chain[0]["name"]) for n in names]
    # no self references here, direct or through a list (the target is a fresh object)
    base = ["N" if v.endswith("#0") else v.replace("#101", "#1") for v in base]
    tests = []
    def add(state, sub=False, cs=None, tag=""):
        t = {"cls": chain[0]["name"], "sub": sub, "state": state, "layout": lay, "tag": tag}
        if cs is not None:
            t["cs"] = cs
        tests.append(t)
    add(list(base), tag="exact")
    if names:
        add(base[:-1], tag="short1")
        add([], tag="empty")
        i = rng.randrange(len(names))
        t = tmap[names[i]]
        if t in RANGES:
            add(base[:i] + ["i%d" % (RANGES[t][1] + 1)] + base[i + 1:], tag="overflow")
            add(base[:i] + ["sabc"] + base[i + 1:], tag="wrongtype")
        elif t in ("list", "dict", "str", "other"):
            add(base[:i] + ["i5"] + base[i + 1:], tag="wrongtype")
        elif t in ("double", "float", "struct", "arr"):
            add(base[:i] + ["sabc"] + base[i + 1:], tag="wrongtype")
    add(base + ["dp=i4&q1=sx"], tag="dict-nodict-or-dict")
    add(base + ["dp=i4"], sub=True, tag="dict-sub")
    add(base + ["N"], tag="extra-falsy")
    add(base + ["i5"], sub=True, tag="extra-int")
    dg = digests(names)
    for j, cs in enumerate(dg):
        add(list(base), cs=cs, tag="cs%d" % j)
    add(list(base), cs=dg[0] ^ 1, tag="cs-bad")
    add(None, cs=dg[1], tag="cs-none")
    add(list(base), cs=0, tag="cs-zero")
    return tests


def check_module(ctx, cfg, tag, classes, so, ninst):
    rng = ctx.rng
    gen_idx = []
    for k in range(len(classes)):
        chain = chain_of(classes, k)
        if spec_decision(chain)[0] == "gen":
            gen_idx.append(k)
    insts, ikeys = [], []
    for k in range(len(classes)):
        d = spec_decision(chain_of(classes, k))
        if d[0] == "nothing":
            continue
        reps = ninst if d[0] == "gen" else 1
        for r in range(reps):
            sub = rng.random() < 0.3
            if d[0] == "gen":
                insts.append(inst_for(rng, classes, k, sub))
            else:
                lay = layout_of(chain_of(classes, k))
                insts.append({"cls": classes[k]["name"], "sub": sub, "slots": [], "dict": None, "layout": None, "n": len(lay),
                              "labels": ["p0", "p2", "p5", "copy", "deepcopy"]})
            ikeys.append(k)
    sst, skeys = [], []
    for k in gen_idx:
        for t in setstate_tests(rng, classes, k):
            sst.append(t)
            skeys.append(k)
    job = {"so": so, "modname": tag, "classes": [c["name"] for c in classes], "insts": insts, "setstate": sst}
    out = run_child(ctx, job, tag)
    if "crash" in out:
        ctx.violation("module-run-crashed", "child process running the generated classes died: rc=%s %s" % (out["crash"], out["log"][-200:]),
                      {"module": tag, "source": render_module(classes)[:3000]})
        return
    rep = {"module": tag, "source": render_module(classes)[:6000], "cfg": cfg}
    # ---- decisions
    dl = [model_decision(ctx, cfg, chain_of(classes, k)) for k in range(len(classes))]
    dm = ctx.drv.batch(dl)
    for k, c in enumerate(classes):
        chain = chain_of(classes, k)
        obs, orc = out["decisions"][c["name"]], fmt_spec(spec_decision(chain))
        impl = fmt_obs(obs)
        ctx.count("decide/" + orc.split()[1])
        ctx.seen(("decide", chain_token(chain), c["ap"]), nontrivial=len(chain) > 1 or bool(c["vars"]))
        if impl != orc:
            ctx.violation("decision-%s-vs-%s" % (impl.split()[1], orc.split()[1]), "class %s (chain %s auto_pickle=%s): compiled %s, documented rule %s"
                          % (c["name"], chain_token(chain), c["ap"], impl, orc), dict(rep, cls=c["name"]))
        if dm[k] != impl:
            ctx.tie_break("decide", "class %s chain %s: model %s impl %s" % (c["name"], chain_token(chain), dm[k], impl), dict(rep, cls=c["name"]))
        if obs["kind"] == "gen":
            names = sorted(n for x in chain for n, _ in x["vars"])
            if obs.get("accepted") != digests(names):
                ctx.violation("checksum-not-digest-of-sorted-names", "class %s: accepted checksums %r, hashlib over %r gives %r"
                              % (c["name"], obs.get("accepted"), " ".join(names), digests(names)), dict(rep, cls=c["name"]))
        if obs["kind"] == "refuse" and obs.get("setstate") != "TypeError":
            ctx.violation("refused-setstate-not-typeerror", "class %s: __setstate__ of a refused class -> %s" % (c["name"], obs.get("setstate")), dict(rep, cls=c["name"]))
    # ---- instances: reduce + round trips
    lines, idx = [], []
    for j, (inst, res, k) in enumerate(zip(insts, out["insts"], ikeys)):
        chain = chain_of(classes, k)
        if "fail" in res:
            raise lib.Infra("instance construction failed: %s %r" % (res["fail"], inst))
        if inst["layout"] is None:
            for label, r in res["rt"].items():
                ctx.count("refused/" + label)
                if r != "err TypeError":
                    ctx.violation("refused-class-pickles-%s" % label, "class %s is refused but %s -> %s" % (inst["cls"], label, r), dict(rep, inst=inst))
            ctx.seen(("refused", inst["cls"], tag))
            continue
        names = sorted(n for x in chain for n, _ in x["vars"])
        tn, sl, dd = res["orig"].split(" ")
        pre = "%s %s %s" % (cfg, ap_token(chain[0]["ap"]), chain_token(chain))
        lines.append("C29 reduce %s %s %s %s %s" % (pre, tn, sl, dd, htoken(names)))
        lines.append("C29 rt %s %s %s %d %s %s %s %s" % (pre, ap_token(chain[0]["ap"]), chain_token(chain), dd != "-", tn, sl, dd, htoken(names)))
        idx.append(j)
    mo = ctx.drv.batch(lines) if lines else []
    for q, j in enumerate(idx):
        inst, res = insts[j], out["insts"][j]
        mred, mrt = mo[2 * q], mo[2 * q + 1]
        ired = res["reduce"] if res["reduce"].startswith("err") else "ok " + res["reduce"]
        form = res["reduce"].split(" ")[0]
        ctx.count("reduce/form" + form)
        if mred != ired:
            ctx.tie_break("reduce", "%s: model %s impl %s" % (res["orig"][:120], mred[:120], ired[:120]), dict(rep, inst=inst))
        cyc = "#0" in res["orig"]
        for label, r in res["rt"].items():
            ctx.count("rt/%s/%s%s%s" % (label, "sub" if inst["sub"] else "cls", "+dict" if inst["dict"] else "", "+cycle" if cyc else ""))
            ctx.seen((res["orig"], label), nontrivial=inst["n"] > 0 or bool(inst["dict"]))
            if r != "ok " + res["orig"]:
                ctx.violation("roundtrip-%s-%s" % (label, "exception" if r.startswith("err") else "attribute-mismatch"),
                              "%s of %s -> %s" % (label, res["orig"][:150], r[:150]), dict(rep, inst=inst, label=label))
            if r != mrt:
                ctx.tie_break("rt", "%s of %s: model %s impl %s" % (label, res["orig"][:100], mrt[:100], r[:100]), dict(rep, inst=inst, label=label))
        if q < 3:
            ctx.sample({"module": tag, "orig": res["orig"][:200], "reduce": ired[:200], "model_reduce": mred[:200], "model_rt": mrt[:200]})
    # ---- malformed states
    lines = []
    for t, k in zip(sst, skeys):
        chain = chain_of(classes, k)
        names = sorted(n for x in chain for n, _ in x["vars"])
        hd = int(t["sub"] or any(x["dict"] for x in chain))
        tn = ("PySub_" if t["sub"] else "") + t["cls"]
        st = "None" if t["state"] is None else (",".join(t["state"]) or "-")
        pre = "%s %s %s %s %d" % (cfg, ap_token(chain[0]["ap"]), chain_token(chain), tn, hd)
        if "cs" in t:
            lines.append("C29 unpickle %s %d %s %s" % (pre, t["cs"], st, htoken(names)))
        else:
            lines.append("C29 setstate %s %s" % (pre, st))
    mo = ctx.drv.batch(lines) if lines else []
    for t, k, m, r in zip(sst, skeys, mo, out["setstate"]):
        ctx.count("state/" + t["tag"])
        ctx.seen(("state", tag, t["cls"], t["tag"], tuple(t["state"] or ())))
        if m != r:
            ctx.tie_break("setstate/unpickle " + t["tag"], "class %s state %r cs=%s: model %s impl %s" % (t["cls"], t["state"], t.get("cs"), m[:100], r[:100]),
                          dict(rep, test=t))
        must_fail = t["tag"] in ("short1", "empty", "cs-bad", "cs-zero")
        if must_fail and r.startswith("ok"):
            ctx.violation("malformed-state-accepted-" + t["tag"], "class %s: %s with state %r cs=%s succeeded: %s" % (t["cls"], t["tag"], t["state"], t.get("cs"), r[:120]),
                          dict(rep, test=t))
        if t["tag"] in ("cs0", "cs1", "cs2", "exact") and not r.startswith("ok"):
            ctx.violation("wellformed-state-rejected-" + t["tag"], "class %s: %s with state %r -> %s" % (t["cls"], t["tag"], t["state"], r), dict(rep, test=t))


def mutate_layout(rng, classes):
    """Version B of a module: per class one of same / reorder / rename / add / remove / retype / move-to-derived."""
    import copy as _copy
    B = _copy.deepcopy(classes)
    log = []
    for k, c in enumerate(B):
        used = set(n for x in B for n, _ in x["vars"])
        free = [n for n in NAMES if n not in used]
        kind = rng.choice(["same", "reorder", "rename", "add", "remove", "retype", "move"])
        if kind == "reorder" and len(c["vars"]) > 1:
            c["vars"] = c["vars"][::-1]
        elif kind == "rename" and c["vars"] and free:
            i = rng.randrange(len(c["vars"]))
            c["vars"][i] = (rng.choice(free), c["vars"][i][1])
        elif kind == "add" and free:
            c["vars"].insert(rng.randrange(len(c["vars"]) + 1), (rng.choice(free), rng.choice(["int", "obj", "double"])))
        elif kind == "remove" and c["vars"]:
            c["vars"].pop(rng.randrange(len(c["vars"])))
        elif kind == "retype":
            c["vars"] = [(n, {"int": "long", "short": "long", "float": "double"}.get(t, t)) for n, t in c["vars"]]
        elif kind == "move" and c["base"] is not None and B[c["base"]]["vars"]:
            b = B[c["base"]]
            c["vars"].append(b["vars"].pop(rng.randrange(len(b["vars"]))))
        else:
            kind = "same"
        log.append(kind)
    return B, log


def skew_gen(rng):
    A = gen_classes(rng, rng.choice([5, 7]), allow_refused=False)
    for k, c in enumerate(A):
        c["ap"] = True if any(t == "struct" for x in chain_of(A, k) for _, t in x["vars"]) else None
    B, log = mutate_layout(rng, A)
    for k, c in enumerate(B):
        c["ap"] = True if any(t == "struct" for x in chain_of(B, k) for _, t in x["vars"]) else None
    return A, B, log


def skew_check(ctx, cfg, pairs, sos_all):
    rng = ctx.rng
    for rnd, (A, B, log) in enumerate(pairs):
        sos = sos_all[2 * rnd:2 * rnd + 2]
        if any(isinstance(s, cybuild.BuildError) for s in sos):
            e = [s for s in sos if isinstance(s, cybuild.BuildError)][0]
            ctx.tie_break("skew build", e.stage + ": " + e.log[-300:], {"A": render_module(A)[:3000], "B": render_module(B)[:3000]})
            continue
        dump = []
        for k in range(len(A)):
            for _ in range(2):
                inst = inst_for(rng, A, k, False)
                inst["protos"] = [0, 2, 5]
                dump.append((k, inst))
        oa = run_child(ctx, {"so": sos[0], "modname": "c29skew", "insts": [dict(i, labels=[]) for _, i in dump], "dump": [i for _, i in dump]}, "skewA%d" % rnd)
        if "crash" in oa:
            raise lib.Infra("skew dump child failed: " + oa["log"])
        load = [{"blobs": b, "layout": layout_of(chain_of(B, k))} for (k, _), b in zip(dump, oa["blobs"])]
        ob = run_child(ctx, {"so": sos[1], "modname": "c29skew", "load": load}, "skewB%d" % rnd)
        if "crash" in ob:
            ctx.violation("skew-load-crashed", "loading version-A pickles into version B killed the process: " + ob["log"][-200:],
                          {"A": render_module(A)[:3000], "B": render_module(B)[:3000]})
            continue
        lines = []
        for (k, inst), ra in zip(dump, oa["insts"]):
            ca, cb = chain_of(A, k), chain_of(B, k)
            na, nb = sorted(n for x in ca for n, _ in x["vars"]), sorted(n for x in cb for n, _ in x["vars"])
            tn, sl, dd = ra["orig"].split(" ")
            hdb = int(any(x["dict"] for x in cb))
            lines.append("C29 rt %s %s %s %s %s %d %s %s %s %s %s" % (cfg, ap_token(ca[0]["ap"]), chain_token(ca), ap_token(cb[0]["ap"]), chain_token(cb),
                                                                    hdb, tn, sl, dd, htoken(na), htoken(nb)))
        mo = ctx.drv.batch(lines)
        for (k, inst), ra, rb, m in zip(dump, oa["insts"], ob["loaded"], mo):
            ca, cb = chain_of(A, k), chain_of(B, k)
            na, nb = sorted(n for x in ca for n, _ in x["vars"]), sorted(n for x in cb for n, _ in x["vars"])
            rep = {"A": render_module(A)[:3000], "B": render_module(B)[:3000], "cls": A[k]["name"], "inst": inst, "mutations": log}
            same = na == nb
            tn, sl, dd = ra["orig"].split(" ")
            want = dict(x.split("=", 1) for x in sl.split(",")) if sl != "-" else {}
            for proto, r in zip(inst["protos"], rb):
                ctx.count("skew/" + ("compatible" if same else "changed"))
                ctx.seen(("skew", ra["orig"], tuple(nb), proto), nontrivial=True)
                if not same and r.startswith("ok"):
                    ctx.violation("layout-skew-accepted", "class %s pickled with members %r loaded by a version with members %r (protocol %d): %s"
                                  % (A[k]["name"], na, nb, proto, r[:150]), dict(rep, proto=proto))
                if same:
                    got = None
                    if r.startswith("ok "):
                        _, tn2, sl2, dd2 = r.split(" ")
                        got = dict(x.split("=", 1) for x in sl2.split(",")) if sl2 != "-" else {}
                    if got != want or (dd2 != dd and not (dd == "-" or dd2 == "-")):
                        ctx.violation("compatible-layout-change-breaks", "class %s: same member names %r after %s but load gives %s (pickled %s)"
                                      % (A[k]["name"], na, log[k], r[:150], ra["orig"][:150]), dict(rep, proto=proto))
                if r != m:
                    ctx.tie_break("rt (skew)", "class %s %r -> %r proto %d: model %s impl %s" % (A[k]["name"], na, nb, proto, m[:120], r[:120]), dict(rep, proto=proto))


def run(ctx):
    ctx.rule = ("random modules of cdef classes (chains of depth 1-3, 0-5 attributes per class drawn from object / list / str / dict / extension type / "
                "C integers of 5 widths / enum / bint / double / float / struct / int[3] / pointers / pointer-structs, optional __dict__, __weakref__, "
                "__cinit__, user __reduce__/__reduce_ex__, auto_pickle True/False/None), instances incl. Python-subclass instances with instance "
                "dicts, shared references and direct / indirect reference cycles; case = one (instance, protocol 0-5 | copy | deepcopy) round trip, one "
                "decision, one malformed-state call, one cross-version load; non-trivial = at least one attribute or dict entry")
    ctx.explanation = ("Theorems cover the Lean model of the decision, member ordering, reduce/unpickle/set_state and the checksum TEST; not covered by any "
                       "theorem: the digests themselves (28-bit truncations: collisions are not excluded, NoCollision is an assumption), __Pyx_setup_reduce's "
                       "runtime replacement of __reduce__ (only exercised), C-level value conversions (C05/C33), CPython's pickle/copy transport of the "
                       "reduce value, memoryview attributes, Python subclasses with __slots__, free-threading critical sections.")
    ctx.assumptions = ["NoCollision: the primary digest of one layout text equals none of the accepted digests of a different layout text (assumed only for the texts compared)",
                       "pickle / copy transport the reduce value unchanged and memoise the instance before its state"]
    nmods = ctx.n(3, 16)
    mods = [gen_classes(ctx.rng, ctx.rng.choice([8, 10, 12])) for _ in range(nmods)]
    pairs = [skew_gen(ctx.rng) for _ in range(ctx.n(1, 4))]
    cases = ce_cases()
    specs = [dict(name="c29wit", source=WITNESS_SRC)]
    specs += [dict(name=n, source=render_module(cl)) for n, cl, _ in cases]
    specs += [dict(name="c29m%d" % i, source=render_module(cl)) for i, cl in enumerate(mods)]
    for A, B, _ in pairs:
        specs += [dict(name="c29skew", source=render_module(A)), dict(name="c29skew", source=render_module(B) + "\n# B\n")]
    built = cybuild.build_many(ctx, specs)
    if isinstance(built[0], cybuild.BuildError):
        ctx.tie_break("witness build", built[0].stage + ": " + built[0].log[-400:], {"source": WITNESS_SRC})
        return
    cfg, probe = detect_cfg(ctx, built[0])
    ctx.notes["variant"] = {"ptrRefused": cfg[0] == "1", "charArrExact": cfg[1] == "1"}
    witness_checks(ctx, cfg, probe)
    compile_error_checks(ctx, cfg, cases, specs[1:4], built[1:4])
    for i, (cl, so) in enumerate(zip(mods, built[4:4 + nmods])):
        if isinstance(so, cybuild.BuildError):
            ctx.tie_break("module build", "%s: %s" % (so.stage, so.log[-400:]), {"source": render_module(cl)[:6000]})
            continue
        check_module(ctx, cfg, "c29m%d" % i, cl, so, ctx.n(3, 5))
    skew_check(ctx, cfg, pairs, built[4 + nmods:])

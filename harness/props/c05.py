"""C05 — Python int <-> C integer conversion is exact or raises.

Implementation: one `def f_T(T x): return x` per C integer type, compiled by the STAGED compiler + gcc in three
configurations (default = PyLong internals on; -DCYTHON_USE_PYLONG_INTERNALS=0; -DCYTHON_LIMITED_API=1 which selects
the chunk loop of __Pyx_LargePyLong_… and the int.from_bytes tail of CIntToPy).
Model: lean/CyVerif/Model/C05.lean through cydrv (gets the integer / the abstract slot results, the type parameters,
the platform parameters measured by a gcc probe and the `for _size in (…)` tuples extracted from the staged template).
Oracle: Python range test on operator.index(o) (value | OverflowError | TypeError as the property states).
"""
import operator
import os
import re
import subprocess
import sys
import sysconfig

import cybuild
import lib

# ---------------------------------------------------------------------------------------------------------------
# the module under test

C_DECLS = r'''
enum my_enum { ME_A = 0, ME_B = 1, ME_BIG = 100000 };
enum my_senum { MS_A = -1, MS_B = 1 };
enum my_lenum { ML_A = 0, ML_BIG = 0x10000000000 };
enum my_slenum { MSL_A = -0x10000000000, MSL_B = 1 };
typedef __int128 my_int128;
typedef unsigned __int128 my_uint128;
typedef unsigned short my_u16;
'''

# name, Cython type, C type (probe), kind
TYPES = [
    ("char", "char", "char", "cint"),
    ("schar", "signed char", "signed char", "cint"),
    ("uchar", "unsigned char", "unsigned char", "cint"),
    ("short", "short", "short", "cint"),
    ("ushort", "unsigned short", "unsigned short", "cint"),
    ("int", "int", "int", "cint"),
    ("uint", "unsigned int", "unsigned int", "cint"),
    ("long", "long", "long", "cint"),
    ("ulong", "unsigned long", "unsigned long", "cint"),
    ("longlong", "long long", "long long", "cint"),
    ("ulonglong", "unsigned long long", "unsigned long long", "cint"),
    ("ssize_t", "Py_ssize_t", "Py_ssize_t", "ssize"),
    ("size_t", "size_t", "size_t", "cint"),
    ("hash_t", "Py_hash_t", "Py_hash_t", "ssize"),
    ("ptrdiff", "ptrdiff_t", "ptrdiff_t", "cint"),
    ("td_u16", "my_u16", "my_u16", "cint"),
    ("enum", "my_enum", "enum my_enum", "enum"),
    ("senum", "my_senum", "enum my_senum", "enum"),
    ("lenum", "my_lenum", "enum my_lenum", "enum"),
    ("slenum", "my_slenum", "enum my_slenum", "enum"),
    ("i128", "my_int128", "my_int128", "cint"),
    ("u128", "my_uint128", "my_uint128", "cint"),
    ("ucs4", "Py_UCS4", "Py_UCS4", "ucs4"),
]

OBJ_SRC = '''
class IntSub(int):
    pass

def _get(v):
    if isinstance(v, type) and issubclass(v, BaseException):
        raise v()
    return v

class Idx:
    def __init__(self, v): self.v = v
    def __index__(self): return _get(self.v)

class IntOnly:
    def __init__(self, v): self.v = v
    def __int__(self): return _get(self.v)

class Both:
    def __init__(self, v): self.v = v
    def __int__(self): return _get(self.v)
    def __index__(self): return _get(self.v)

class StrSub(str):
    pass
'''

PYX = '''
cdef extern from *:
    """
%(cdecls)s
    """
    enum my_enum:
        ME_A
        ME_B
        ME_BIG
    enum my_senum:
        MS_A
        MS_B
    enum my_lenum:
        ML_A
        ML_BIG
    enum my_slenum:
        MSL_A
        MSL_B
    ctypedef long long my_int128
    ctypedef unsigned long long my_uint128
    ctypedef unsigned int my_u16

%(funcs)s

def f_ucs4(Py_UCS4 x): return <long>x
%(objsrc)s
def _verif_env():
    return {"IntSub": IntSub, "Idx": Idx, "IntOnly": IntOnly, "Both": Both, "StrSub": StrSub}
'''


def module_source():
    funcs = "\n".join("def f_%s(%s x): return x" % (n, cy) for n, cy, _, k in TYPES if k != "ucs4")
    return PYX % {"cdecls": "\n".join("    " + l for l in C_DECLS.strip().split("\n")), "funcs": funcs, "objsrc": OBJ_SRC}


UBSAN = ["-fsanitize=shift", "-fno-sanitize-recover=shift"]
CONFIGS = [
    # name, cflags, ldflags, model cfg token <internals><large b|c><typeSlots><indexFallback (from the source)><gccShift>, reduced input set
    ("default", [], [], "1b1%d1", False),
    ("internals-off", ["-DCYTHON_USE_PYLONG_INTERNALS=0"], [], "0b1%d1", False),
    ("limited-api", ["-DCYTHON_LIMITED_API=1"], [], "0c0%d1", False),
    # UBSan builds: the model is asked for strict C99 shift semantics (gccShift = 0); a UBSan abort is the
    # implementation-side observation of the model outcome `ub …`
    ("default+ubsan", UBSAN, ["-fsanitize=shift"], "1b1%dS", True),
    ("internals-off+ubsan", ["-DCYTHON_USE_PYLONG_INTERNALS=0"] + UBSAN, ["-fsanitize=shift"], "0b1%dS", True),
    ("limited-api+ubsan", ["-DCYTHON_LIMITED_API=1"] + UBSAN, ["-fsanitize=shift"], "0c0%dS", True),
]

# ---------------------------------------------------------------------------------------------------------------
# platform probe (gcc, independent of Cython)


def probe(ctx):
    d = os.path.join(ctx.scratch, "probe")
    os.makedirs(d, exist_ok=True)
    src = "#include <Python.h>\n#include <stdio.h>\n#include <stddef.h>\n" + C_DECLS
    src += "#define P(n, T) printf(\"%s %zu %d\\n\", n, sizeof(T), (((T)-1) < ((T)0)) ? 1 : 0);\n"
    src += "int main(void) {\n printf(\"shift %d 0\\n\", (int)PyLong_SHIFT);\n"
    for n, _, ct, _ in TYPES:
        src += " P(\"%s\", %s)\n" % (n, ct)
    src += " P(\"_int\", int) P(\"_long\", long) P(\"_ll\", long long) P(\"_size\", size_t)\n return 0; }\n"
    open(os.path.join(d, "probe.c"), "w").write(src)
    p = subprocess.run(["gcc", "-w", "-I" + sysconfig.get_paths()["include"], "probe.c", "-o", "probe"], cwd=d,
                       stdout=subprocess.PIPE, stderr=subprocess.STDOUT, text=True)
    if p.returncode != 0:
        raise lib.Infra("platform probe does not compile: " + p.stdout[-500:])
    out = subprocess.run([os.path.join(d, "probe")], stdout=subprocess.PIPE, text=True).stdout
    info = {}
    for line in out.strip().split("\n"):
        n, a, b = line.split()
        info[n] = (int(a), int(b))
    if info["shift"][0] != sys.int_info.bits_per_digit:
        raise lib.Infra("PyLong_SHIFT of the headers differs from the running interpreter")
    return info


# ---------------------------------------------------------------------------------------------------------------
# template parameters `G`: the `for _size in (…)` tuples of the staged TypeConversion.c

DEFAULT_TMPL = ([2, 3, 4], [2, 3, 4], [2, 3, 4], [1, 2, 3, 4])


def extract_template(ctx):
    """Returns ((sizesU, sizesSNeg, sizesSPos, sizesSsize), problem-or-None)."""
    try:
        txt = open(os.path.join(ctx.stage, "Cython", "Utility", "TypeConversion.c")).read()

        def section(start, end):
            a = txt.index(start)
            b = txt.index(end, a + len(start))
            return txt[a:b]

        def tuples(seg):
            res = []
            for m in re.finditer(r"\{\{for\s+_size\s+in\s+\(([^)]*)\)\s*\}\}", seg):
                res.append([int(x) for x in m.group(1).replace(" ", "").split(",") if x != ""])
            return res
        ss = tuples(section("static CYTHON_INLINE Py_ssize_t __Pyx_PyLong_AsSsize_t(", "static CYTHON_INLINE Py_ssize_t __Pyx_PyIndex_AsSsize_t("))
        cfp = section("/////////////// CIntFromPy ///////////////", "static CYTHON_INLINE {{TYPE}} {{FROM_PY_FUNCTION}}(PyObject *x) {")
        u = tuples(cfp[cfp.index("__Pyx_PyULong_{{FROM_PY_FUNCTION}}(PyObject *x) {"):cfp.index("__Pyx_PySLong_{{FROM_PY_FUNCTION}}(PyObject *x) {")])
        s = tuples(cfp[cfp.index("__Pyx_PySLong_{{FROM_PY_FUNCTION}}(PyObject *x) {"):cfp.index("static {{TYPE}} __Pyx_LargePyLong_{{FROM_PY_FUNCTION}}(PyObject *x) {")])
        if len(ss) != 1 or len(u) != 1 or len(s) != 2:
            return DEFAULT_TMPL, "expected 1/1/2 `for _size in (…)` loops in AsSsize_t/PyULong/PySLong, found %d/%d/%d" % (len(ss), len(u), len(s))
        return (u[0], s[0], s[1], ss[0]), None
    except Exception as e:   # the translator does not understand the source any more: broken tie, not a crash
        return DEFAULT_TMPL, "template extraction failed: %r" % (e,)


def extract_index_fallback(ctx):
    """Does __Pyx_PyNumber_Long (type-slot branch) consult nb_index / PyNumber_Index?  (not in the pinned source)"""
    try:
        txt = open(os.path.join(ctx.stage, "Cython", "Utility", "TypeConversion.c")).read()
        a = txt.index("static CYTHON_INLINE PyObject* __Pyx_PyNumber_Long(PyObject* x) {")
        body = txt[a:txt.index("\n}\n", a)]
        a = body.index("m = Py_TYPE(x)->tp_as_number;")
        slots = body[a:body.index("#else", a)]
        return 1 if ("nb_index" in slots or "PyNumber_Index" in slots) else 0, None
    except Exception as e:
        return 0, "cannot locate the type-slot branch of __Pyx_PyNumber_Long: %r" % (e,)


def extract_signbit_shift(ctx):
    """Is the expression `((T) 1) << (sizeof(T) * 8 - 1)` still in the chunk loop of __Pyx_LargePyLong_…?"""
    try:
        txt = open(os.path.join(ctx.stage, "Cython", "Utility", "TypeConversion.c")).read()
        a = txt.index("static {{TYPE}} __Pyx_LargePyLong_{{FROM_PY_FUNCTION}}(PyObject *x) {")
        body = re.sub(r"\s+", "", txt[a:txt.index("static CYTHON_INLINE {{TYPE}} __Pyx_PyLong_{{FROM_PY_FUNCTION}}(PyObject *x) {", a)])
        return ("1)<<(sizeof({{TYPE}})*8-1)" in body), None
    except Exception as e:
        return True, "cannot locate __Pyx_LargePyLong_…: %r" % (e,)


def tmpl_token(t):
    return ";".join(".".join(str(x) for x in xs) if xs else "-" for xs in t)


# ---------------------------------------------------------------------------------------------------------------
# inputs

_ns = {}
exec(OBJ_SRC, _ns)
IntSub = _ns["IntSub"]


def boundary_ints():
    vals = set()
    for k in range(0, 10):
        for base in (2 ** (15 * k), 2 ** (30 * k)):
            for dlt in (-1, 0, 1):
                vals.add(base + dlt)
                vals.add(-base + dlt)
    for w in (7, 8, 15, 16, 31, 32, 62, 63, 64, 127, 128):
        for dlt in (-2, -1, 0, 1, 2):
            vals.add(2 ** w + dlt)
            vals.add(-(2 ** w) + dlt)
    for v in (0, 1, -1, 2, -2, 1114110, 1114111, 1114112, 100000, 0x10000000000, -0x10000000000, 2 ** 200, -2 ** 200):
        vals.add(v)
    return sorted(vals)


def random_ints(rng, n):
    out = []
    for _ in range(n):
        r = rng.random()
        if r < 0.5:
            bits = rng.randrange(0, 201)
            v = rng.getrandbits(bits) if bits else 0
        elif r < 0.85:
            k = rng.randrange(0, 201)
            v = 2 ** k + rng.randrange(-3, 4)
        else:   # all-ones / sparse digit patterns
            nd = rng.randrange(1, 7)
            v = 0
            for i in range(nd):
                v |= rng.choice((0, 1, 2 ** 30 - 1, 2 ** 29, rng.getrandbits(30))) << (30 * i)
        out.append(-v if rng.random() < 0.5 else v)
    return out


def object_sources(small):
    """Python expressions (evaluated in the child with the module's classes and here with the same classes)."""
    src = ["True", "False"]
    for v in small:
        src.append("IntSub(%d)" % v)
    for v in small[:14]:
        src += ["Idx(%d)" % v, "IntOnly(%d)" % v, "Both(%d)" % v]
    src += ["Idx('x')", "Idx(1.5)", "Idx(None)", "Idx(ValueError)", "Idx(IntSub(3))", "Idx(True)", "Idx(IntSub(2**70))",
            "IntOnly('x')", "IntOnly(1.5)", "IntOnly(ValueError)", "IntOnly(IntSub(3))", "IntOnly(True)", "IntOnly(None)",
            "Both(ValueError)", "Both(2**70)", "Both(-2**70)",
            "0.0", "-0.0", "1.0", "1.5", "-1.5", "127.9", "255.0", "1e10", "-1e10", "1e30", "-1e30", "2.0**63", "float('inf')", "float('nan')",
            "'a'", "'12'", "''", "b'a'", "b'12'", "bytearray(b'12')", "StrSub('12')", "None", "[]", "(1,)", "1j", "object()"]
    return src


def slot_of_call(fn):
    try:
        r = fn()
    except BaseException as e:
        return "raise:" + type(e).__name__
    if type(r) is int:
        return "exact:%d" % r
    if isinstance(r, int):
        return "sub:%d" % int.__index__(r)
    return "nonint"


def describe(o):
    """Model input for the object: `int v` or the results of the three number-protocol entry points."""
    if isinstance(o, int):
        return "int %d" % int.__index__(o)
    ty = type(o)
    nb_int = slot_of_call(lambda: ty.__int__(o)) if hasattr(ty, "__int__") else "absent"
    idx = slot_of_call(lambda: operator.index(o))
    num = slot_of_call(lambda: int(o))
    sb = "1" if ty in (str, bytes) else "0"
    return "other %s %s %s %s" % (nb_int, idx, num, sb)


def oracle(o, lo, hi):
    """The property: the integer value if it fits, OverflowError if not, TypeError if the object is not an integer."""
    if isinstance(o, int):
        v = int.__index__(o)
    else:
        try:
            v = operator.index(o)
        except TypeError:
            return "err TypeError"
        except BaseException as e:      # raised by the object's own __index__: propagates
            return "err " + type(e).__name__
        v = int.__index__(v)
    return "ok int:%d" % v if lo <= v <= hi else "err OverflowError"


def classify(o):
    if type(o) is bool:
        return "bool"
    if type(o) is int:
        return "int"
    if isinstance(o, int):
        return "int-subclass"
    if isinstance(o, float):
        return "float"
    return type(o).__name__


# ---------------------------------------------------------------------------------------------------------------


def run(ctx):
    import warnings
    warnings.simplefilter("ignore", DeprecationWarning)
    info = probe(ctx)
    S = info["shift"][0]
    plat = "%d,%d,%d,%d,%d" % (S, info["_int"][0], info["_long"][0], info["_ll"][0], info["_size"][0])
    tmpl, tmpl_problem = extract_template(ctx)
    ttok = tmpl_token(tmpl)
    ixfb, ix_problem = extract_index_fallback(ctx)
    ctx.notes["nb_index_fallback_in_source"] = bool(ixfb)
    signbit_shift, sb_problem = extract_signbit_shift(ctx)
    ctx.notes["signbit_shift_in_chunk_loop"] = bool(signbit_shift)
    ctx.notes["platform"] = {"PyLong_SHIFT": S, "sizeof": {k: v[0] for k, v in info.items() if k != "shift"},
                             "signed": {k: v[1] for k, v in info.items() if k != "shift"}}
    ctx.notes["template_sizes"] = {"PyULong": tmpl[0], "PySLong_neg": tmpl[1], "PySLong_pos": tmpl[2], "AsSsize_t": tmpl[3]}
    ctx.rule = ("cases (configuration, C type, Python object): every digit-count boundary +-2^(15k)+{-1,0,1}, +-2^(30k)+{-1,0,1} (k<=9), "
                "type bounds 2^w+{-2..2} for w in 7..128, seeded random ints up to 2^200 (uniform bit length / near powers of two / "
                "extreme digit patterns), bools, int-subclass instances, objects with __index__ / __int__ / both returning boundary "
                "values, subclasses, non-ints or raising, floats, str/bytes/None/other; non-trivial = |value| >= 2^PyLong_SHIFT or "
                "not an exact int; distinct by (configuration, type, input expression)")
    ctx.explanation = ("Theorems cover, for ints (PyLong_Check objects) of ANY magnitude and every (sizeof, signedness, platform): "
                       "from-Python = value if in range else OverflowError, never UB, in all three build configurations, and "
                       "to-Python o from-Python = identity. NOT covered by a theorem: which number-protocol slot a non-int object "
                       "is converted through and what that slot returns (abstract callback in the model; __index__/__int__/float/str "
                       "behaviour is only differentially checked), the CPython C-API functions (modelled by their documented "
                       "specification), the generated call site for types other than those of the test module.")
    ctx.assumptions = ["LP64-style platform facts measured by a gcc probe at start-up and passed to the model: " + plat,
                       "two's complement, little endian; out-of-range conversion to a signed C type wraps (gcc)",
                       "DeprecationWarning for __int__/__index__ returning an int subclass is not turned into an error"]
    ctx.extra_trusted = ["CPython C-API specifications used in the model: PyLong_AsLong/AsUnsignedLong/AsLongLong/AsUnsignedLongLong/"
                         "AsSsize_t, _PyLong_AsByteArray/_PyLong_FromByteArray, PyLong_From*, int &, >>, ~",
                         "regex extraction of the `for _size in (...)` tuples from TypeConversion.c (echoed in notes.template_sizes)"]

    # --- G: the proved theorems need Plat.WF for the measured platform
    ctx.lean_obligation("CyVerif.C05.Plat.WF current-platform",
                        "import CyVerif.Props.C05\nopen CyVerif.C05 in\nexample : Plat.WF ⟨%s⟩ := by decide\n" % plat.replace(",", ", "),
                        "platform parameters %s measured by the gcc probe satisfy the hypothesis Plat.WF of the theorems" % plat)
    if tmpl_problem:
        ctx.tie_break("G template extraction", tmpl_problem, {"problem": tmpl_problem})
    if sb_problem:
        ctx.tie_break("G __Pyx_LargePyLong extraction", sb_problem, {"problem": sb_problem})
    if ix_problem:
        ctx.tie_break("G __Pyx_PyNumber_Long extraction", ix_problem, {"problem": ix_problem})

    # --- builds
    src = module_source()
    specs = []
    opts = ["-O0"] if ctx.quick else ["-O0", "-O2"]
    # quick tier: the three configurations + the UBSan build that replays the strict-C99 finding; thorough: all six, -O0 and -O2
    configs = [c for c in CONFIGS if not ctx.quick or "+ubsan" not in c[0] or c[0] == "limited-api+ubsan"]
    for cname, cflags, ldflags, ctok, reduced in configs:
        for opt in opts:
            specs.append(dict(name="c05_" + re.sub(r"[^a-z0-9]", "_", cname) + opt.replace("-", "_"), source=src, cflags=list(cflags),
                              ldflags=list(ldflags), opt=opt))
    built = cybuild.build_many(ctx, specs)
    mods = []
    k = 0
    for cname, cflags, ldflags, ctok, reduced in configs:
        for opt in opts:
            so = built[k]
            k += 1
            if isinstance(so, cybuild.BuildError):
                ctx.tie_break("D-c build %s %s" % (cname, opt), so.stage + ": " + so.log[-600:], {"config": cname, "opt": opt})
                continue
            # strict C99 semantics for the UBSan builds as long as the shift into the sign bit is in the source
            mods.append((cname + ("" if opt == "-O0" else "/O2"), (ctok % ixfb).replace("S", "0" if signbit_shift else "1"), so, reduced))
    if not mods:
        return

    # --- inputs
    rp = ctx.replay_case["case"] if getattr(ctx, "replay_case", None) and isinstance(ctx.replay_case.get("case"), dict) else None
    ranges = {}
    for n, _, _, kind in TYPES:
        b, sg = info[n]
        ranges[n] = (0, 0x10FFFF) if kind == "ucs4" else ((-2 ** (8 * b - 1), 2 ** (8 * b - 1) - 1) if sg else (0, 2 ** (8 * b) - 1))
    if rp and "inputs" in rp:
        per_type = {n: list(rp["inputs"]) for n, _, _, _ in TYPES if n == rp.get("type", n)}
        only_cfg = rp.get("config")
    else:
        only_cfg = None
        n_fixed = {}
        corpus = {}
        cdir = os.path.join(lib.VERIF, "corpus", "C05")
        if os.path.isdir(cdir):
            import json
            for fn in sorted(os.listdir(cdir)):
                if fn.endswith(".json"):
                    for tn, expr in json.load(open(os.path.join(cdir, fn))).get("cases", []):
                        corpus.setdefault(tn, []).append(expr)
        bints = boundary_ints()
        small = [0, 1, -1, 127, 128, 255, 256, -128, -129, 2 ** 31 - 1, 2 ** 31, -2 ** 31, -2 ** 31 - 1, 2 ** 32, 2 ** 63 - 1, 2 ** 63,
                 -2 ** 63, -2 ** 63 - 1, 2 ** 64 - 1, 2 ** 64, 2 ** 127, -2 ** 127, 2 ** 128 - 1, 2 ** 128, 5, 1114112]
        common = ["%d" % v for v in bints] + object_sources(small)
        rnd = ["%d" % v for v in random_ints(ctx.rng, ctx.n(1000, 12000))]
        per_type = {}
        for n, _, _, kind in TYPES:
            lo, hi = ranges[n]
            own = []
            for edge in (lo, hi):
                own += ["%d" % (edge + d) for d in (-2, -1, 0, 1, 2)]
            for _ in range(ctx.n(40, 600)):   # in-range values of this type (round trip through CIntToPy)
                own.append("%d" % ctx.rng.randint(lo, hi))
                own.append("%d" % (ctx.rng.choice((lo, hi)) + ctx.rng.randrange(-2 ** 12, 2 ** 12)))
            srcs = corpus.get(n, []) + common + own + rnd
            n_fixed[n] = len(corpus.get(n, [])) + len(common) + 10
            if kind == "ucs4":   # str -> code point is a different conversion (not part of C05)
                srcs = [s for s in srcs if not (s.startswith(("'", "StrSub")))]
            per_type[n] = srcs

    evalenv = dict(_ns)
    vseen = {}
    if rp and "inputs" in rp:
        n_fixed = {n: 0 for n, _, _, _ in TYPES}

    def run_round(per_type_inputs, mods_sel, tag):
        """Three-way over all (module, type, input).  Returns list of (config, type) with a broken tie."""
        broken = []
        kinds = {n: k for n, _, _, k in TYPES}
        # model + oracle inputs per (type, src) are configuration independent except for the cfg token
        for cname, ctok, so, reduced in mods_sel:
            if only_cfg and cname != only_cfg:
                continue
            cases, lines, meta = [], [], []
            for n in per_type_inputs:
                b, sg = info[n]
                kind = kinds[n]
                inputs_n = per_type_inputs[n]
                if reduced and tag == "main" and not rp:
                    inputs_n = inputs_n[:n_fixed[n]] + inputs_n[n_fixed[n]::5]
                for s in inputs_n:
                    o = eval(s, evalenv)
                    desc = describe(o)
                    if kind == "ssize":
                        lines.append("C05 ssize %s %s %s %s" % (plat, ttok, ctok, desc))
                    elif kind == "ucs4":
                        lines.append("C05 ucs4 %s %s %s %s" % (plat, ttok, ctok, desc))
                    else:
                        lines.append("C05 frompy %s %s %s %d %d %d %s" % (plat, ttok, ctok, b, sg, 1 if kind == "enum" else 0, desc))
                    cases.append(("f_" + n, "(%s,)" % s))
                    meta.append((n, s, o))
            mout = ctx.drv.batch(lines)
            # a predicted abort costs a child restart: replay only a handful per configuration on the implementation
            nub = 0
            keep = []
            for i, m in enumerate(mout):
                if m.startswith("ub "):
                    nub += 1
                    if nub > 6:
                        continue
                keep.append(i)
            if len(keep) != len(mout):
                ctx.notes.setdefault("skipped_predicted_aborts", {})[cname] = len(mout) - len(keep)
                cases = [cases[i] for i in keep]
                meta = [meta[i] for i in keep]
                mout = [mout[i] for i in keep]
            # to-Python leg of the model for every value the from-Python model returns
            tlines, tidx = [], []
            for i, m in enumerate(mout):
                if m.startswith("ok "):
                    n = meta[i][0]
                    b, sg = info[n]
                    if kinds[n] == "ssize":
                        b, sg = info["_size"][0], 1
                    if kinds[n] == "ucs4":
                        b, sg = info["_long"][0], 1      # `return <long>x`
                    tlines.append("C05 topy %s %d %d %s" % (plat, b, sg, m.split()[1]))
                    tidx.append(i)
            tout = ctx.drv.batch(tlines) if tlines else []
            tmap = dict(zip(tidx, tout))
            iout = cybuild.run_cases(ctx, so, cases)
            for i, ((n, s, o), m, impl) in enumerate(zip(meta, mout, iout)):
                lo, hi = ranges[n]
                orc = oracle(o, lo, hi)
                mparts = m.split()
                path = mparts[2] if len(mparts) > 2 else "-"
                tpath = None
                if mparts[0] == "ok":
                    t = tmap[i].split()
                    model = "ok int:%s" % t[1] if t[0] == "ok" else "model-topy " + tmap[i]
                    tpath = t[2] if len(t) > 2 else "-"
                elif mparts[0] == "err":
                    model = "err " + mparts[1]
                else:
                    model = m
                    if mparts[0] == "ub" and "+ubsan" in cname and impl.startswith("crash"):
                        model = impl        # UBSan aborts exactly where the model reports undefined behaviour
                cls = classify(o)
                ctx.count("%s|%s|%s" % (cname.split("/")[0], kinds[n], path))
                if tpath:
                    ctx.dist["%s|to-py|%s" % (cname.split("/")[0], tpath)] = ctx.dist.get("%s|to-py|%s" % (cname.split("/")[0], tpath), 0) + 1
                nontriv = not (type(o) is int and abs(o) < 2 ** S)
                ctx.seen((cname, n, s), nontrivial=nontriv)
                if nontriv and cls != "int" or (i % 997 == 0):
                    ctx.sample({"config": cname, "type": n, "input": s, "impl": impl, "model": m, "oracle": orc}, cap=12)
                if impl != orc:
                    key = violation_key(cname, kinds[n], cls, o, impl, orc)
                    vseen[key] = vseen.get(key, 0) + 1
                    if vseen[key] <= 2:
                        ctx.violation(key, "%s f_%s(%s) = %s, property requires %s [model: %s]" % (cname, n, s[:80], impl, orc, m),
                                      {"config": cname, "type": n, "inputs": [s], "impl": impl, "oracle": orc, "model": m,
                                       "module_source": src, "cflags": [c for c in CONFIGS if c[0] == cname.split("/")[0]][0][1]})
                if model != impl:
                    ctx.tie_break("D-c %s f_%s vs CyVerif.C05 (%s)" % (cname, n, path), "input %s: model %s impl %s oracle %s" % (s[:80], model, impl, orc),
                                  {"config": cname, "type": n, "inputs": [s], "impl": impl, "model": m})
                    if (cname, n) not in broken:
                        broken.append((cname, n))
        return broken

    broken = run_round(per_type, mods, "main")
    ctx.notes["violations_by_key"] = dict(sorted(vseen.items()))
    if broken and not rp:
        # search harder around a broken correspondence: dense neighbourhoods of every digit/type boundary + more random ints
        extra_common = []
        for kx in range(0, 140):
            for d in range(-4, 5):
                extra_common.append("%d" % (2 ** kx + d))
                extra_common.append("%d" % (-(2 ** kx) + d))
        extra_common += ["%d" % v for v in random_ints(ctx.rng, ctx.n(6000, 40000))]
        sel_types = sorted(set(n for _, n in broken))
        sel_mods = [m for m in mods if any(m[0] == c for c, _ in broken)]
        run_round({n: extra_common for n in sel_types}, sel_mods, "search")


def violation_key(cname, kind, cls, o, impl, orc):
    """Stable key of the failing call site / input class."""
    cfg = cname.split("/")[0]
    if impl.startswith("crash") and "+ubsan" in cfg:
        return "%s-%s-ubsan-abort" % (cfg, kind)
    cfg = cfg.replace("+ubsan", "")
    if kind == "ssize":      # a different conversion function (__Pyx_PyIndex_AsSsize_t): never share a key with CIntFromPy
        return "ssize-%s-%s" % (cfg, cls)
    if cls == "float" and orc == "err TypeError":
        return "float-accepted-via-nb_int" if cfg != "limited-api" else "float-accepted-via-PyNumber_Long"
    if not isinstance(o, int):
        has_index = hasattr(type(o), "__index__")
        has_int = hasattr(type(o), "__int__")
        if has_index and not has_int and impl == "err TypeError":
            return "index-only-object-rejected"
        if has_int and not has_index and orc == "err TypeError":
            return "int-only-object-accepted-via-nb_int" if cfg != "limited-api" else "int-only-object-accepted-via-PyNumber_Long"
        if orc == "err TypeError" and impl.startswith("ok"):
            return "%s-%s-parsed-as-number" % (cfg, cls)
        return "%s-%s-nonint-%s" % (cfg, kind, cls)
    return "%s-%s-int" % (cfg, kind)

"""C43 generators of abstract physical-line streams: (ws over 's','t','f'; body over 'o()[]{}'; fin in 'ncbE')."""
import itertools

WS_SMALL = ["", "s", "ss", "t", "ts", "fs"]
BODY_SMALL = ["", "o", "(", ")"]
WS_ODD = ["", "s", "ss", "sss", "ssss", "ssssssss", "t", "tt", "ts", "st", "tss", "sssst", "f", "fss", "ssf", "sfs",
          "ft", "tf", "sssssssst", "tssssssss"]
BODIES = ["o", "o", "oo", "ooo", "o(o", "o)", "(", ")", "[", "]", "{", "}", "o(o)o", "o[o(o)]", "o(]", "o[)", "((", "))",
          "o{ooo}", "(o", "o)o", "", "", "o(oo", "o]o"]
CORPUS = [
    # (name, lines)
    ("plain-block", [("", "ooo", "n"), ("ssss", "o", "n"), ("", "o", "n")]),
    ("tabs-then-spaces-blocks", [("", "ooo", "n"), ("t", "o", "n"), ("", "ooo", "n"), ("ssssssss", "o", "n")]),
    ("space-tab-indent", [("", "ooo", "n"), ("st", "o", "n")]),
    ("tab-vs-8-spaces", [("", "ooo", "n"), ("t", "o", "n"), ("ssssssss", "o", "n")]),
    ("8-spaces-vs-tab", [("", "ooo", "n"), ("ssssssss", "o", "n"), ("t", "o", "n")]),
    ("dedent-unknown", [("", "ooo", "n"), ("ssss", "o", "n"), ("ss", "o", "n")]),
    ("stray-close", [("", "o)", "n"), ("", "o", "n")]),
    ("eof-in-bracket", [("", "o(", "n"), ("", "o", "n")]),
    ("backslash-eof", [("", "oo", "E")]),
    ("backslash-nl-eof", [("", "oo", "b")]),
    ("backslash-nl-blank", [("", "oo", "b"), ("", "", "n")]),
    ("ff-before-indent", [("", "ooo", "n"), ("fssss", "o", "n")]),
    ("ff-after-indent", [("", "ooo", "n"), ("ssss", "o", "n"), ("ssssf", "o", "n")]),
    ("lead-cont-blank", [("sss", "", "b"), ("", "", "n")]),
    ("lead-cont-indent", [("", "ooo", "n"), ("sss", "", "b"), ("s", "o", "n")]),
    ("lead-cont-deeper", [("", "ooo", "n"), ("s", "o", "n"), ("sss", "", "b"), ("ss", "o", "n")]),
    ("col0-cont", [("", "o", "n"), ("", "", "b"), ("ss", "o", "n")]),
    ("comments-odd", [("", "ooo", "n"), ("ss", "o", "n"), ("ss", "", "c"), ("s", "", "c"), ("sss", "", "c"), ("", "", "c"),
                      ("ss", "o", "n")]),
    ("bracket-lines", [("", "o(", "n"), ("sssss", "o", "c"), ("t", "", "n"), ("", "o)", "n"), ("", "o", "n")]),
    ("mismatch", [("", "(]", "n")]),
    ("dedent-to-zero-eof", [("", "ooo", "n"), ("ss", "ooo", "n"), ("ssss", "o", "n")]),
    ("nested-neg", [("", "))", "n"), ("ss", "((", "n"), ("", "o", "n")]),
    ("mixed-in-bracket", [("", "o(", "n"), ("ts", "o", "n"), ("st", "o)", "n"), ("", "o", "n")]),
    ("first-indent-tab-then-tab", [("", "ooo", "n"), ("t", "ooo", "n"), ("tt", "o", "n"), ("t", "o", "n")]),
    ("blank-ws-only-last", [("", "ooo", "n"), ("ss", "o", "n"), ("ss", "", "n")]),
    ("indented-first-line", [("ss", "o", "n"), ("", "o", "n")]),
]


def deep_cases():
    nest = [("", "ooo", "n")] + [("s" * i, "ooo", "n") for i in range(1, 101)] + [("s" * 101, "o", "n")]
    ok99 = [("", "ooo", "n")] + [("s" * i, "ooo", "n") for i in range(1, 99)] + [("s" * 99, "o", "n")]
    return [("indent-101", nest), ("indent-99", ok99),
            ("brackets-201", [("", "o" + "(" * 201 + ")" * 201, "n")]),
            ("brackets-200", [("", "o" + "(" * 200 + ")" * 200, "n")]),
            ("brackets-200-lines", [("", "o" + "([{" * 66, "n"), ("ss", "o", "n"), ("", "}])" * 66, "n")])]


def exhaustive(nlines, header):
    alpha = [(w, b, f) for w in WS_SMALL for b in BODY_SMALL for f in "ncbE"]
    pre = [("", "ooo", "n")] if header else []
    for combo in itertools.product(alpha, repeat=nlines):
        yield pre + list(combo)


def soup(rng):
    """random stream; indentation mostly follows a plausible stack so that many inputs are accepted"""
    style = rng.choice(("s", "s", "t", "mix", "odd"))
    levels = [""]
    lines = []
    n = rng.randint(1, 9)
    for i in range(n):
        r = rng.random()
        if style == "odd" or r < 0.12:
            ws = rng.choice(WS_ODD)
        elif r < 0.5:
            ws = levels[-1]
        elif r < 0.75:
            unit = {"s": rng.choice(("s", "ss", "ssss")), "t": "t"}.get(style) or rng.choice(("s", "ss", "t", "ssss", "st", "ts"))
            ws = levels[-1] + unit
            levels.append(ws)
        else:
            k = rng.randrange(len(levels))
            levels = levels[:k + 1]
            ws = levels[-1]
            if rng.random() < 0.15:
                ws = ws[:-1] if ws else "s"
        if rng.random() < 0.04:
            ws = rng.choice(("f", "")) + ws + rng.choice(("", "f"))
        body = rng.choice(BODIES)
        fin = rng.choice("nnnnnnccbb")
        if i == n - 1 and rng.random() < 0.1:
            fin = "E"
        lines.append((ws, body, fin))
    return lines


# ---------------------------------------------------------------------------------------------
# program-shaped streams: valid Python whenever the layout is valid (names are defined, blocks follow ':')

def program(rng, exotic):
    lines = [("", ["x", "=", "0"], "n")]
    units_plain = rng.choice((["    "], ["\t"], ["  "], [" "], ["        "]))
    units = units_plain if not exotic else ["    ", "\t", "  ", " \t", "\t ", "\t\t", "        "]

    def any_ws():
        return rng.choice(("", " ", "   ", "\t", " \t ", "      ", "\f", " \f"))

    def filler(ind):
        r = rng.random()
        if r < 0.15:
            lines.append((any_ws(), [], "c"))
        elif r < 0.25:
            lines.append((any_ws(), [], "n"))

    def block(ind, depth):
        for _ in range(rng.randint(1, 3)):
            filler(ind)
            r = rng.random()
            w = ind
            if exotic and rng.random() < 0.08:
                w = "\f" + ind
            if r < 0.3:
                lines.append((w, ["x", "=", "1"], rng.choice("nnc")))
            elif r < 0.5:
                op, cl = rng.choice((("(", ")"), ("[", "]"), ("{", "}")))
                lines.append((w, ["x", "=", op, "1", ","], rng.choice("nc")))
                for _ in range(rng.randint(0, 2)):
                    lines.append((any_ws(), rng.choice((["2", ","], [], ["(", "3", ")", ","])), rng.choice("nnc")))
                lines.append((any_ws(), [cl], "n"))
            elif r < 0.62:
                lines.append((w, ["x", "=", "1", "+"], "b"))
                if rng.random() < 0.3:
                    lines.append((any_ws(), ["2", "+"], "b"))
                lines.append((any_ws(), ["3"], "n"))
            elif r < 0.66 and exotic:
                lines.append((w, [], "b"))
                lines.append((rng.choice(("", " ", "  ")), ["x", "=", "4"], "n"))
            elif depth < 4:
                lines.append((w, [rng.choice(("if", "while")), "x", ":"], rng.choice("nnc")))
                block(ind + rng.choice(units), depth + 1)
                if rng.random() < 0.3:
                    lines.append((ind, ["else", ":"], "n"))
                    block(ind + rng.choice(units), depth + 1)
            else:
                lines.append((w, ["pass"], "n"))
    block("", 0)
    return lines


def program_text(lines, eol="\n", strip_final=False):
    out = []
    for ws, toks, fin in lines:
        s = ws + " ".join(toks)
        s += {"n": eol, "c": ("  " if toks else "") + "# c" + eol, "b": (" " if toks else "") + "\\" + eol}[fin]
        out.append(s)
    text = "".join(out)
    if strip_final and lines[-1][2] in "nc" and (lines[-1][1] or lines[-1][2] == "c"):
        text = text[:-len(eol)]
    return text


def program_abstract(lines):
    inv = {" ": "s", "\t": "t", "\f": "f"}
    return [("".join(inv[c] for c in ws), "".join(t if t in "()[]{}" else "o" for t in toks), fin) for ws, toks, fin in lines]

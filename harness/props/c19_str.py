"""C19 part 4: string / bytes comparison and membership helpers.  Three-way: compiled module, Lean model
(`C19 equchar|ucontains|bcontains|beq|bord`), CPython."""
import cybuild
import lib

CAP = 300


def cap(s, n=CAP):
    s = str(s)
    return s if len(s) <= n else s[:n] + "..."


CHARS = [0x61, 0x00, 0x7F, 0xE9, 0xFF, 0x100, 0x20AC, 0xD800, 0xFFFF, 0x10000, 0x1F600, 0x10FFFF]


def lit(cp):
    return "'\\U%08x'" % cp


def module_source(py=False):
    T = (lambda t: "") if py else (lambda t: t + " ")      # noqa: E731
    lines = ["class Sub(str):\n    def __eq__(self, o): return 'subeq'\n    def __ne__(self, o): return 'subne'\n    __hash__ = str.__hash__\n",
             "def mk(kind, data):\n    if kind == 'sub': return Sub(data)\n    if kind == 'ba': return bytearray(data)\n    if kind == 'b': return bytes(bytearray(data))\n    return data\n"]
    for cp in CHARS:
        lines.append("def sq_%x(%ss): return (s == %s, s != %s, %s == s, %s != s)" % (cp, T("str"), lit(cp), lit(cp), lit(cp), lit(cp)))
        lines.append("def oq_%x(s): return (s == %s, s != %s, %s == s, %s != s)" % (cp, lit(cp), lit(cp), lit(cp), lit(cp)))
        lines.append("def sb_%x(%ss):\n    if s == %s: return 1\n    if s != %s: return 2\n    return 3" % (cp, T("str"), lit(cp), lit(cp)))
        lines.append("def ob_%x(s):\n    if %s == s: return 1\n    if s != %s: return 2\n    return 3" % (cp, lit(cp), lit(cp)))
    cmp6 = "(a == b, a != b, a < b, a <= b, a > b, a >= b)"
    lines += [
        "def uc(%sch, %ss): return (ch in s, ch not in s)" % (T("Py_UCS4"), T("str")),
        "def ss(%sa, %sb): return (a == b, a != b, a < b, a >= b)" % (T("str"), T("str")),
        "def so(a, b): return (a == b, a != b)",
        "def bb(%sa, %sb): return %s" % (T("bytes"), T("bytes"), cmp6),
        "def aa(%sa, %sb): return %s" % (T("bytearray"), T("bytearray"), cmp6),
        "def ba(%sa, %sb): return %s" % (T("bytes"), T("bytearray"), cmp6),
        "def ab(%sa, %sb): return %s" % (T("bytearray"), T("bytes"), cmp6),
        "def oo(a, b): return %s" % cmp6,
        "def bc_char(%sx, %sb): return (x in b, x not in b)" % (T("char"), T("bytes")),
        "def bc_uchar(%sx, %sb): return (x in b, x not in b)" % (T("unsigned char"), T("bytes")),
        "def bc_int(%sx, %sb): return (x in b, x not in b)" % (T("int"), T("bytes")),
        "def bc_long(%sx, %sb): return (x in b, x not in b)" % (T("long"), T("bytes")),
        "def bc_short(%sx, %sb): return (x in b, x not in b)" % (T("short"), T("bytearray")),
        "def bc_lit(%sx): return x in b'abc'" % T("int"),
    ]
    return "\n".join(lines) + "\n"


def kind_of(cps):
    m = max(cps) if cps else 0
    return 1 if m < 256 else (2 if m < 65536 else 4)


def gen_strings(rng, n):
    pool = CHARS + [0x62, 0x41, 0x80, 0x3B1, 0xDFFF, 0x1F601]
    out = [[], [0x61], [0x61, 0x62], [0], [0x61, 0, 0x62], [0x61, 0, 0x63]]
    for cp in CHARS:
        out += [[cp], [cp, cp], [0x61, cp], [cp, 0x61]]
    for _ in range(n):
        out.append([rng.choice(pool) for _ in range(rng.choice([0, 1, 1, 2, 3, 5, 9]))])
    return out


def s_lit(cps):
    return "'" + "".join("\\U%08x" % c for c in cps) + "'"


def b_lit(bs):
    return "b'" + "".join("\\x%02x" % b for b in bs) + "'"


def gen_bytes(rng, n):
    out = [[], [0], [0x61], [0x61, 0], [0x61, 0, 0x62], [0x61, 0, 0x63], [0xFF], [0x01], [0x61] * 20, [0x61] * 19 + [0x62]]
    for _ in range(n):
        k = rng.choice([0, 0, 1, 1, 2, 3, 4, 8, 17])
        base = [rng.choice([0, 0x61, 0x62, 0xFF, 0x7F, 0x80]) for _ in range(k)]
        out.append(base)
        if base and rng.random() < 0.6:       # equal prefix, different tail / length
            out.append(base[:-1] + [rng.choice([0, 0x61, 0xFE])])
            out.append(base + [rng.choice([0, 0x61])])
    return out


def hexs(bs):
    return "".join("%02x" % b for b in bs) or "-"


def dots(cps):
    return ".".join(str(c) for c in cps) or "-"


def canon_py(v):
    if isinstance(v, tuple):
        return "tuple:[" + ";".join(canon_py(x) for x in v) + "]"
    return type(v).__name__ + ":" + repr(v)


def run(ctx, info):
    rng = ctx.rng
    try:
        so = cybuild.build_module(ctx, "c19str", module_source())
    except cybuild.BuildError as e:
        ctx.tie_break("D-c build of the string helper module", e.stage + ": " + cap(e.log[-500:], 300), {})
        return
    pyns = {}
    exec(compile(module_source(True), "c19str_oracle.py", "exec"), pyns)
    probe = cybuild.run_cases(ctx, so, [("bc_int", "(353, b'a')"), ("aa", "(bytearray(), bytearray())")])
    char_only = 0 if probe[0].startswith("ok tuple:[bool:True") else 1
    empty_fix = 0 if probe[1] == "ok tuple:[bool:True;bool:False;bool:True;bool:True;bool:False;bool:False]" else 1
    info["bytes_contains_charOnly"] = char_only
    info["bytes_ordering_emptyFix"] = empty_fix
    cases, metas, mlines, mowner = [], [], [], []

    def add(fn, argsrc, pyargs, key, model=None):
        """model: list of (line, extractor index) -> expected canonical string built from the model answers"""
        cases.append((fn, argsrc))
        metas.append((fn, argsrc, pyargs, key, model))
        if model:
            for ln in model[0]:
                mlines.append(ln)
                mowner.append(len(metas) - 1)

    strings = gen_strings(rng, ctx.n(40, 400))
    b2 = lambda v: "bool:True" if v == "1" else "bool:False"      # noqa: E731
    for cp in CHARS:
        for cps in strings:
            if len(cps) > 3 and rng.random() < 0.5:
                continue
            sv = "".join(map(chr, cps))
            tok = "str %d %s 0 %d" % (kind_of(cps), dots(cps), cp)
            ml = ["C19 equchar %s 1" % tok, "C19 equchar %s 0" % tok]
            add("sq_%x" % cp, "(%s,)" % s_lit(cps), (sv,), "unicode-equals-char",
                (ml, lambda a: "ok tuple:[%s;%s;%s;%s]" % (b2(a[0]), b2(a[1]), b2(a[0]), b2(a[1]))))
            add("sb_%x" % cp, "(%s,)" % s_lit(cps), (sv,), "unicode-equals-char",
                (ml, lambda a: "ok int:%d" % (1 if a[0] == "1" else (2 if a[1] == "1" else 3))))
            add("ob_%x" % cp, "(%s,)" % s_lit(cps), (sv,), "unicode-equals-char",
                (ml, lambda a: "ok int:%d" % (1 if a[0] == "1" else (2 if a[1] == "1" else 3))))
        ml = ["C19 equchar none %d 1" % cp, "C19 equchar none %d 0" % cp]
        add("sq_%x" % cp, "(None,)", (None,), "unicode-equals-char",
            (ml, lambda a: "ok tuple:[%s;%s;%s;%s]" % (b2(a[0]), b2(a[1]), b2(a[0]), b2(a[1]))))
        add("ob_%x" % cp, "(None,)", (None,), "unicode-equals-char",
            (ml, lambda a: "ok int:%d" % (1 if a[0] == "1" else (2 if a[1] == "1" else 3))))
        for other, pyv, rc_eq, rc_ne in (("5", 5, 0, 1), ("b'a'", b"a", 0, 1), ("mod.mk('sub', %s)" % lit(cp), None, 1, 1)):
            ml = ["C19 equchar other %d %d 1" % (rc_eq, cp), "C19 equchar other %d %d 0" % (rc_ne, cp)]
            pa = (pyns["Sub"](chr(cp)),) if pyv is None else (pyv,)
            add("ob_%x" % cp, "(%s,)" % other, pa, "unicode-equals-char",
                (ml, lambda a: "ok int:%d" % (1 if a[0] == "1" else (2 if a[1] == "1" else 3))))
            add("oq_%x" % cp, "(%s,)" % other, pa, "unicode-equals-char", None)
    for cps in strings:
        sv = "".join(map(chr, cps))
        for ch in rng.sample(CHARS, 4) + (cps[:1] if cps else []):
            tok = "%d %d %s" % (ch, kind_of(cps), dots(cps))
            add("uc", "(%d, %s)" % (ch, s_lit(cps)), (chr(ch), sv), "unicode-contains-char",
                (["C19 ucontains %s 1" % tok, "C19 ucontains %s 0" % tok], lambda a: "ok tuple:[%s;%s]" % (b2(a[0]), b2(a[1]))))
    for _ in range(ctx.n(150, 1500)):
        a, b = rng.choice(strings), rng.choice(strings)
        if rng.random() < 0.3:
            b = list(a)
        add("ss", "(%s, %s)" % (s_lit(a), s_lit(b)), ("".join(map(chr, a)), "".join(map(chr, b))), "unicode-compare", None)
        add("so", "(%s, %s)" % (s_lit(a), rng.choice([s_lit(b), "None", "5", "mod.mk('sub', 'a')"])), None, "unicode-compare", None)
    # bytes comparisons
    bl = gen_bytes(rng, ctx.n(40, 300))
    pairs = [(a, b) for a in bl[:10] for b in bl[:10]]
    for _ in range(ctx.n(150, 1500)):
        pairs.append((rng.choice(bl), rng.choice(bl)))
    ops = ["lt", "le", "gt", "ge"]
    for a, b in pairs:
        for fn, ka, kb in (("bb", "b", "b"), ("aa", "ba", "ba"), ("ba", "b", "ba"), ("ab", "ba", "b"), ("oo", "b", "b"),
                           ("oo", "ba", "ba"), ("oo", "b", "ba"), ("oo", "ba", "b")):
            if fn == "oo" and rng.random() < 0.5:
                continue
            argsrc = "(mod.mk('%s', %s), mod.mk('%s', %s))" % (ka, b_lit(a), kb, b_lit(b))
            conv = lambda k, v: bytearray(v) if k == "ba" else bytes(v)      # noqa: E731
            helper = fn in ("bb", "aa", "oo")       # typed bytes/bytearray mixes go straight to PyObject_RichCompare
            maybe_ident = ka == "b" and kb == "b" and a == b and len(a) <= 1
            model = None
            if helper and not maybe_ident:
                ml = ["C19 beq %d %s %s 0" % (ka == "ba", hexs(a), hexs(b)), "C19 beq %d %s %s 1" % (ka == "ba", hexs(a), hexs(b))] + \
                     ["C19 bord %d %s %s %s" % (empty_fix, op, hexs(a), hexs(b)) for op in ops]
                model = (ml, lambda r: "ok tuple:[" + ";".join(b2(x) for x in r) + "]")
            key = "bytearray-empty-ordering" if (not a and not b) else "bytes-compare"
            add(fn, argsrc, (conv(ka, a), conv(kb, b)), key, model)
    # bytes membership of C integers
    for fn, bits, lo, hi in (("bc_char", 8, 0, 127), ("bc_uchar", 8, 0, 255), ("bc_int", 32, -400, 700), ("bc_long", 64, -400, 700),
                             ("bc_short", 16, -400, 700)):
        for it in range(ctx.n(40, 300)):
            x = rng.choice([0, 97, 98, 255, 256, 353, 97 + 256, -159, -1, lo, hi, rng.randint(lo, hi)])
            bs = rng.choice(bl)
            if it == 0:
                x, bs = 353, [0x61]          # witness of theorem bytes_contains_truncates
            x = min(max(x, lo), hi)
            ml = ["C19 bcontains %d %d %d %s 1" % (char_only, bits, x, hexs(bs)), "C19 bcontains %d %d %d %s 0" % (char_only, bits, x, hexs(bs))]
            conv = bytearray if fn == "bc_short" else bytes
            add(fn, "(%d, mod.mk('%s', %s))" % (x, "ba" if fn == "bc_short" else "b", b_lit(bs)), (x, conv(bs)),
                "bytes-contains-truncation" if not 0 <= x < 256 else "bytes-contains",
                (ml, lambda r: ("err ValueError" if r[0].startswith("err") else "ok tuple:[%s;%s]" % (b2(r[0][3:]), b2(r[1][3:])))))
    for x in (97, 100, 0, 255, 256, 353, -1, -159):
        add("bc_lit", "(%d,)" % x, (x,), "bytes-literal-contains-out-of-range" if not 0 <= x < 256 else "bytes-contains", None)
    outs = cybuild.run_cases(ctx, so, cases)
    mout = ctx.drv.batch(mlines) if mlines else []
    per = {}
    for o, ln in zip(mowner, mout):
        if not (ln.startswith("ok ") or ln.startswith("err ")):
            raise lib.Infra("model line rejected: " + cap(ln, 200))
        per.setdefault(o, []).append(ln if ln.startswith("err") or "bcontains" in "" else ln)
    for i, ((fn, argsrc, pyargs, key, model), out) in enumerate(zip(metas, outs)):
        if pyargs is None:
            env = dict(pyns)
            env["mod"] = type("M", (), {"mk": staticmethod(pyns["mk"])})
            pyargs = eval(argsrc, env)
        try:
            oracle = "ok " + canon_py(pyns[fn](*pyargs))
        except Exception as e:      # noqa: B902
            oracle = "err " + type(e).__name__
        ctx.count("str/" + fn.split("_")[0] + ("/" + key if key != "unicode-equals-char" else ""))
        ctx.seen((fn, argsrc))
        rj = {"part": "str", "func": fn, "args": cap(argsrc, 200), "compiled": cap(out), "cpython": cap(oracle)}
        exp = None
        if model:
            ans = per.get(i, [])
            raw = [a if a.startswith("err") else a[3:] for a in ans] if fn.startswith("bc_") is False else ans
            try:
                exp = model[1](raw)
            except Exception:      # noqa: B902
                exp = "model-unreadable " + cap(ans, 80)
        if out != oracle:
            ctx.violation(key + ("-unexplained" if (exp is not None and exp != out) else ""),
                          "%s%s: compiled %s, CPython %s" % (fn, cap(argsrc, 120), cap(out, 100), cap(oracle, 100)), rj)
        if model:
            if exp != out:
                ctx.tie_break("D-c %s vs CyVerif.C19 string/bytes model" % fn.split("_")[0],
                              "%s%s: compiled %s, model %s" % (fn, cap(argsrc, 120), cap(out, 100), cap(exp, 100)), rj)
    ctx.sample({"string_case": cap(cases[5], 200), "outcome": cap(outs[5], 120)})

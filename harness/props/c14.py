"""C14 — optimised loops iterate exactly like Python loops.

impl   = modules compiled by the staged compiler + gcc from pure-Python-mode sources (`@cython.locals`): range loops over
         every C integer target type / object targets, reversed(range), enumerate, dict/set/str/bytes/bytearray/C-array loops
model  = CyVerif.C14 (rangeLoop = _transform_range_iteration + ForFromStatNode code generation with C integer semantics;
         pyFor/pyRange = Python), CyVerif.C14D (dict/set iteration state machines, Cython's and CPython's)
oracle = CPython running the SAME source file uncompiled
"""
import os
import re

import cybuild
import lib

# (pure-mode type name, tag, width, signed)
TYPES = [("schar", "sc", 8, 1), ("uchar", "uc", 8, 0), ("short", "sh", 16, 1), ("ushort", "us", 16, 0),
         ("int", "i", 32, 1), ("uint", "ui", 32, 0), ("long", "l", 64, 1), ("ulong", "ul", 64, 0),
         ("longlong", "q", 64, 1), ("ulonglong", "uq", 64, 0), ("Py_ssize_t", "z", 64, 1), ("size_t", "uz", 64, 0)]
TY = {t[1]: t for t in TYPES}
SENT = -999          # initial value of object targets
CAP = 24             # the body returns ('runaway', out) after CAP+1 iterations


def bounds(w, sg):
    return (-(1 << (w - 1)), (1 << (w - 1)) - 1) if sg else (0, (1 << w) - 1)


def steps_for(w, sg):
    lo, hi = bounds(w, sg)
    big = min((hi + 1) // 2, (1 << 31) - 1)                # "type-sized"; stays a C `int` literal
    base = [x for x in (1, 2, 3, 5, 7, 100, big) if x <= hi]
    return sorted(set(base + [-x for x in base]))


def sname(s):
    return ("m%d" % -s) if s < 0 else ("p%d" % s)


LOOP_BODY = """        out.append(i)
        n += 1
        if n > cap:
            return ('runaway', out)
        if n - 1 == brk:
            break
        if n - 1 == cont:
            continue
        if md:
            i = 7
    else:
        er = 1
    return (out, i, er)
"""


def range_func(name, ttype, btype, rng_src, args="a, b, init, brk, cont, md, cap", init="init"):
    """one test function: `for i in <rng_src>` with the observable body"""
    loc = ["n=cython.long", "brk=cython.long", "cont=cython.long", "cap=cython.long", "md=cython.bint", "er=cython.int"]
    if ttype:
        loc.append("i=cython.%s" % ttype)
        if "init" in args:
            loc.append("init=cython.%s" % ttype)
    if btype:
        loc += ["a=cython.%s" % btype, "b=cython.%s" % btype]
    return ("@cython.locals(%s)\ndef %s(%s):\n    i = %s\n    out = []\n    n = 0\n    er = 0\n    for i in %s:\n%s"
            % (", ".join(loc), name, args, init, rng_src, LOOP_BODY))


def rng_src(a, b, s, rev):
    r = "range(%s, %s, %s)" % (a, b, s)
    return "reversed(%s)" % r if rev else r


HEADER = "# cython: language_level=3%s\nimport cython\n"

_INT = re.compile(r"int:(-?\d+)")


def canon_loop(o):
    """runner outcome -> the model's canonical line"""
    if o.startswith("ok tuple:[str:'runaway';list:["):
        return "runaway [%s]" % ",".join(_INT.findall(o))
    m = re.match(r"ok tuple:\[list:\[(.*)\];(?:int:(-?\d+)|NoneType:None);int:([01])\]$", o)
    if m:
        return "ok [%s] t=%s else=%s" % (",".join(_INT.findall(m.group(1))), m.group(2) if m.group(2) is not None else SENT, m.group(3))
    return o


def cut(s, n=300):
    s = str(s)
    return s if len(s) <= n else s[:n] + "…"


# --------------------------------------------------------------------------- Python mirror of the theorems' side conditions

def rlen(a, b, s):
    """len(range(a, b, s)) without the Py_ssize_t limit"""
    if s > 0:
        return (b - a - 1) // s + 1 if a < b else 0
    return (a - b - 1) // (-s) + 1 if b < a else 0


def rlast(a, b, s):
    return a + (rlen(a, b, s) - 1) * s


def prom(w, sg):
    return (32, 1) if w < 32 else (w, sg)


def lit_type(v):
    """C type of an integer literal as Cython writes it (hex for non-negative values of 3+ digits)"""
    if v < 0:
        return (32, 1) if -v <= 2 ** 31 - 1 else (64, 1)
    if v <= 2 ** 31 - 1:
        return (32, 1)
    if v <= 2 ** 32 - 1:
        return (32, 0)
    if v <= 2 ** 63 - 1:
        return (64, 1)
    return (64, 0)


def compat(t, b):
    t, b = prom(*t), prom(*b)
    return (not t[1]) or bool(b[1]) or b[0] < t[0]


def in_ty(ty, x):
    lo, hi = bounds(*ty)
    return lo <= x <= hi


def classify(cfg, a, b, s):
    """None if the hypotheses of the proved `_partial`/full theorems hold for this input (then impl must equal CPython);
    otherwise the stable key of the excluded input class."""
    w, sg = cfg["w"], cfg["sg"]
    T = (w, sg)
    lo, hi = bounds(w, sg)
    sv = abs(s)
    n = rlen(a, b, s)
    last = rlast(a, b, s)
    sign = "signed" if sg else "unsigned"
    bty = (lambda v: lit_type(v)) if cfg["const"] else (lambda v: (cfg["cw"], cfg["csg"]))
    if not cfg["rev"]:
        if s > 0 or sg:
            if n == 0 or lo <= last + s <= hi:
                return None
            return "range-step-overflow-%s" % sign            # F8: value after the last element leaves the type
        if cfg["fixedU"]:
            return None
        if a + sv <= hi and in_ty(prom(*bty(a)), a + sv) and in_ty(prom(*bty(b)), b + sv):
            return None
        return "range-unsigned-countdown"                       # `a + step` / `b + step` wraps around
    # reversed(range(a, b, s))
    if not sg:
        if s == 1 and in_ty(prom(*bty(a)), a + 1) and in_ty(prom(*bty(b)), b):
            return None                                         # range_reversed_unsigned_unit_partial
        return "reversed-range-unsigned-notheorem"              # tie only (see claims)
    if sv == 1 or cfg["const"]:
        B1 = b if sv == 1 else (a - sv * ((a - b - 1) // sv) - 1 if s < 0 else a + sv * ((b - a - 1) // sv) + 1)
    else:
        P = prom(cfg["cw"], cfg["csg"])
        if not P[1]:
            if n == 0:
                return "reversed-range-unsigned-calc-empty"
            B1 = last + (1 if s > 0 else -1)
        else:
            t1 = (a - b) if s < 0 else (b - a)
            t2 = t1 - 1
            if cfg["cdiv"] and t2 < 0 and t2 % sv != 0:
                return "reversed-range-cdivision"
            q = t2 // sv
            t3 = sv * q
            t4 = a - t3 if s < 0 else a + t3
            t5 = t4 - 1 if s < 0 else t4 + 1
            if not all(in_ty(P, t) for t in (t1, t2, t3, t4, t5)):
                return "reversed-range-bound-overflow"
            B1 = t5
    d = -1 if s > 0 else 1
    if not (in_ty(prom(*bty(B1)), B1) and in_ty(prom(*bty(B1)), B1 + d) and lo <= B1 + d <= hi):
        return "reversed-range-start-overflow"
    if n > 0 and not lo <= a + d * sv <= hi:
        return "reversed-range-step-overflow"
    return None


def model_line(mode, cfg, a, b, s, brk, cont, md, cap, init):
    return "C14 range %s %d %d %d %d %d %d %d %d %d %d %d %d %d %d %d %d" % (
        mode, cfg["w"], cfg["sg"], cfg["cw"], cfg["csg"], cfg["const"], cfg["cdiv"], cfg["rev"], cfg["fixedU"],
        a, b, s, brk, cont, md, cap, init)


def py_line(cfg, a, b, s, brk, cont, md, cap, init):
    return "C14 pyrange %d %d %d %d %d %d %d %d %d" % (cfg["rev"], a, b, s, brk, cont, md, cap, init)


def interesting(w, sg, s, rng, k):
    """boundary-heavy (a, b) pairs for a type and a step"""
    lo, hi = bounds(w, sg)
    sv = abs(s)
    pts = set()
    for base in (lo, 0, hi, lo + sv, hi - sv, lo + 2 * sv, hi - 2 * sv, (lo + hi) // 2):
        for d in (-2, -1, 0, 1, 2, sv - 1, sv, sv + 1, -sv, -sv - 1, -sv + 1):
            if lo <= base + d <= hi:
                pts.add(base + d)
    pts = sorted(pts)
    # extremes first (deterministic), then seeded samples
    out = []
    for p in ((lo, hi), (hi, lo), (lo, lo), (hi, hi), (0, hi), (0, lo), (hi - 1, hi), (lo + 1, lo)):
        if p not in out:
            out.append(p)
    seen = set(out)
    while len(out) < k:
        r = rng.random()
        if r < 0.55:
            a, b = rng.choice(pts), rng.choice(pts)
        elif r < 0.8:
            a = rng.choice(pts)
            b = a + rng.randint(-4 * sv - 2, 4 * sv + 2)
        else:
            a = rng.randint(max(lo, -300), min(hi, 300))
            b = rng.randint(max(lo, -300), min(hi, 300))
        if lo <= a <= hi and lo <= b <= hi and (a, b) not in seen:
            seen.add((a, b))
            out.append((a, b))
    return out


# --------------------------------------------------------------------------- range families: sources + case lists

def fam_rt(ctx, fixedU, cdiv_on):
    """typed target, bounds are run-time values of the same C type (one module per type)"""
    mods = []
    for tname, tag, w, sg in TYPES:
        src = [HEADER % ""]
        funcs = []
        for s in steps_for(w, sg):
            if ctx.quick and abs(s) == 5:
                continue
            for rev in (0, 1):
                fn = "f_%s_%d" % (sname(s), rev)
                src.append(range_func(fn, tname, tname, rng_src("a", "b", s, rev)))
                funcs.append((fn, s, rev))
        for rev in (0, 1):
            # the one- and two-argument forms of range()
            r1, r2 = "range(b)", "range(a, b)"
            src.append(range_func("f1_%d" % rev, tname, tname, "reversed(%s)" % r1 if rev else r1))
            src.append(range_func("f2_%d" % rev, tname, tname, "reversed(%s)" % r2 if rev else r2))
            funcs += [("f1_%d" % rev, 1, rev), ("f2_%d" % rev, 1, rev)]
        mods.append(dict(name="c14rt_" + tag, source="\n".join(src), funcs=funcs,
                         cfg=dict(w=w, sg=sg, cw=w, csg=sg, const=0, cdiv=0, fixedU=fixedU)))
    return mods


def fam_misc(ctx, fixedU, cdiv_on):
    """object bounds (Py_ssize_t arithmetic), mixed bound/target types, cdivision=True module"""
    mods = []
    src, funcs = [HEADER % ""], []
    for tname, tag, w, sg in (TYPES if not ctx.quick else [TY[t] for t in ("sc", "uc", "i", "ui", "l", "uz")]):
        for s in (1, -1, 3, -3, 7, -7):
            for rev in (0, 1):
                fn = "g_%s_%s_%d" % (tag, sname(s), rev)
                src.append(range_func(fn, tname, None, rng_src("a", "b", s, rev)))
                funcs.append((fn, s, rev, dict(w=w, sg=sg, cw=64, csg=1)))
    mods.append(dict(name="c14ob", source="\n".join(src), funcs=funcs, cfg=dict(const=0, cdiv=0, fixedU=fixedU)))
    src, funcs = [HEADER % ""], []
    for bt, tt in (("sh", "l"), ("uc", "i"), ("i", "l"), ("ui", "ul"), ("sc", "sh"), ("us", "l"), ("i", "z")):
        for s in ((1, -1, 2, -2, 5, -5, 100, -100) if not ctx.quick else (-1, 2, -2, 100, -100)):
            for rev in (0, 1):
                fn = "x_%s_%s_%s_%d" % (bt, tt, sname(s), rev)
                src.append(range_func(fn, TY[tt][0], TY[bt][0], rng_src("a", "b", s, rev)))
                funcs.append((fn, s, rev, dict(w=TY[tt][2], sg=TY[tt][3], cw=TY[bt][2], csg=TY[bt][3])))
    mods.append(dict(name="c14mx", source="\n".join(src), funcs=funcs, cfg=dict(const=0, cdiv=0, fixedU=fixedU)))
    src, funcs = [HEADER % ", cdivision=True"], []
    for tag in ("sc", "sh", "i", "l", "ui", "uc"):
        tname, _, w, sg = TY[tag]
        for s in (2, -2, 3, -3, 7, -7, 1, -1):
            for rev in ((0, 1) if (not ctx.quick or s in (3, -2)) else (1,)):
                fn = "d_%s_%s_%d" % (tag, sname(s), rev)
                src.append(range_func(fn, tname, tname, rng_src("a", "b", s, rev)))
                funcs.append((fn, s, rev, dict(w=w, sg=sg, cw=w, csg=sg)))
    mods.append(dict(name="c14cd", source="\n".join(src), funcs=funcs, cfg=dict(const=0, cdiv=cdiv_on, fixedU=fixedU)))
    return mods


def hex_offset_hit(a, b, s, rev):
    """reversed loop over literal bounds whose start literal is written in hex ending in E and gets `+1`/`-1` glued on"""
    if not rev:
        return False
    sv = abs(s)
    B1 = b if sv == 1 else (a - sv * ((a - b - 1) // sv) - 1 if s < 0 else a + sv * ((b - a - 1) // sv) + 1)
    return B1 >= 100 and B1 % 16 == 14


def fam_lit(ctx, fixedU, rng, hex_ok):
    """literal bounds: typed targets (the compiler computes the reversed start value) and object targets (loop type `long`)"""
    src, funcs = [HEADER % ""], []
    k = 0
    fixed = [("i", 2147483640, 2147483647, 5, 0), ("sc", 100, 127, 100, 0), ("uc", 250, 0, -10, 0), ("ui", 4294967295, 4294967290, -1, 0),
             ("i", 0, 10, 3, 1), ("i", 10, 0, -3, 1), ("i", 5, 5, 3, 1), ("uc", 0, 255, 3, 1), ("l", -5, 5, 2, 1), ("sh", 32767, -32768, -100, 0),
             ("uz", 10, 0, -3, 0), ("us", 0, 65535, 7, 1), ("q", -2 ** 63, -2 ** 63 + 10, 3, 1), ("i", -2 ** 31, 2 ** 31 - 1, 2 ** 30, 0)]
    n_t = ctx.n(30, 120)
    for j in range(n_t):
        tag = rng.choice([t[1] for t in TYPES])
        _, _, w, sg = TY[tag]
        s = rng.choice(steps_for(w, sg))
        a, b = rng.choice(interesting(w, sg, s, rng, 40))
        fixed.append((tag, a, b, s, rng.randint(0, 1)))
    for tag, a, b, s, rev in fixed:
        tname, _, w, sg = TY[tag]
        if not hex_ok and hex_offset_hit(a, b, s, rev):
            ctx.count("skipped/hex-literal-offset")
            continue
        if not (compat((w, sg), lit_type(a)) and compat((w, sg), lit_type(b))):
            continue
        fn = "l_%d" % k
        k += 1
        src.append(range_func(fn, tname, None, rng_src(a, b, s, rev), args="init, brk, cont, md, cap"))
        funcs.append((fn, a, b, s, rev, dict(w=w, sg=sg, cw=64, csg=1, const=1)))
    # object targets: optimised only when every argument is a literal with |x| < 2**30
    objs = [(0, 10, 1, 0), (0, 10, 3, 1), (10, 0, -3, 1), (2 ** 30 - 1, -2 ** 30, -(2 ** 30 - 1), 0), (-2 ** 30, 2 ** 30 - 1, 2 ** 30 - 1, 1),
            (5, 5, 1, 0), (5, 5, 2, 1), (0, 1000, 100, 1), (7, -7, -5, 0)]
    for j in range(ctx.n(20, 80)):
        a = rng.choice([0, 1, -1, 5, -5, 100, 2 ** 30 - 1, -2 ** 30, rng.randint(-50, 50)])
        b = a + rng.choice([0, 1, -1, 7, -7, 33, -33, 1000]) if rng.random() < 0.7 else rng.randint(-2 ** 30, 2 ** 30 - 1)
        s = rng.choice([1, -1, 2, -2, 3, -3, 5, 7, -7, 100, -100, 2 ** 30 - 1, -(2 ** 30 - 1)])
        if -2 ** 30 <= b < 2 ** 30:
            objs.append((a, b, s, rng.randint(0, 1)))
    for a, b, s, rev in objs:
        if not hex_ok and hex_offset_hit(a, b, s, rev):
            ctx.count("skipped/hex-literal-offset")
            continue
        fn = "o_%d" % k
        k += 1
        src.append(range_func(fn, None, None, rng_src(a, b, s, rev), args="brk, cont, md, cap", init="None"))
        funcs.append((fn, a, b, s, rev, dict(w=64, sg=1, cw=64, csg=1, const=1, obj=1)))
    return dict(name="c14lit", source="\n".join(src), funcs=funcs, cfg=dict(cdiv=0, fixedU=fixedU))


def body_variants(rng, n, cap):
    """(brk, cont, md) choices for a loop whose Python length is n"""
    r = rng.random()
    if r < 0.45:
        return (-1, -1, 0)
    k = rng.choice([0, 1, 2, max(n - 1, 0), max(n - 2, 0), n, rng.randint(0, cap)])
    if r < 0.65:
        return (k, -1, rng.randint(0, 1))
    if r < 0.8:
        return (-1, k, 1)
    if r < 0.9:
        return (k, rng.choice([0, 1, max(n - 1, 0)]), 1)
    return (-1, -1, 1)


# --------------------------------------------------------------------------- evaluation of range cases (three-way)

def eval_range(ctx, so, py, cases, opt, label):
    """cases: dicts with fn, args (tuple source), cfg, a, b, s, brk, cont, md, cap, init"""
    if not cases:
        return
    calls = [(c["fn"], c["args"]) for c in cases]
    impl = [canon_loop(o) for o in cybuild.run_cases(ctx, so, calls, timeout_per_case=20)]
    orac = [canon_loop(o) for o in cybuild.run_cases(ctx, py, calls, timeout_per_case=20)]
    lines = []
    for c in cases:
        t = (c["cfg"], c["a"], c["b"], c["s"], c["brk"], c["cont"], c["md"], c["cap"], c["init"])
        lines += [model_line("strict", *t), model_line("wrap", *t), py_line(*t)]
    mo = ctx.drv.batch(lines)
    for k, c in enumerate(cases):
        strict, wrap, pym = mo[3 * k], mo[3 * k + 1], mo[3 * k + 2]
        im, orc = impl[k], orac[k]
        cfg = c["cfg"]
        cls = classify(cfg, c["a"], c["b"], c["s"])
        n = rlen(c["a"], c["b"], c["s"])
        kind = "%s/%s/%s%s/%s" % (label, "rev" if cfg["rev"] else "fwd", "s" if cfg["sg"] else "u", cfg["w"],
                                  "safe" if cls is None else "excluded")
        ctx.count(kind)
        ctx.seen((c["fn"], c["a"], c["b"], c["s"], c["brk"], c["cont"], c["md"], opt), nontrivial=(n > 0 or cls is not None))
        rep = {"range": {k2: c[k2] for k2 in ("fn", "args", "a", "b", "s", "brk", "cont", "md", "cap", "init")}, "cfg": cfg,
               "opt": opt, "impl": cut(im), "cpython": cut(orc), "model_strict": cut(strict), "model_wrap": cut(wrap)}
        desc = "%s%s(%d,%d,%d) target %s%d %s: " % ("reversed " if cfg["rev"] else "", "range", c["a"], c["b"], c["s"],
                                                   "s" if cfg["sg"] else "u", cfg["w"], opt)
        # (1) the Lean Python-side spec against CPython
        if pym != orc:
            ctx.tie_break("CPython vs CyVerif.C14.pyFor/pyRange", desc + "CPython %s, Lean spec %s" % (cut(orc, 120), cut(pym, 120)), rep)
        # (2) model against implementation
        if strict.startswith("bad-op"):
            ctx.tie_break("D-c model rejects case", desc + strict, rep)
        elif strict != "ub signedOverflow":
            if strict != wrap:
                ctx.tie_break("CyVerif.C14 strict vs wrap", desc + "strict %s wrap %s" % (cut(strict, 100), cut(wrap, 100)), rep)
            if im != strict:
                ctx.tie_break("D-c ForFromStatNode/_transform_range_iteration vs CyVerif.C14.rangeLoop",
                              desc + "impl %s, model %s" % (cut(im, 120), cut(strict, 120)), rep)
        else:
            ctx.count("ub-cases/" + opt)
            if opt == "-O0" and im != wrap:
                ctx.tie_break("D-c (wrap-around run) vs CyVerif.C14.rangeLoop wrap", desc + "impl %s, model %s" % (cut(im, 120), cut(wrap, 120)), rep)
        # (3) theorem domain: inside it the model must equal the Python spec
        if cls is None and strict != pym:
            ctx.tie_break("side condition mirror (classify) vs model", desc + "strict %s, spec %s" % (cut(strict, 100), cut(pym, 100)), rep)
        # (4) the property on the real code
        if im != orc:
            key = cls or ("range-unexpected-%s%d" % ("s" if cfg["sg"] else "u", cfg["w"]))
            ctx.violation(key, desc + "compiled %s, CPython %s" % (cut(im, 150), cut(orc, 150)), rep)
        elif cls is not None:
            ctx.count("excluded-but-equal")
    k = len(cases) // 2
    ctx.sample({"case": cut(cases[k]["fn"] + cases[k]["args"], 120), "impl": cut(impl[k], 120), "model": cut(mo[3 * k], 120), "cpython": cut(orac[k], 120)})


def mk_case(fn, cfg, a, b, s, rng, with_ab=True, with_init=True, cap=CAP):
    n = rlen(a, b, s)
    brk, cont, md = body_variants(rng, min(n, cap), cap)
    init = 77
    parts = ([str(a), str(b)] if with_ab else []) + ([str(init)] if with_init else []) + [str(brk), str(cont), str(md), str(cap)]
    return dict(fn=fn, args="(%s)" % ", ".join(parts), cfg=cfg, a=a, b=b, s=s, brk=brk, cont=cont, md=md, cap=cap,
                init=init if with_init else SENT)


def write_py(ctx, name, source):
    d = os.path.join(ctx.scratch, "py")
    os.makedirs(d, exist_ok=True)
    p = os.path.join(d, name + ".py")
    with open(p, "w") as f:
        f.write(source)
    return p


def build_all(ctx, mods, opt):
    specs = [dict(name=m["name"], source=m["source"], ext=".py", opt=opt) for m in mods]
    sos = cybuild.build_many(ctx, specs)
    out = []
    for m, so in zip(mods, sos):
        if isinstance(so, cybuild.BuildError):
            ctx.tie_break("D-c build " + m["name"], so.stage + ": " + cut(so.log[-600:], 600), {"module": m["name"], "opt": opt})
            out.append(None)
        else:
            out.append(so)
    return out


def probe_variants(ctx, so_uc, so_cd):
    """which variant of the anchored code is this tree?  (both probes are ordinary three-way cases as well)"""
    fixedU, cdiv = 0, 1
    if so_uc:
        o = canon_loop(cybuild.run_cases(ctx, so_uc, [("f_m1_0", "(255, 250, 77, -1, -1, 0, 24)")])[0])
        fixedU = 1 if o.startswith("ok [255,254,253,252,251]") else 0
    if so_cd:
        o = canon_loop(cybuild.run_cases(ctx, so_cd, [("d_i_p3_1", "(5, 5, 77, -1, -1, 0, 24)")])[0])
        cdiv = 0 if o.startswith("ok []") else 1
    return fixedU, cdiv


HEX_SRC = HEADER % "" + """
@cython.locals(i=cython.int)
def h1():
    out = []
    for i in reversed(range(254)):
        out.append(i)
    return (len(out), out[0], out[-1])
@cython.locals(i=cython.long)
def h2():
    out = []
    for i in reversed(range(0, 270, 1)):
        out.append(i)
    return (len(out), out[0], out[-1])
"""


def probe_hex(ctx):
    """`for i in reversed(range(254))`: the start value is written `0xFE-1`, one invalid C token"""
    ctx.count("hex-literal-offset")
    try:
        so = cybuild.build_module(ctx, "c14hex", HEX_SRC, ext=".py")
    except cybuild.BuildError as e:
        if e.stage == "cc" and "invalid suffix" in e.log:
            m = re.search(r"for \(\w+ = (0x[0-9A-F]+[-+]1);", e.log)
            ctx.violation("reversed-range-hex-literal-offset",
                          "cdef int i; for i in reversed(range(254)): generated C does not compile (%s is one invalid token); CPython runs 254 iterations"
                          % (m.group(1) if m else "0xFE-1"), {"source": HEX_SRC, "cc": cut(e.log, 400)})
            return False
        ctx.tie_break("D-c build c14hex", e.stage + ": " + cut(e.log[-400:], 400), {"source": HEX_SRC})
        return False
    got = cybuild.run_cases(ctx, so, [("h1", "()"), ("h2", "()")])
    exp = ["ok tuple:[int:254;int:253;int:0]", "ok tuple:[int:270;int:269;int:0]"]
    if got != exp:
        ctx.violation("reversed-range-literal", "reversed(range(254)) / reversed(range(0,270,1)): compiled %s, CPython %s" % (cut(got, 150), cut(exp, 150)),
                      {"source": HEX_SRC})
    return True


def usable(cfg, a, b, s):
    """inside the modelled fragment?  (see claims: what is excluded and why)"""
    T = (cfg["w"], cfg["sg"])
    if cfg["const"]:
        if not (compat(T, lit_type(a)) and compat(T, lit_type(b))):
            return False
    else:
        if not compat(T, (cfg["cw"], cfg["csg"])):
            return False
        # the declared type of the `//` node follows Cython's rank table once |step| >= 0x7FFF (Py_ssize_t vs unsigned long)
        if cfg["rev"] and abs(s) >= 0x7FFF and cfg["cw"] == 64 and not cfg["csg"]:
            return False
    return True


def run_ranges(ctx):
    rng = ctx.rng
    opts = ["-O0"] if ctx.quick else ["-O0", "-O2"]
    # build with placeholder variant flags, probe, then fill the flags in
    hex_ok = probe_hex(ctx)
    rt = fam_rt(ctx, 0, 1)
    misc = fam_misc(ctx, 0, 1)
    lit = fam_lit(ctx, 0, rng, hex_ok)
    mods = rt + misc + [lit]
    pys = [write_py(ctx, m["name"], m["source"]) for m in mods]
    built = {opt: build_all(ctx, mods, opt) for opt in opts}
    names = [m["name"] for m in mods]
    so0 = dict(zip(names, built["-O0"]))
    fixedU, cdiv_on = probe_variants(ctx, so0.get("c14rt_uc"), so0.get("c14cd"))
    ctx.notes["variant"] = {"unsigned_countdown_repaired": bool(fixedU), "reversed_bound_uses_c_division_under_cdivision": bool(cdiv_on)}
    rc = getattr(ctx, "replay_case", None) or {}
    rc = rc.get("case", rc)
    replay = rc.get("range")
    replay_cfg = rc.get("cfg") or {}
    per_fn = ctx.n(18, 60)
    for mi, m in enumerate(mods):
        cases = []
        for f in m["funcs"]:
            if m["name"].startswith("c14rt_"):
                fn, s, rev = f
                cfg = dict(m["cfg"], rev=rev, fixedU=fixedU)
                for a, b in interesting(cfg["w"], cfg["sg"], s, rng, per_fn):
                    cases.append(mk_case(fn, cfg, 0 if fn.startswith("f1_") else a, b, s, rng))
            elif m["name"] == "c14lit":
                fn, a, b, s, rev, extra = f
                cfg = dict(m["cfg"], rev=rev, fixedU=fixedU)
                cfg.update({k: v for k, v in extra.items() if k != "obj"})
                for _ in range(3):
                    cases.append(mk_case(fn, cfg, a, b, s, rng, with_ab=False, with_init=not extra.get("obj")))
            else:
                fn, s, rev, extra = f
                cfg = dict(m["cfg"], rev=rev, fixedU=fixedU)
                cfg.update(extra)
                if m["name"] == "c14cd":
                    cfg["cdiv"] = cdiv_on
                # bounds must be values of BOTH the bound type and the target type
                lo1, hi1 = bounds(cfg["w"], cfg["sg"])
                lo2, hi2 = bounds(cfg["cw"], cfg["csg"])
                got = 0
                for a, b in interesting(min(cfg["w"], cfg["cw"]), cfg["sg"] and cfg["csg"], s, rng, per_fn * 3):
                    if max(lo1, lo2) <= a <= min(hi1, hi2) and max(lo1, lo2) <= b <= min(hi1, hi2):
                        cases.append(mk_case(fn, cfg, a, b, s, rng))
                        got += 1
                        if got >= max(4, per_fn // 2):
                            break
        n0 = len(cases)
        cases = [c for c in cases if usable(c["cfg"], c["a"], c["b"], c["s"])]
        ctx.count("skipped/outside-modelled-fragment", n0 - len(cases))
        if replay:
            cases = [c for c in cases if c["fn"] == replay["fn"] and all(c["cfg"].get(k) == replay_cfg.get(k, c["cfg"].get(k)) for k in ("w", "sg", "cw", "csg"))][:1]
            if cases:
                cases[0].update({k: replay[k] for k in ("args", "a", "b", "s", "brk", "cont", "md", "cap", "init")})
        for opt in opts:
            so = built[opt][mi]
            if so:
                eval_range(ctx, so, pys[mi], cases, opt, m["name"].split("_")[0])


def run(ctx):
    ctx.rule = ("range: every C integer type x constant steps {±1,±2,±3,±5,±7,±100,±type-sized} x forward/reversed x boundary-heavy (a,b) pairs "
                "(type bounds ± step, empty ranges) x body variants (break/continue at chosen iterations, loop variable overwritten, else clause); "
                "non-trivial = non-empty range or an input outside the theorems' side conditions")
    ctx.rule += ("; enumerate: 12 counter types x start at type bounds; index loops: str/bytes/list/tuple x break positions; C arrays: all in-array slices; "
                 "dict/set: generated mutation scripts (same-size delete+insert, grow, shrink, replace value, clear) x 12 dict loop shapes / 4 set shapes; "
                 "non-trivial = at least one iteration or mutation")
    ctx.explanation = ("Theorems: range loops (forward/reversed, every C loop type, all bounds, every body) under explicit no-overflow side conditions, full for unit steps / "
                       "object targets / index loops / the repaired unsigned count-down form; enumerate counter; dict/set iteration for all mutation histories. "
                       "No theorem covers: reversed(range(a,b,s)) with an unsigned loop type and s != 1; bounds outside the loop type; element VALUES of str/bytes/C-array loops "
                       "(only the index sequence); bytearray/list mutation during iteration and nested programs (compiled vs CPython only); same-size set mutation "
                       "order; the generic PyIter_Next paths (CPython's own iterators); prange; reference counting.")
    ctx.assumptions = ["LP64 x86-64, two's complement, plain char signed; gcc -O0 wraps signed overflow (used only to compare runs whose strict verdict is `ub`)",
                       "bounds are values of the loop type and comparisons between loop temp and bounds are value-preserving (no negative temp converted to unsigned)",
                       "CPython 3.12 dict layout/resize policy as modelled in CyVerif.C14D.PyDict (tie driver only; the theorems quantify over arbitrary entries-array histories)"]
    ctx.extra_trusted = ["executable model of CPython 3.12's dict resize policy (C14D.PyDict), fitted to CPython and re-checked against it on every run (oracle leg)"]
    only = os.environ.get("C14_ONLY", "")
    rc = getattr(ctx, "replay_case", None) or {}
    if rc.get("case", rc).get("range"):
        only = "range"          # a range replay re-runs exactly that case; other replay kinds re-run the seeded generators
    if not only or "range" in only:
        run_ranges(ctx)
    if not only or "dict" in only:
        run_dicts(ctx)
    fx = 1 if ctx.notes.get("variant", {}).get("unsigned_countdown_repaired") else 0
    if not only or "seq" in only:
        run_seqs(ctx, fx)
    if not only or "arr" in only:
        run_arrays(ctx, fx)


# --------------------------------------------------------------------------- dict / set iteration with mutation histories

DICT_HELPERS = '''
def _apply(d, ops):
    for op in ops:
        if op[0] == 's':
            d[op[1]] = op[2]
        elif op[0] == 'd':
            d.pop(op[1], None)
        elif op[0] == 'c':
            d.clear()
        elif op[0] == 'a':
            d.add(op[1])
        elif op[0] == 'r':
            d.discard(op[1])

def _mkdict(keys):
    d = {}
    for k0 in keys:
        d[k0] = 10 * k0
    return d

def _mkset(keys):
    s = set()
    for k0 in keys:
        s.add(k0)
    return s

class MyDict(dict):
    pass
'''

DICT_FUNC = '''%(deco)s
def %(name)s(keys, script, brk):
    d = %(mk)s
    out = []
    er = 0
    try:
        for %(target)s in %(iterable)s:
            out.append(%(obs)s)
            if len(out) - 1 == brk:
                break
            if len(out) > 200:
                return ('runaway', out)
            ops = script.get(len(out) - 1)
            if ops:
                _apply(d, ops)
        else:
            er = 1
    except RuntimeError as e:
        return ('err', out, str(e))
    return ('ok', out, er)
'''

# name -> (decorator, constructor, target, iterable, observation, what, model variant)
DICT_VARIANTS = {
    "dk_typed": ("@cython.locals(d=dict)", "_mkdict(keys)", "k", "d", "k", "keys", "cy"),
    "dk_typed_keys": ("@cython.locals(d=dict)", "_mkdict(keys)", "k", "d.keys()", "k", "keys", "cy"),
    "dv_typed": ("@cython.locals(d=dict)", "_mkdict(keys)", "v", "d.values()", "v", "values", "cy"),
    "di_typed": ("@cython.locals(d=dict)", "_mkdict(keys)", "k, v", "d.items()", "(k, v)", "items", "cy"),
    "dt_typed": ("@cython.locals(d=dict)", "_mkdict(keys)", "t", "d.items()", "t", "items", "cy"),
    "di_ctyped": ("@cython.locals(d=dict, k=cython.long, v=cython.long)", "_mkdict(keys)", "k, v", "d.items()", "(k, v)", "items", "cy"),
    "dk_obj_keys": ("", "_mkdict(keys)", "k", "d.keys()", "k", "keys", "cy"),
    "dv_obj": ("", "_mkdict(keys)", "v", "d.values()", "v", "values", "cy"),
    "di_obj": ("", "_mkdict(keys)", "k, v", "d.items()", "(k, v)", "items", "cy"),
    "dk_obj_plain": ("", "_mkdict(keys)", "k", "d", "k", "keys", "py"),          # not rewritten: CPython's own iterator
    "dk_inferred": ("", "{}\n    for k0 in keys:\n        d[k0] = 10 * k0", "k", "d", "k", "keys", "cy"),
    "di_subclass": ("", "MyDict(_mkdict(keys))", "k, v", "d.items()", "(k, v)", "items", "py"),   # not an exact dict: generic path
}

SET_VARIANTS = {
    "s_typed": ("@cython.locals(d=set)", "_mkset(keys)", "k", "d", "k", "keys", "cy"),
    "s_inferred": ("", "set()\n    for k0 in keys:\n        d.add(k0)", "k", "d", "k", "keys", "cy"),
    "s_obj": ("", "_mkset(keys)", "k", "d", "k", "keys", "py"),
    "s_frozen": ("@cython.locals(d=frozenset)", "frozenset(_mkset(keys))", "k", "d", "k", "keys", "cy"),
}


def dict_module():
    src = [HEADER % "", DICT_HELPERS]
    for name, (deco, mk, target, iterable, obs, what, var) in list(DICT_VARIANTS.items()) + list(SET_VARIANTS.items()):
        src.append(DICT_FUNC % dict(deco=deco, name=name, mk=mk, target=target, iterable=iterable, obs=obs))
    return "\n".join(src)


_PAIR = re.compile(r"tuple:\[int:(-?\d+);int:(-?\d+)\]")


def canon_dict(o, what):
    """runner outcome -> the C14D model's line"""
    def vis(body):
        if what == "items":
            return "[%s]" % ",".join("%s:%s" % p for p in _PAIR.findall(body))
        return "[%s]" % ",".join(_INT.findall(body))
    m = re.match(r"ok tuple:\[str:'ok';list:\[(.*)\];int:([01])\]$", o)
    if m:
        return "ok %s else=%s" % (vis(m.group(1)), m.group(2))
    m = re.match(r"ok tuple:\[str:'err';list:\[(.*)\];str:'(.*)'\]$", o)
    if m:
        msg = m.group(2).lower()
        kind = "size" if "changed size" in msg else "keys" if "keys changed" in msg else "other:" + msg[:40]
        return "err RuntimeError %s %s" % (kind, vis(m.group(1)))
    m = re.match(r"ok tuple:\[str:'runaway';list:\[(.*)\]\]$", o)
    if m:
        return "runaway %s" % vis(m.group(1))
    return o


def gen_dict_script(rng, n0, steps):
    """returns (python dict literal source, model script token, has_same_size_step)"""
    script, toks = {}, []
    fresh = 100
    live_guess = list(range(n0))
    for i in range(steps):
        r = rng.random()
        ops = []
        if r < 0.45:
            pass
        elif r < 0.60:                       # same size: delete one, insert a new one
            k = rng.choice(live_guess) if live_guess and rng.random() < 0.8 else rng.randint(0, 12)
            ops = [("d", k), ("s", fresh, 1)]
            fresh += 1
        elif r < 0.70:                       # grow
            ops = [("s", fresh, 2)]
            fresh += 1
        elif r < 0.80:                       # shrink
            ops = [("d", rng.choice(live_guess) if live_guess else 0)]
        elif r < 0.90:                       # replace a value (no structural change)
            ops = [("s", rng.choice(live_guess) if live_guess else 0, 7 + i)]
        elif r < 0.94:
            ops = [("c",)]
        else:                                # several ops, net size unchanged or not
            for _ in range(rng.randint(2, 4)):
                if rng.random() < 0.5:
                    ops.append(("s", fresh, 3))
                    fresh += 1
                else:
                    ops.append(("d", rng.randint(0, 12)))
        for op in ops:
            if op[0] == "s" and op[1] not in live_guess:
                live_guess.append(op[1])
            elif op[0] == "d" and op[1] in live_guess:
                live_guess.remove(op[1])
            elif op[0] == "c":
                live_guess = []
        if ops:
            script[i] = ops
        toks.append(",".join("c" if op[0] == "c" else ("d%d" % op[1] if op[0] == "d" else "s%d=%d" % (op[1], op[2])) for op in ops) or "-")
    return repr(script), "/".join(toks) or "-"


def run_dicts(ctx):
    rng = ctx.rng
    src = dict_module()
    py = write_py(ctx, "c14dict", src)
    opts = ["-O0"] if ctx.quick else ["-O0", "-O2"]
    for opt in opts:
        sos = build_all(ctx, [dict(name="c14dict", source=src)], opt)
        so = sos[0]
        if not so:
            continue
        # ---- dicts
        cases = []
        fixed = [([0], "{0: [('d', 0), ('s', 1, 0)], 1: [('d', 1), ('s', 2, 0)], 2: [('d', 2), ('s', 3, 0)], 3: [('d', 3), ('s', 4, 0)], 4: [('d', 4), ('s', 5, 0)], 5: [('d', 5), ('s', 6, 0)]}",
                  "d0,s1=0/d1,s2=0/d2,s3=0/d3,s4=0/d4,s5=0/d5,s6=0", -1),
                 ([0, 1, 2], "{}", "-", -1), ([], "{}", "-", -1), ([0, 1, 2], "{1: [('s', 9, 9)]}", "-/s9=9", -1),
                 ([0, 1, 2], "{0: [('d', 2)]}", "d2", -1), ([0, 1, 2, 3], "{1: [('c',)]}", "-/c", -1), ([5], "{0: [('d', 5)]}", "d5", -1),
                 ([0, 1, 2], "{2: [('s', 9, 9)]}", "-/-/s9=9", -1), ([0, 1, 2], "{0: [('s', 9, 9)]}", "s9=9", 0)]
        for keys, sc_py, sc_tok, brk in fixed:
            for name in DICT_VARIANTS:
                cases.append((name, keys, sc_py, sc_tok, brk))
        for _ in range(ctx.n(60, 600)):
            n0 = rng.choice([0, 1, 1, 2, 3, 4, 5, 5, 6, 8, 10, 11, 13])
            sc_py, sc_tok = gen_dict_script(rng, n0, rng.randint(1, 12))
            brk = -1 if rng.random() < 0.8 else rng.randint(0, 6)
            for name in rng.sample(sorted(DICT_VARIANTS), 4 if ctx.quick else 6):
                cases.append((name, list(range(n0)), sc_py, sc_tok, brk))
        calls = [(name, "(%r, %s, %d)" % (keys, sc_py, brk)) for name, keys, sc_py, sc_tok, brk in cases]
        impl = cybuild.run_cases(ctx, so, calls, timeout_per_case=20)
        orac = cybuild.run_cases(ctx, py, calls, timeout_per_case=20)
        lines = []
        for name, keys, sc_py, sc_tok, brk in cases:
            what, var = DICT_VARIANTS[name][5], DICT_VARIANTS[name][6]
            ks = ",".join(map(str, keys)) or "-"
            lines += ["C14D dict %s %s %s %s %d 201" % (var, what, ks, sc_tok, brk), "C14D dict py %s %s %s %d 201" % (what, ks, sc_tok, brk)]
        mo = ctx.drv.batch(lines)
        for j, (name, keys, sc_py, sc_tok, brk) in enumerate(cases):
            what = DICT_VARIANTS[name][5]
            im, orc = canon_dict(impl[j], what), canon_dict(orac[j], what)
            mcy, mpy = mo[2 * j], mo[2 * j + 1]
            ctx.count("dict/%s/%s" % (name, "keys-changed" if " keys " in mpy else "size-changed" if " size " in mpy else "ok"))
            ctx.seen(("dict", name, tuple(keys), sc_tok, brk, opt), nontrivial=(sc_tok != "-"))
            rep = {"dict": {"fn": name, "keys": keys, "script": sc_py, "script_model": sc_tok, "brk": brk}, "opt": opt,
                   "impl": cut(im), "cpython": cut(orc), "model_cy": cut(mcy), "model_py": cut(mpy)}
            desc = "%s keys=%s script=%s brk=%d %s: " % (name, cut(keys, 60), cut(sc_tok, 80), brk, opt)
            if orc != mpy:
                ctx.tie_break("CPython dict iterator vs CyVerif.C14D.pyNext/PyDict", desc + "CPython %s, model %s" % (cut(orc, 120), cut(mpy, 120)), rep)
            if im != mcy:
                ctx.tie_break("D-c __Pyx_dict_iter_next vs CyVerif.C14D.cyNext", desc + "impl %s, model %s" % (cut(im, 120), cut(mcy, 120)), rep)
            if im != orc:
                key = "dict-keys-changed-undetected" if " keys " in mpy else "dict-unexpected-" + name
                ctx.violation(key, desc + "compiled %s, CPython %s" % (cut(im, 140), cut(orc, 140)), rep)
        ctx.sample({"case": cut(calls[len(calls) // 2], 160), "impl": cut(impl[len(calls) // 2], 100), "model": cut(mo[len(calls) - len(calls) % 2], 100)})
        # ---- sets
        run_sets(ctx, so, py, opt)


def gen_set_script(rng, keys, steps):
    """(python literal, model token or None when the abstract table cannot predict the order, kind)"""
    script, toks = {}, []
    fresh = 1000
    predictable = True
    live = list(keys)
    for i in range(steps):
        r = rng.random()
        ops = []
        if r < 0.5:
            pass
        elif r < 0.65:
            ops = [("a", fresh)]
            fresh += 1
        elif r < 0.8 and live:
            ops = [("r", rng.choice(live))]
        elif r < 0.9 and live:                 # same size: order in the rebuilt/probed table is CPython's business
            ops = [("r", rng.choice(live)), ("a", fresh)]
            fresh += 1
            predictable = False
        else:
            ops = [("a", rng.choice(live))] if live else []     # adding a present key: no change
            ops = ops and []                    # (kept out of the model script: no structural effect)
        for op in ops:
            if op[0] == "a" and op[1] not in live:
                live.append(op[1])
            elif op[0] == "r" and op[1] in live:
                live.remove(op[1])
        if ops:
            script[i] = ops
        toks.append(",".join(("s%d=0" % op[1]) if op[0] == "a" else "d%d" % op[1] for op in ops) or "-")
    return repr(script), ("/".join(toks) or "-") if predictable else None


def run_sets(ctx, so, py, opt):
    rng = ctx.rng
    cases = []
    for _ in range(ctx.n(40, 400)):
        n0 = rng.choice([0, 1, 2, 3, 5, 8, 13, 21])
        keys = rng.sample(range(0, 60), n0)
        for name in SET_VARIANTS:
            if name == "s_frozen":
                sc_py, sc_tok = "{}", "-"
            else:
                sc_py, sc_tok = gen_set_script(rng, keys, rng.randint(1, 8))
            brk = -1 if rng.random() < 0.8 else rng.randint(0, 4)
            cases.append((name, keys, sc_py, sc_tok, brk))
    calls = [(name, "(%r, %s, %d)" % (keys, sc_py, brk)) for name, keys, sc_py, sc_tok, brk in cases]
    impl = cybuild.run_cases(ctx, so, calls, timeout_per_case=20)
    orac = cybuild.run_cases(ctx, py, calls, timeout_per_case=20)
    lines, idx = [], {}
    for j, (name, keys, sc_py, sc_tok, brk) in enumerate(cases):
        if sc_tok is not None:
            s = set()
            for k in keys:
                s.add(k)
            if name == "s_frozen":
                s = frozenset(s)
            order = ",".join(map(str, list(s))) or "-"      # iteration order of the unmutated table (same CPython build)
            idx[j] = len(lines)
            lines.append("C14D set %s %s %s %d 201" % (SET_VARIANTS[name][6], order, sc_tok, brk))
    mo = ctx.drv.batch(lines)
    for j, (name, keys, sc_py, sc_tok, brk) in enumerate(cases):
        im, orc = canon_dict(impl[j], "keys"), canon_dict(orac[j], "keys")
        ctx.count("set/%s/%s" % (name, "modelled" if j in idx else "same-size(two-way)"))
        ctx.seen(("set", name, tuple(keys), sc_py, brk, opt), nontrivial=(sc_py != "{}"))
        rep = {"set": {"fn": name, "keys": keys, "script": sc_py, "brk": brk}, "opt": opt, "impl": cut(im), "cpython": cut(orc)}
        desc = "%s keys=%s script=%s brk=%d %s: " % (name, cut(keys, 60), cut(sc_py, 80), brk, opt)
        if j in idx and im != mo[idx[j]]:
            ctx.tie_break("D-c __Pyx_set_iter_next vs CyVerif.C14D.cySetNext", desc + "impl %s, model %s" % (cut(im, 120), cut(mo[idx[j]], 120)), rep)
        if im != orc:
            ctx.violation("set-unexpected-" + name, desc + "compiled %s, CPython %s" % (cut(im, 140), cut(orc, 140)), rep)


# --------------------------------------------------------------------------- enumerate, str / bytes / bytearray, C arrays, nested programs

def canon_py(v):
    """the runner's canonical form, computed here for expected values"""
    if isinstance(v, (tuple, list)):
        return type(v).__name__ + ":[" + ";".join(canon_py(x) for x in v) + "]"
    return type(v).__name__ + ":" + repr(v)


SEQ_FUNC = '''%(deco)s
def %(name)s(s, brk):
    c = %(init)s
    out = []
    er = 0
    for c in %(iterable)s:
        out.append(c)
        if len(out) - 1 == brk:
            break
    else:
        er = 1
    return (out, c, er)
'''

# name -> (decorator, init, iterable, reversed?, kind)
SEQ_VARIANTS = {
    "st_fwd": ("@cython.locals(s=str)", "None", "s", 0, "str"),
    "st_rev": ("@cython.locals(s=str)", "None", "reversed(s)", 1, "str"),
    "st_ucs4": ("@cython.locals(s=str, c=cython.Py_UCS4)", "'?'", "s", 0, "str"),
    "st_ucs4_rev": ("@cython.locals(s=str, c=cython.Py_UCS4)", "'?'", "reversed(s)", 1, "str"),
    "by_fwd": ("@cython.locals(s=bytes)", "None", "s", 0, "bytes"),
    "by_rev": ("@cython.locals(s=bytes)", "None", "reversed(s)", 1, "bytes"),
    "by_uchar": ("@cython.locals(s=bytes, c=cython.uchar)", "63", "s", 0, "bytes"),
    "by_int": ("@cython.locals(s=bytes, c=cython.int)", "63", "s", 0, "bytes-as-char"),
    "by_int_rev": ("@cython.locals(s=bytes, c=cython.int)", "63", "reversed(s)", 1, "bytes-as-char"),
    "by_schar": ("@cython.locals(s=bytes, c=cython.schar)", "63", "s", 0, "bytes-as-char"),
    "ba_fwd": ("@cython.locals(s=bytearray)", "None", "s", 0, "bytearray"),
    "ba_rev": ("@cython.locals(s=bytearray)", "None", "reversed(s)", 1, "bytearray"),
    "li_fwd": ("@cython.locals(s=list)", "None", "s", 0, "list"),
    "li_rev": ("@cython.locals(s=list)", "None", "reversed(s)", 1, "list"),
    "tu_rev": ("@cython.locals(s=tuple)", "None", "reversed(s)", 1, "tuple"),
}

ENUM_FUNC = '''@cython.locals(%(loc)s)
def %(name)s(seq, start, brk):
    c = 55
    out = []
    xs = []
    er = 0
    for c, x in enumerate(seq, start):
        out.append(c)
        xs.append(x)
        if len(out) - 1 == brk:
            break
    else:
        er = 1
    if xs != list(seq)[:len(xs)]:
        return ('items differ', xs)
    return (out, c, er)
'''

BA_MUT = '''@cython.locals(s=bytearray)
def ba_mut(s, script, brk):
    s = bytearray(s)
    out = []
    er = 0
    for c in %s:
        out.append(c)
        if len(out) - 1 == brk:
            break
        if len(out) > 100:
            return ('runaway', out)
        for op in script.get(len(out) - 1, ()):
            if op[0] == 'a':
                s.append(op[1])
            elif op[0] == 'p' and len(s):
                s.pop()
            elif op[0] == 'c':
                del s[:]
            elif op[0] == 'i':
                s.insert(0, op[1])
    else:
        er = 1
    return (out, er, bytes(s))
'''

PROGRAMS = '''
@cython.locals(i=cython.int, j=cython.uchar, n=cython.int, m=cython.int)
def nested1(n, m, bi, bj):
    out = []
    i = -5
    j = 77
    for i in range(n):
        for j in range(m, 0, -2):
            if j == bj:
                break
            if i == bi:
                continue
            out.append((i, j))
            j = 9
        else:
            out.append((i, -1))
        i = i + 100
    else:
        out.append('outer-else')
    return (out, i, j)

@cython.locals(i=cython.long, j=cython.long, a=cython.long, b=cython.long)
def nested2(a, b):
    out = []
    i = -5
    j = -6
    for i in range(a, b, 3):
        for j in reversed(range(i, b, 2)):
            out.append((i, j))
            if j - i > 6:
                break
        else:
            out.append((i, 'else'))
    return (out, i, j)

def nested_obj(n):
    out = []
    i = j = k = None
    for i in range(0, 6, 2):
        for j in range(3, 0, -1):
            for k, ch in enumerate("ab", 7):
                out.append((i, j, k, ch))
            i = 50
    return (out, i, j, k)

@cython.locals(i=cython.short)
def while_like(lim):
    tot = 0
    i = 0
    for i in range(1, 30000, 1000):
        tot += i
        if tot > lim:
            break
    else:
        tot = -tot
    return (tot, i)

@cython.locals(i=cython.int, n=cython.int, a=cython.int, b=cython.int)
def range_forms(a, b, n):
    out = []
    i = -9
    for i in range(n):
        out.append(i)
    out.append(('after', i))
    for i in range(a, b):
        out.append(i)
    out.append(('after', i))
    for i in reversed(range(n)):
        out.append(i)
    out.append(('after', i))
    for i in reversed(range(a, b)):
        out.append(i)
    else:
        out.append('else')
    return (out, i)

@cython.locals(i=cython.int, a=cython.int, b=cython.int, s=cython.int)
def runtime_step(a, b, s):
    out = []
    i = -9
    for i in range(a, b, s):
        out.append(i)
        if len(out) > 50:
            break
    else:
        out.append('else')
    return (out, i)

@cython.locals(i=cython.int, a=cython.int, b=cython.int)
def zero_step(a, b):
    out = []
    for i in range(a, b, 0):
        out.append(i)
    return out

def literal_loops(brk):
    out = []
    for ch in "h\\xe9llo":
        out.append(ch)
        if len(out) == brk:
            break
    else:
        out.append('else1')
    for ch in reversed("abc"):
        out.append(ch)
    for ch in "日本":
        out.append(ch)
    for by in b"ab\\xff":
        out.append(by)
    for v in (3, 5, 7):
        out.append(v)
    for w in [1.5, 2.5]:
        out.append(w)
    return out

def reversed_bytes_literal():
    out = []
    for by in reversed(b"\\x00a\\x80"):
        out.append(by)
    return out

@cython.locals(c=cython.long)
def enum_forms(seq):
    out = []
    c = -1
    for c, x in enumerate(seq):
        out.append((c, x))
    for t in enumerate(seq, 3):
        out.append(t)
    for c, (x, y) in enumerate(zip(seq, seq), 10):
        out.append((c, x, y))
    for c, x in enumerate(reversed(seq)):
        out.append((c, x))
    return (out, c)

class KeysList:
    def __init__(self, ks):
        self.ks = ks
    def keys(self):
        return list(self.ks)
    def values(self):
        return tuple(k * 2 for k in self.ks)
    def items(self):
        return ((k, k * 3) for k in self.ks)

def nondict_methods(ks, brk):
    o = KeysList(ks)
    out = []
    for k in o.keys():
        out.append(k)
        if len(out) == brk:
            break
    else:
        out.append('else')
    for v in o.values():
        out.append(v)
    for k, v in o.items():
        out.append((k, v))
    for t in o.items():
        out.append(t)
    return out

@cython.locals(d=dict, s=set)
def dict_program(n):
    d = {}
    for i in range(n):
        d[i] = i * i
    s = set()
    tot = []
    for k, v in d.items():
        for k2 in d:
            if k2 > k:
                break
            s.add((k, k2, v))
        else:
            tot.append(k)
    for t in sorted(s):
        tot.append(t)
    return tot
'''


def seq_module():
    src = [HEADER % ""]
    for name, (deco, init, iterable, rev, kind) in SEQ_VARIANTS.items():
        src.append(SEQ_FUNC % dict(deco=deco, name=name, init=init, iterable=iterable))
    for tname, tag, w, sg in TYPES:
        src.append(ENUM_FUNC % dict(loc="c=cython.%s, start=cython.%s" % (tname, tname), name="en_" + tag))
        src.append(ENUM_FUNC % dict(loc="c=cython.%s, start=cython.%s, seq=list" % (tname, tname), name="enl_" + tag))
    src.append(ENUM_FUNC % dict(loc="brk=cython.long", name="en_obj"))
    src.append(BA_MUT % "s")
    src.append((BA_MUT % "reversed(s)").replace("def ba_mut(", "def ba_mut_rev("))
    src.append(PROGRAMS)
    return "\n".join(src)


def run_seqs(ctx, fixedU):
    rng = ctx.rng
    src = seq_module()
    py = write_py(ctx, "c14seq", src)
    opts = ["-O0"] if ctx.quick else ["-O0", "-O2"]
    strs = ["", "a", "abc", "h\xe9llo", "日本語x", "a\U0001F600b", "x" * 40, "\xff\x00z"]
    byts = [b"", b"a", b"abc", b"\x00\xff\x80", bytes(range(0, 256, 5)), b"zz\x00"]
    for _ in range(ctx.n(6, 60)):
        strs.append("".join(rng.choice("ab\xe9Ж日\U0001F600 ") for _ in range(rng.randint(0, 12))))
        byts.append(bytes(rng.randint(0, 255) for _ in range(rng.randint(0, 12))))
    lists = [[], [5], [3, 1, 2], list(range(7))]
    seq_cases = []
    for name, (deco, init, iterable, rev, kind) in SEQ_VARIANTS.items():
        pool = {"str": strs, "bytes": byts, "bytes-as-char": byts, "bytearray": [bytearray(b) for b in byts], "list": lists,
                "tuple": [tuple(l) for l in lists]}[kind]
        for s in pool:
            for brk in sorted(set([-1, 0, len(s) - 1, rng.randint(0, max(len(s), 1))])):
                seq_cases.append((name, s, brk, rev, eval(init)))
    for opt in opts:
        so = build_all(ctx, [dict(name="c14seq", source=src)], opt)[0]
        if not so:
            continue
        # ---- str / bytes / bytearray / list / tuple: index loops
        calls = [(name, "(%r, %d)" % (s, brk)) for name, s, brk, rev, init in seq_cases]
        impl = cybuild.run_cases(ctx, so, calls, timeout_per_case=20)
        orac = cybuild.run_cases(ctx, py, calls, timeout_per_case=20)
        mo = ctx.drv.batch(["C14 range strict 64 1 64 1 0 0 %d %d 0 %d 1 %d -1 0 %d 77" % (rev, fixedU, len(s), brk, len(s) + 5)
                            for name, s, brk, rev, init in seq_cases])
        for j, (name, s, brk, rev, init) in enumerate(seq_cases):
            m = re.match(r"ok \[(.*)\] t=(-?\d+) else=([01])$", mo[j])
            items = list(s)
            as_char = SEQ_VARIANTS[name][4] == "bytes-as-char"
            if as_char:
                # the element is read through a `char*` (signed on this platform) and widened to the signed target
                items = [b - 256 if b >= 128 else b for b in items]
            if m:
                idx = [int(x) for x in m.group(1).split(",")] if m.group(1) else []
                elems = [items[i] for i in idx]
                exp = "ok " + canon_py((elems, elems[-1] if elems else init, int(m.group(3))))
            else:
                exp = "model: " + mo[j]
            ctx.count("seq/" + name)
            ctx.seen(("seq", name, bytes(s) if isinstance(s, bytearray) else s if not isinstance(s, list) else tuple(s), brk, opt), nontrivial=len(s) > 0)
            rep = {"seq": {"fn": name, "arg": cut(repr(s), 200), "brk": brk}, "opt": opt, "impl": cut(impl[j]), "cpython": cut(orac[j]), "model": cut(exp)}
            desc = "%s(%s, %d) %s: " % (name, cut(repr(s), 60), brk, opt)
            if impl[j] != exp:
                ctx.tie_break("D-c index loop (str/bytes/list) vs CyVerif.C14.rangeLoop on indices", desc + "impl %s, model %s" % (cut(impl[j], 120), cut(exp, 120)), rep)
            if impl[j] != orac[j]:
                ctx.violation("bytes-signed-target-sees-signed-char" if as_char else "seq-unexpected-" + name, desc + "compiled %s, CPython %s" % (cut(impl[j], 140), cut(orac[j], 140)), rep)
        # ---- enumerate
        ecases = []
        for tname, tag, w, sg in TYPES:
            lo, hi = bounds(w, sg)
            for fn in ("en_" + tag, "enl_" + tag):
                for n in (0, 1, 3, 6):
                    for start in sorted(set(x for x in (lo, 0, 5, hi - n - 1, hi - n, hi - n + 1, hi - 1, hi, rng.randint(max(lo, -1000), min(hi, 1000))) if lo <= x <= hi)):
                        brk = rng.choice([-1, -1, 0, n - 1, 1])
                        ecases.append((fn, w, sg, n, start, brk))
        calls = [(fn, "(%r, %d, %d)" % (list(range(100, 100 + n)), start, brk)) for fn, w, sg, n, start, brk in ecases]
        calls += [("en_obj", "(%r, %d, %d)" % (list(range(n)), start, -1)) for n in (0, 2, 5) for start in (0, -3, 2 ** 62, 2 ** 64)]
        impl = [canon_loop(o) for o in cybuild.run_cases(ctx, so, calls, timeout_per_case=20)]
        orac = [canon_loop(o) for o in cybuild.run_cases(ctx, py, calls, timeout_per_case=20)]
        lines = []
        for fn, w, sg, n, start, brk in ecases:
            started = n if (brk < 0 or brk >= n) else brk + 1
            lines += ["C14 enum strict %d %d %d %d" % (w, sg, start, started), "C14 enum wrap %d %d %d %d" % (w, sg, start, started)]
        mo = ctx.drv.batch(lines)
        for j, (fn, w, sg, n, start, brk) in enumerate(ecases):
            lo, hi = bounds(w, sg)
            started = n if (brk < 0 or brk >= n) else brk + 1
            er = 1 if (brk < 0 or brk >= n) else 0
            strict, wrap = mo[2 * j], mo[2 * j + 1]

            def exp_of(line):
                m = re.match(r"ok \[(.*)\]$", line)
                if not m:
                    return line
                cs = m.group(1).split(",") if m.group(1) else []
                return "ok [%s] t=%s else=%d" % (",".join(cs), cs[-1] if cs else 55, er)
            safe = started == 0 or start + started <= hi
            ctx.count("enumerate/%s%d/%s" % ("s" if sg else "u", w, "safe" if safe else "excluded"))
            ctx.seen(("enum", fn, n, start, brk, opt), nontrivial=n > 0)
            rep = {"enumerate": {"fn": fn, "n": n, "start": start, "brk": brk}, "opt": opt, "impl": cut(impl[j]), "cpython": cut(orac[j]),
                   "model_strict": cut(strict), "model_wrap": cut(wrap)}
            desc = "%s(list of %d, start=%d, brk=%d) %s: " % (fn, n, start, brk, opt)
            if strict != "ub signedOverflow":
                if impl[j] != exp_of(strict):
                    ctx.tie_break("D-c enumerate counter vs CyVerif.C14.enumCounters", desc + "impl %s, model %s" % (cut(impl[j], 100), cut(exp_of(strict), 100)), rep)
            elif opt == "-O0" and impl[j] != exp_of(wrap):
                ctx.tie_break("D-c enumerate counter (wrap-around run) vs CyVerif.C14.enumCounters", desc + "impl %s, model %s" % (cut(impl[j], 100), cut(exp_of(wrap), 100)), rep)
            if safe and exp_of(strict) != orac[j]:
                ctx.tie_break("CPython enumerate vs model inside the theorem's domain", desc + "CPython %s, model %s" % (cut(orac[j], 100), cut(exp_of(strict), 100)), rep)
            if impl[j] != orac[j]:
                ctx.violation("enumerate-counter-overflow" if not safe else "enumerate-unexpected-%s%d" % ("s" if sg else "u", w),
                              desc + "compiled %s, CPython %s" % (cut(impl[j], 120), cut(orac[j], 120)), rep)
        for j in range(len(ecases), len(calls)):
            ctx.count("enumerate/object")
            if impl[j] != orac[j]:
                ctx.violation("enumerate-unexpected-object", "%s%s %s: compiled %s, CPython %s" % (calls[j][0], cut(calls[j][1], 80), opt, cut(impl[j], 100), cut(orac[j], 100)),
                              {"call": calls[j], "opt": opt})
        # ---- bytearray mutated during iteration, nested programs: compiled vs CPython (no model)
        calls = []
        for _ in range(ctx.n(40, 300)):
            b = bytes(rng.randint(0, 255) for _ in range(rng.randint(0, 8)))
            script = {}
            for i in range(rng.randint(0, 6)):
                if rng.random() < 0.5:
                    script[i] = [rng.choice([("a", rng.randint(0, 255)), ("p",), ("c",), ("i", 1), ("p",), ("a", 7)]) for _ in range(rng.randint(1, 2))]
            calls.append((rng.choice(["ba_mut", "ba_mut_rev"]), "(bytearray(%r), %r, %d)" % (b, script, rng.choice([-1, -1, 2]))))
        for n, m, bi, bj in [(0, 0, -1, -1), (3, 7, 1, 3), (4, 6, -1, 2), (2, 200, 0, 150), (5, 1, 9, 9), (3, 8, 2, 8)]:
            calls.append(("nested1", "(%d, %d, %d, %d)" % (n, m, bi, bj)))
        for a, b in [(0, 0), (0, 10), (-7, 9), (5, -5), (0, 25), (-3, -2)]:
            calls.append(("nested2", "(%d, %d)" % (a, b)))
        calls += [("nested_obj", "(3,)"), ("while_like", "(5000,)"), ("while_like", "(10**9,)"), ("dict_program", "(0,)"), ("dict_program", "(5,)")]
        for a, b, n in [(0, 0, 0), (2, 7, 4), (-3, 3, 1), (5, 1, 6), (-2147483647, -2147483640, 3), (2147483640, 2147483647, 2)]:
            calls.append(("range_forms", "(%d, %d, %d)" % (a, b, n)))
        for a, b, st in [(0, 10, 3), (10, 0, -3), (0, 10, 0), (5, 5, 1), (0, 10, -1), (-7, 7, 5), (7, -7, -5), (0, 3, 100)]:
            calls.append(("runtime_step", "(%d, %d, %d)" % (a, b, st)))
        calls += [("zero_step", "(0, 5)"), ("zero_step", "(5, 0)"), ("reversed_bytes_literal", "()"), ("literal_loops", "(-1,)"), ("literal_loops", "(2,)"),
                  ("enum_forms", "([],)"), ("enum_forms", "(['a', 'b', 'c'],)"), ("enum_forms", "((4, 5),)"),
                  ("nondict_methods", "([1, 2, 3], -1)"), ("nondict_methods", "([], -1)"), ("nondict_methods", "([4, 5], 1)")]
        impl = cybuild.run_cases(ctx, so, calls, timeout_per_case=20)
        orac = cybuild.run_cases(ctx, py, calls, timeout_per_case=20)
        for c, im, orc in zip(calls, impl, orac):
            ctx.count("programs(two-way)/" + c[0])
            ctx.seen(("prog", c, opt), nontrivial=True)
            if im != orc:
                ctx.violation("reversed-bytes-literal-yields-bytes" if c[0] == "reversed_bytes_literal" else "program-unexpected-" + c[0], "%s%s %s: compiled %s, CPython %s" % (c[0], cut(c[1], 100), opt, cut(im, 120), cut(orc, 120)),
                              {"call": c, "opt": opt, "impl": cut(im), "cpython": cut(orc)})


# --------------------------------------------------------------------------- C arrays (.pyx; oracle = the same slice of a Python list)

ARR_N = 10


def arr_module():
    src = ["# cython: language_level=3"]
    body = ("    cdef int[%d] arr\n    cdef int k, x = -1\n    cdef int* p = arr\n    for k in range(%d):\n        arr[k] = 100 + k\n"
            "    out = []\n    er = 0\n    for x in %%s:\n        out.append(x)\n        if len(out) - 1 == brk:\n            break\n"
            "    else:\n        er = 1\n    return (out, x, er)\n" % (ARR_N, ARR_N))
    funcs = []
    src.append("def ca_whole(int a, int b, int brk):\n" + body % "arr")
    funcs.append(("ca_whole", None, 0))
    src.append("def ca_rev_whole(int a, int b, int brk):\n" + body % "reversed(arr)")
    funcs.append(("ca_rev_whole", None, 1))
    src.append("def ca_slice(int a, int b, int brk):\n" + body % "arr[a:b]")
    funcs.append(("ca_slice", 1, 0))
    src.append("def ca_ptr_slice(int a, int b, int brk):\n" + body % "p[a:b]")
    funcs.append(("ca_ptr_slice", 1, 0))
    src.append("""
def ff_c(int a, int b, int brk):
    cdef int i = -1
    out = []
    er = 0
    for i from a <= i < b by 2:
        out.append(i)
        if len(out) - 1 == brk:
            break
    else:
        er = 1
    return (out, i, er)

def ff_obj(int a, int b, int brk):
    out = []
    er = 0
    o = None
    for o from a >= o > b:
        out.append(o)
        if len(out) - 1 == brk:
            break
    else:
        er = 1
    return (out, o, er)

gl = []
for gi from 0 <= gi < 4 by 3:
    gl.append(gi)

def module_level():
    return (gl, gi)

def mv_loop(bytes data, int brk):
    cdef const unsigned char[:] mv = data
    cdef int x = -1
    out = []
    er = 0
    for x in mv:
        out.append(x)
        if len(out) - 1 == brk:
            break
    else:
        er = 1
    for x in reversed(mv):
        out.append(x)
    return (out, x, er)
""")
    for s in (1, 2, 3, -1, -2, -3):
        src.append("def ca_step_%s(int a, int b, int brk):\n" % sname(s) + body % ("arr[a:b:%d]" % s))
        funcs.append(("ca_step_" + sname(s), s, 0))
        src.append("def ca_rev_step_%s(int a, int b, int brk):\n" % sname(s) + body % ("reversed(arr[a:b:%d])" % s))
        funcs.append(("ca_rev_step_" + sname(s), s, 1))
    return "\n".join(src), funcs


def forfrom_extra(ctx, so, opt):
    """`for i from a <= i < b by 2` (C target; the final value is the failing loop value, Pyrex semantics), an object target
    counting down, typed memoryview loops: compiled vs the semantics written out here (no model)"""
    calls, exp = [], []
    for a, b, brk in [(0, 0, -1), (0, 7, -1), (0, 8, -1), (3, 4, -1), (-5, 5, 1), (9, 2, -1), (0, 7, 0)]:
        vis = list(range(a, b, 2))
        if 0 <= brk < len(vis):
            vis, fin, er = vis[:brk + 1], vis[brk], 0
        else:
            fin, er = (a + 2 * len(vis)), 1           # C loop variable keeps the value that failed the test
        calls.append(("ff_c", "(%d, %d, %d)" % (a, b, brk)))
        exp.append("ok " + canon_py((vis, fin, er)))
        vis = list(range(b, a, -1))                    # ff_obj(b, a): for o from b >= o > a
        if 0 <= brk < len(vis):
            vis2, fin2, er2 = vis[:brk + 1], vis[brk], 0
        else:
            vis2, fin2, er2 = vis, (b - len(vis)), 1
        calls.append(("ff_obj", "(%d, %d, %d)" % (b, a, brk)))
        exp.append("ok " + canon_py((vis2, fin2, er2)))
    for data, brk in [(b"", -1), (b"abc", -1), (b"\x00\xff\x80z", 1), (bytes(range(250, 256)), -1)]:
        l = list(data)
        vis = l if not (0 <= brk < len(l)) else l[:brk + 1]
        er = 0 if 0 <= brk < len(l) else 1
        allv = vis + l[::-1]
        calls.append(("mv_loop", "(%r, %d)" % (data, brk)))
        exp.append("ok " + canon_py((allv, allv[-1] if allv else -1, er)))
    calls.append(("module_level", "()"))
    exp.append("ok " + canon_py(([0, 3], 6)))       # module-global loop variable: the failing value is stored back
    got = cybuild.run_cases(ctx, so, calls, timeout_per_case=20)
    for c, g, e in zip(calls, got, exp):
        ctx.count("forfrom-memoryview(two-way)/" + c[0])
        ctx.seen(("ffmv", c, opt), nontrivial=True)
        if g != e:
            ctx.violation("extra-unexpected-" + c[0], "%s%s %s: compiled %s, expected %s" % (c[0], c[1], opt, cut(g, 130), cut(e, 130)),
                          {"call": c, "opt": opt, "impl": cut(g), "expected": cut(e)})


def run_arrays(ctx, fixedU):
    rng = ctx.rng
    src, funcs = arr_module()
    opts = ["-O0"] if ctx.quick else ["-O0", "-O2"]
    L = [100 + k for k in range(ARR_N)]
    for opt in opts:
        try:
            so = cybuild.build_module(ctx, "c14arr", src, ext=".pyx", opt=opt)
        except cybuild.BuildError as e:
            ctx.tie_break("D-c build c14arr", e.stage + ": " + cut(e.log[-500:], 500), {"opt": opt})
            continue
        cases = []
        for fn, s, rev in funcs:
            if s is None:
                pairs = [(0, ARR_N)]
            elif s > 0:
                pairs = [(a, b) for a in range(0, ARR_N + 1) for b in range(a, ARR_N + 1)]      # C has no clamping: stay inside the array
            else:
                pairs = [(a, b) for a in range(0, ARR_N) for b in range(0, a + 1)]
            for a, b in rng.sample(pairs, min(len(pairs), ctx.n(14, 60))):
                cases.append((fn, s, rev, a, b, rng.choice([-1, -1, 0, 2])))
        forfrom_extra(ctx, so, opt)
        calls = [(fn, "(%d, %d, %d)" % (a, b, brk)) for fn, s, rev, a, b, brk in cases]
        impl = cybuild.run_cases(ctx, so, calls, timeout_per_case=20)
        # model: the index sequence of the pointer loop; only for the forms the range model describes
        lines, idx = [], {}
        for j, (fn, s, rev, a, b, brk) in enumerate(cases):
            if not (rev and s is not None):
                idx[j] = len(lines)
                lines.append("C14 range strict 64 1 64 1 0 0 %d %d %d %d %d %d -1 0 40 -1" % (rev, fixedU, a, b, s or 1, brk))
        mo = ctx.drv.batch(lines)
        for j, (fn, s, rev, a, b, brk) in enumerate(cases):
            sl = L if s is None else L[a:b:s]
            seq = list(reversed(sl)) if rev else sl
            vis = seq if (brk < 0 or brk >= len(seq)) else seq[:brk + 1]
            orc = "ok " + canon_py((vis, vis[-1] if vis else -1, 1 if len(vis) == len(seq) and not (0 <= brk < len(seq)) else 0))
            ctx.count("carray/" + ("reversed-step(two-way)" if j not in idx else "modelled"))
            ctx.seen(("arr", fn, a, b, brk, opt), nontrivial=len(seq) > 0)
            rep = {"carray": {"fn": fn, "a": a, "b": b, "brk": brk}, "opt": opt, "impl": cut(impl[j]), "python_list": cut(orc)}
            desc = "%s(%d, %d, %d) %s: " % (fn, a, b, brk, opt)
            if j in idx:
                m = re.match(r"ok \[(.*)\] t=(-?\d+) else=([01])$", mo[idx[j]])
                if m:
                    ids = [int(x) for x in m.group(1).split(",")] if m.group(1) else []
                    el = [100 + i for i in ids]
                    exp = "ok " + canon_py((el, el[-1] if el else -1, int(m.group(3))))
                else:
                    exp = "model: " + mo[idx[j]]
                if impl[j] != exp:
                    ctx.tie_break("D-c C array loop vs CyVerif.C14.rangeLoop on indices", desc + "impl %s, model %s" % (cut(impl[j], 120), cut(exp, 120)), rep)
            if impl[j] != orc:
                key = "carray-reversed-slice-with-step" if (rev and s is not None) else "carray-unexpected-" + fn
                ctx.violation(key, desc + "compiled %s, Python list semantics %s" % (cut(impl[j], 130), cut(orc, 130)), rep)

"""C33: the type grammar, its Cython spelling, Lean tokens, canonical form of results and the independent oracle."""
import collections.abc as abc

from c33_enc import enc, Gen, Other, SetList, DictList, fbits

# multi-word C type names do not parse inside template brackets (`map[string, unsigned int]`): use ctypedefs
INT_NAMES = {(8, True): "schar", (8, False): "uchar", (16, True): "short", (16, False): "ushort",
             (32, True): "int", (32, False): "uint", (64, True): "llong", (64, False): "ullong"}
TYPEDEFS = ("ctypedef signed char schar\nctypedef unsigned char uchar\nctypedef unsigned short ushort\n"
            "ctypedef unsigned int uint\nctypedef long long llong\nctypedef unsigned long long ullong\n")

# type constructors: tuples
def Int(w=32, sg=True): return ("int", w, sg)
DBL, BOOL, STR, CSTR, CPLX = ("dbl",), ("bool",), ("str",), ("cstr",), ("cplx",)
def Pair(a, b): return ("pair", a, b)
def Vec(t): return ("vec", t)
def Lst(t): return ("lst", t)
def Set(t): return ("set", t)
def USet(t): return ("uset", t)
def Map(k, v): return ("map", k, v)
def UMap(k, v): return ("umap", k, v)
def Struct(name, *fields): return ("struct", name, tuple(fields))
def Union(name, *fields): return ("union", name, tuple(fields))
def CArr(t, n): return ("carray", t, n)
def CTup(*ts): return ("ctuple", tuple(ts))

CPP_KINDS = {"pair", "vec", "lst", "set", "uset", "map", "umap", "cplx", "str"}


def needs_cpp(T):
    return T[0] in CPP_KINDS or any(needs_cpp(c) for c in children(T))


def children(T):
    k = T[0]
    if k in ("pair", "map", "umap"):
        return [T[1], T[2]]
    if k in ("vec", "lst", "set", "uset", "carray"):
        return [T[1]]
    if k in ("struct", "union"):
        return [t for _, t in T[2]]
    if k == "ctuple":
        return list(T[1])
    return []


def has_kind(T, kinds):
    return T[0] in kinds or any(has_kind(c, kinds) for c in children(T))


def cy_type(T, decls):
    """Cython spelling; struct/union declarations are appended to `decls` (dict name -> text, insertion ordered)."""
    k = T[0]
    if k == "int":
        return INT_NAMES[(T[1], T[2])]
    if k == "dbl":
        return "double"
    if k == "bool":
        return "bint"
    if k == "str":
        return "string"
    if k == "cstr":
        return "char*"
    if k == "cplx":
        return "cppcomplex[double]"
    if k == "pair":
        return "pair[%s, %s]" % (cy_type(T[1], decls), cy_type(T[2], decls))
    if k in ("vec", "lst", "set", "uset"):
        nm = {"vec": "vector", "lst": "cpplist", "set": "cppset", "uset": "unordered_set"}[k]
        return "%s[%s]" % (nm, cy_type(T[1], decls))
    if k in ("map", "umap"):
        nm = {"map": "cppmap", "umap": "unordered_map"}[k]
        return "%s[%s, %s]" % (nm, cy_type(T[1], decls), cy_type(T[2], decls))
    if k in ("struct", "union"):
        if T[1] not in decls:
            lines = []
            for fn, ft in T[2]:
                base, suffix = cy_decl(ft, decls)
                lines.append("    %s %s%s" % (base, fn, suffix))
            decls[T[1]] = "cdef %s %s:\n%s\n" % (k, T[1], "\n".join(lines))
        return T[1]
    if k == "carray":
        base, suffix = cy_decl(T, decls)
        return base + suffix
    if k == "ctuple":
        return "(%s%s)" % (", ".join(cy_type(t, decls) for t in T[1]), "," if len(T[1]) == 1 else "")
    raise ValueError(T)


def cy_decl(T, decls):
    """(base type, array suffix) so that `base name suffix` declares a variable"""
    dims = ""
    while T[0] == "carray":
        dims += "[%d]" % T[2]
        T = T[1]
    return cy_type(T, decls), dims


def tok_type(T):
    k = T[0]
    if k == "int":
        return ("I" if T[2] else "U") + str(T[1])
    if k in ("dbl", "bool", "str", "cstr", "cplx"):
        return {"dbl": "D", "bool": "B", "str": "S", "cstr": "Z", "cplx": "X"}[k]
    if k in ("pair", "map", "umap"):
        return {"pair": "P", "map": "M", "umap": "N"}[k] + " " + tok_type(T[1]) + " " + tok_type(T[2])
    if k in ("vec", "lst", "set", "uset"):
        return {"vec": "V", "lst": "L", "set": "E", "uset": "H"}[k] + " " + tok_type(T[1])
    if k in ("struct", "union"):
        return ("R" if k == "struct" else "W") + str(len(T[2])) + "".join(" %s %s" % (fn, tok_type(ft)) for fn, ft in T[2])
    if k == "carray":
        return "A%d %s" % (T[2], tok_type(T[1]))
    if k == "ctuple":
        return "C%d" % len(T[1]) + "".join(" " + tok_type(t) for t in T[1])
    raise ValueError(T)


def show(T):
    return cy_type(T, {})


# ----------------------------------------------------------------------------------------------------------
# canonical form of a RESULT of type T (type-directed: set and unordered containers sorted, map order kept)

def _key(v):
    return enc(v, True)


def _sorted(xs, keyf=lambda v: v):
    try:
        return sorted(xs, key=keyf)
    except TypeError:
        return sorted(xs, key=lambda v: _key(keyf(v)))


def canon(T, v):
    """-> token string; raises ValueError if v has not the Python shape a to_py conversion of T produces"""
    k = T[0]
    if k in ("int", "dbl", "bool", "cplx"):
        want = {"int": int, "dbl": float, "bool": bool, "cplx": complex}[k]
        if type(v) is not want:
            raise ValueError("shape")
        return enc(v)
    if k in ("str", "cstr"):
        if type(v) not in (bytes, str):
            raise ValueError("shape")
        return enc(v)
    if k == "pair":
        if type(v) is not tuple or len(v) != 2:
            raise ValueError("shape")
        return "t2 %s %s" % (canon(T[1], v[0]), canon(T[2], v[1]))
    if k in ("vec", "lst", "carray"):
        if type(v) is not list:
            raise ValueError("shape")
        return " ".join(["l%d" % len(v)] + [canon(T[1], x) for x in v])
    if k in ("set", "uset"):
        if not isinstance(v, (set, SetList)):
            raise ValueError("shape")
        xs = _sorted(list(v))
        return " ".join(["s%d" % len(xs)] + [canon(T[1], x) for x in xs])
    if k in ("map", "umap"):
        if not isinstance(v, (dict, DictList)):
            raise ValueError("shape")
        kv = list(v.items()) if isinstance(v, dict) else list(v)
        if k == "umap":
            kv = _sorted(kv, lambda p: p[0])
        return " ".join(["d%d" % len(kv)] + [canon(T[1], a) + " " + canon(T[2], b) for a, b in kv])
    if k in ("struct", "union"):
        if not isinstance(v, (dict, DictList)):
            raise ValueError("shape")
        kv = list(v.items()) if isinstance(v, dict) else list(v)
        if [a for a, _ in kv] != [fn for fn, _ in T[2]]:
            raise ValueError("shape")
        parts = []
        for (fn, ft), (_, b) in zip(T[2], kv):
            parts.append(enc(fn) + " " + ("o" if isinstance(b, Other) else canon(ft, b)))
        return " ".join(["d%d" % len(kv)] + parts)
    if k == "ctuple":
        if type(v) is not tuple or len(v) != len(T[1]):
            raise ValueError("shape")
        return " ".join(["t%d" % len(v)] + [canon(t, x) for t, x in zip(T[1], v)])
    raise ValueError(T)


# ----------------------------------------------------------------------------------------------------------
# independent oracle: the property stated on the decoded input tree (Gen/Other/SetList/DictList stand-ins)

BAD = object()
TE, VE, OE, IE = "TypeError", "ValueError", "OverflowError", "IndexError"
UEE, UDE = "UnicodeEncodeError", "UnicodeDecodeError"
CODEC = {"ascii": "ascii", "utf8": "utf-8"}


def iter_items(x):
    if isinstance(x, DictList):
        return [k for k, _ in x]
    if isinstance(x, (list, tuple)):          # list, tuple, Gen, SetList
        return list(x)
    if isinstance(x, (bytes, bytearray)):
        return list(x)
    if isinstance(x, str):
        return list(x)
    return None


def is_sequence(x):
    return type(x) in (list, tuple, str, bytes, bytearray)


def _hashable(v):
    try:
        hash(v)
        return True
    except TypeError:
        return False


def spec(T, x, mode, probs):
    k = T[0]
    if k == "int":
        if type(x) in (int, bool):
            lo, hi = (-2 ** (T[1] - 1), 2 ** (T[1] - 1) - 1) if T[2] else (0, 2 ** T[1] - 1)
            if lo <= x <= hi:
                return int(x)
            probs.append(("int-range", {OE}))
            return BAD
        probs.append(("int-type:" + type(x).__name__, {TE}))
        return BAD
    if k == "dbl":
        if type(x) is float:
            return x
        if type(x) in (int, bool):
            try:
                return float(x)
            except OverflowError:
                probs.append(("dbl-range", {OE}))
                return BAD
        probs.append(("dbl-type:" + type(x).__name__, {TE}))
        return BAD
    if k == "bool":
        return True if isinstance(x, (Gen, Other)) else bool(x)
    if k in ("str", "cstr"):
        if type(x) in (bytes, bytearray):
            b = bytes(x)
        elif type(x) is str and mode != "bytes":
            try:
                b = x.encode(CODEC[mode])
            except UnicodeEncodeError:
                probs.append(("str-unencodable", {UEE, VE}))
                return BAD
        else:
            probs.append(("str-type:" + type(x).__name__, {TE}))
            return BAD
        if k == "cstr":
            b = b.split(b"\0")[0]      # documented: a char* ends at its first NUL
        if mode == "bytes":
            return b
        try:
            return b.decode(CODEC[mode])
        except UnicodeDecodeError:
            probs.append(("str-undecodable", {UDE, VE}))
            return BAD
    if k == "cplx":
        if type(x) is complex:
            return x
        if type(x) in (float, int, bool):
            try:
                return complex(float(x))
            except OverflowError:
                probs.append(("dbl-range", {OE}))
                return BAD
        probs.append(("cplx-type:" + type(x).__name__, {TE}))
        return BAD
    if k == "pair":
        xs = iter_items(x)
        if xs is None:
            probs.append(("pair-noniterable", {TE}))
            return BAD
        if len(xs) != 2:
            probs.append(("pair-count", {VE, TE}))
            for y in xs[:2]:
                pass
            return BAD
        r = (spec(T[1], xs[0], mode, probs), spec(T[2], xs[1], mode, probs))
        return BAD if BAD in r else r
    if k in ("vec", "lst", "set", "uset", "carray"):
        xs = iter_items(x)
        if xs is None:
            probs.append((k + "-noniterable", {TE}))
            return BAD
        r = [spec(T[1], y, mode, probs) for y in xs]
        bad = any(v is BAD for v in r)
        if k == "carray":
            if len(xs) != T[2]:
                probs.append(("carray-length", {VE}))      # the property lists TypeError/ValueError/OverflowError only
                return BAD
            return BAD if bad else r
        if bad:
            return BAD
        if k in ("vec", "lst"):
            return r
        if not all(_hashable(v) for v in r):
            probs.append(("unhashable-to-py", {TE}))
            return BAD
        return set(r)
    if k in ("map", "umap"):
        if not isinstance(x, DictList):
            probs.append(("map-nonmapping", {TE}))
            return BAD
        out = {}
        bad = False
        seen_keys = set()
        for a, b in x:
            ck, cv = spec(T[1], a, mode, probs), spec(T[2], b, mode, probs)
            if ck is not BAD and _hashable(ck):
                if ck in seen_keys:
                    probs.append(("dup-keys", None))     # distinct Python keys, same C key: the property is silent
                seen_keys.add(ck)
            if ck is BAD or cv is BAD:
                bad = True
                continue
            if not _hashable(ck):
                probs.append(("unhashable-to-py", {TE}))
                bad = True
                continue
            out.setdefault(ck, cv)
        if bad:
            return BAD
        return dict(sorted(out.items())) if k == "map" else out
    if k == "struct":
        if not isinstance(x, DictList):
            probs.append(("struct-nonmapping", {TE}))
            return BAD
        d = {}
        for a, b in x:
            if type(a) is str:
                d[a] = b
        out = {}
        bad = False
        for fn, ft in T[2]:
            if fn not in d:
                probs.append(("struct-missing-key", {VE}))
                bad = True
                continue
            out[fn] = spec(ft, d[fn], mode, probs)
            bad = bad or out[fn] is BAD
        return BAD if bad else out
    if k == "union":
        if not isinstance(x, DictList):
            probs.append(("union-nonmapping", {TE, VE}))
            return BAD
        names = dict(T[2])
        if len(x) != 1 or type(x[0][0]) is not str or x[0][0] not in names:
            probs.append(("union-keys", {VE, TE}))
            return BAD
        v = spec(names[x[0][0]], x[0][1], mode, probs)
        return BAD if v is BAD else UnionVal(x[0][0], v)
    if k == "ctuple":
        if not is_sequence(x):
            probs.append(("ctuple-nonsequence", {TE}))
            return BAD
        xs = iter_items(x)
        if len(xs) != len(T[1]):
            probs.append(("ctuple-length", {TE, VE}))
            return BAD
        r = tuple(spec(t, y, mode, probs) for t, y in zip(T[1], xs))
        return BAD if any(v is BAD for v in r) else r
    raise ValueError(T)


class UnionVal:
    def __init__(self, name, v):
        self.name, self.v = name, v


def oracle_same(T, want, got):
    """equality of the oracle's value with the decoded implementation result (type-directed; the property's
    'equal values': a union must give back exactly the member that was set)"""
    k = T[0]
    try:
        if k == "union":
            kv = list(got) if isinstance(got, DictList) else None
            return (kv is not None and len(kv) == 1 and kv[0][0] == want.name
                    and oracle_same(dict(T[2])[want.name], want.v, kv[0][1]))
        if k == "struct":
            kv = list(got)
            return ([a for a, _ in kv] == [fn for fn, _ in T[2]]
                    and all(oracle_same(ft, want[fn], b) for (fn, ft), (_, b) in zip(T[2], kv)))
        if k in ("vec", "lst", "carray"):
            return type(got) is list and len(got) == len(want) and all(oracle_same(T[1], a, b) for a, b in zip(want, got))
        if k == "ctuple":
            return type(got) is tuple and len(got) == len(want) and all(oracle_same(t, a, b) for t, a, b in zip(T[1], want, got))
        if k == "pair":
            return type(got) is tuple and len(got) == 2 and oracle_same(T[1], want[0], got[0]) and oracle_same(T[2], want[1], got[1])
        return canon(T, want) == canon(T, got)
    except (ValueError, TypeError, KeyError):
        return False


# ----------------------------------------------------------------------------------------------------------
# generators: value trees (nodes [T, kind, payload]) -> Python source; kinds: leaf | list | tuple | gen | set | fset | dict

def src(node):
    T, kind, pl = node
    if kind == "leaf":
        return pl
    if kind == "dict":
        return "{" + ", ".join("%s: %s" % (src(a), src(b)) for a, b in pl) + "}"
    inner = ", ".join(src(c) for c in pl)
    if kind == "list":
        return "[" + inner + "]"
    if kind == "tuple":
        return "(" + inner + ("," if len(pl) == 1 else "") + ")"
    if kind == "gen":
        return "iter([" + inner + "])"
    if kind == "set":
        return "{" + inner + "}" if pl else "set()"
    if kind == "fset":
        return "frozenset([" + inner + "])"
    raise ValueError(kind)


def _bytes_src(rng, mode, hashable, nul_ok=True):
    n = rng.choice((0, 1, 1, 2, 3, 5))
    if mode == "bytes":
        pool = [0, 1, 65, 97, 122, 127, 128, 255] if nul_ok else [1, 65, 97, 122, 127, 128, 255]
        b = bytes(rng.choice(pool) for _ in range(n))
    else:
        pool = "aZ09 ~" + ("\x00" if nul_ok else "") + ("" if mode == "ascii" else "\xe9€\U0001F600")
        s = "".join(rng.choice(pool) for _ in range(n))
        if rng.random() < 0.5:
            return ascii(s)
        b = s.encode("utf-8")
    return repr(b) if hashable or rng.random() < 0.8 else "bytearray(%r)" % b


FLOATS = ["0.0", "-0.0", "1.5", "-2.25", "1e308", "5e-324", "inf", "-inf", "nan", "3.0", "0.1"]


def gen_good(T, rng, mode, hashable=False, depth=0):
    """a well-typed value tree for T (container kinds vary: list/tuple/iterator/set/dict-keys/bytes)"""
    k = T[0]
    if k == "int":
        lo, hi = (-2 ** (T[1] - 1), 2 ** (T[1] - 1) - 1) if T[2] else (0, 2 ** T[1] - 1)
        r = rng.random()
        v = rng.choice((lo, hi, lo + 1, hi - 1, 0, 1)) if r < 0.3 else rng.randint(lo, hi) if r < 0.5 else rng.randint(max(lo, -9), min(hi, 99))
        return [T, "leaf", ("True" if v == 1 else "False") if (r > 0.97 and v in (0, 1)) else str(v)]
    if k == "dbl":
        r = rng.random()
        return [T, "leaf", rng.choice(FLOATS) if r < 0.6 else repr(rng.uniform(-1e6, 1e6)) if r < 0.8 else str(rng.randint(-2 ** 60, 2 ** 60))]
    if k == "bool":
        return [T, "leaf", rng.choice(["True", "False", "0", "1", "None", "''", "(1,)", "0.0", "2"] if hashable else
                                      ["True", "False", "0", "1", "None", "''", "[1]", "0.0", "object()", "[]", "iter([])"])]
    if k in ("str", "cstr"):
        return [T, "leaf", _bytes_src(rng, mode, hashable)]
    if k == "cplx":
        return [T, "leaf", rng.choice(["complex(1.5, -2.0)", "1j", "complex(0.0, -0.0)", "2.5", "3", "complex(inf, 1.0)", "True"])]
    if k == "pair":
        ch = [gen_good(T[1], rng, mode, hashable, depth + 1), gen_good(T[2], rng, mode, hashable, depth + 1)]
        return [T, "tuple" if hashable or rng.random() < 0.6 else rng.choice(("list", "gen")), ch]
    if k in ("vec", "lst", "set", "uset", "carray"):
        n = T[2] if k == "carray" else rng.choice((0, 1, 2, 3, 4)) if depth < 2 else rng.choice((0, 1, 2))
        el_h = hashable or k in ("set", "uset")
        kind = "tuple" if hashable else rng.choice(("list", "list", "list", "tuple", "gen"))
        if not hashable and T[1][0] == "int" and rng.random() < 0.25:
            kind = rng.choice(("set", "fset"))
            el_h = True
        if not hashable and k in ("set", "uset") and T[1][0] in ("int", "str", "pair", "bool") and rng.random() < 0.5:
            kind = rng.choice(("set", "fset"))
        if kind in ("set", "fset") and T[1][0] == "pair" and has_kind(T[1], {"vec", "lst", "set", "uset", "map", "umap", "struct"}):
            kind = "list"
        ch = [gen_good(T[1], rng, mode, el_h or kind in ("set", "fset"), depth + 1) for _ in range(n)]
        if k in ("set", "uset") and ch and rng.random() < 0.4 and kind in ("list", "tuple", "gen"):
            ch.append(ch[rng.randrange(len(ch))])     # duplicates collapse in the C++ set
        return [T, kind, ch]
    if k in ("map", "umap"):
        n = rng.choice((0, 1, 2, 3))
        return [T, "dict", [(gen_good(T[1], rng, mode, True, depth + 1), gen_good(T[2], rng, mode, False, depth + 1)) for _ in range(n)]]
    if k == "struct":
        items = [([STR, "leaf", repr(fn)], gen_good(ft, rng, mode, False, depth + 1)) for fn, ft in T[2]]
        if rng.random() < 0.3:
            items.insert(rng.randrange(len(items) + 1), ([STR, "leaf", "'zz_extra'"], [BOOL, "leaf", "None"]))
        if rng.random() < 0.3:
            rng.shuffle(items)
        return [T, "dict", items]
    if k == "union":
        fn, ft = T[2][rng.randrange(len(T[2]))]
        return [T, "dict", [([STR, "leaf", repr(fn)], gen_good(ft, rng, mode, False, depth + 1))]]
    if k == "ctuple":
        return [T, "tuple" if hashable or rng.random() < 0.6 else "list", [gen_good(t, rng, mode, hashable, depth + 1) for t in T[1]]]
    raise ValueError(T)


def bad_sources(T, mode):
    """sources of values that are ill-typed / out of range / of the wrong container kind for T"""
    k = T[0]
    common = ["None", "object()"]
    if k == "int":
        lo, hi = (-2 ** (T[1] - 1), 2 ** (T[1] - 1) - 1) if T[2] else (0, 2 ** T[1] - 1)
        return [str(hi + 1), str(lo - 1), "2**70", "-2**70", "'x'", "b'1'", "[1]", "1.5", "inf", "nan", "1j"] + common
    if k == "dbl":
        return ["'x'", "b'1'", "10**400", "-10**400", "[1.0]", "1j"] + common
    if k == "bool":
        return []
    if k in ("str", "cstr"):
        out = ["5", "[97]", "1.5", "(b'a',)"] + common
        out += {"bytes": ["'abc'", "''"], "ascii": ["'\\xe9'", "b'\\xff'", "'a\\u20ac'"], "utf8": ["'\\ud800'", "b'\\xff'", "b'\\xc3'", "'a\\udfff'"]}[mode]
        return out
    if k == "cplx":
        return ["'x'", "b'1'", "[1]", "10**400"] + common
    out = ["5", "1.5"] + common
    if k in ("vec", "lst", "set", "uset", "carray"):
        out += ["{}", "''", "'ab'", "b'ab'", "{1: 2}", "iter([])"]
    elif k in ("map", "umap"):
        out += ["[]", "[(1, 2)]", "set()", "()", "'ab'", "iter([])"]
    elif k in ("struct", "union"):
        out += ["[]", "[1]", "(1, 2)", "{}", "'ab'", "b'ab'", "set()", "iter([])", "{'zz_other': 1}", "['%s']" % T[2][0][0], "%r" % T[2][0][0]]
    elif k == "pair":
        out += ["()", "(1,)", "(1, 2, 3)", "[]", "'ab'", "b'ab'", "{1: 2, 3: 4}", "{1, 2}", "iter([1, 2, 3])"]
    elif k == "ctuple":
        out += ["()", "[]", "{1, 2}", "{1: 2, 3: 4}", "'ab'", "b'ab'", "iter([1, 2])", "bytearray(b'ab')"]
    return out


def nodes(node, path=()):
    """all (path, node) in conversion order; dict keys are path element ('k', i), values ('v', i)"""
    yield path, node
    T, kind, pl = node
    if kind == "leaf":
        return
    if kind == "dict":
        for i, (a, b) in enumerate(pl):
            yield from nodes(a, path + (("k", i),))
            yield from nodes(b, path + (("v", i),))
    else:
        for i, c in enumerate(pl):
            yield from nodes(c, path + (i,))


def replace(node, path, new):
    if not path:
        return new
    T, kind, pl = node
    h = path[0]
    if kind == "dict":
        pl = list(pl)
        a, b = pl[h[1]]
        pl[h[1]] = (replace(a, path[1:], new), b) if h[0] == "k" else (a, replace(b, path[1:], new))
    else:
        pl = list(pl)
        pl[h] = replace(pl[h], path[1:], new)
    return [T, kind, pl]


def shape_variants(node, rng):
    """wrong lengths / missing or extra keys at this node"""
    T, kind, pl = node
    out = []
    if kind == "leaf":
        return out
    if kind == "dict":
        if pl:
            out.append([T, kind, pl[:-1]])
            out.append([T, kind, pl[1:]])
            out.append([T, kind, pl + [([STR, "leaf", "'zz_more'"], pl[-1][1])]])
        if T[0] == "union" and len(T[2]) > 1:
            other = [fn for fn, _ in T[2] if all(src(a) != repr(fn) for a, _ in pl)]
            if other:
                out.append([T, kind, pl + [([STR, "leaf", repr(other[0])], [BOOL, "leaf", "1"])]])
    else:
        if pl:
            out.append([T, kind, pl[:-1]])
            out.append([T, kind, pl + [pl[-1]]])
            for alt in ("list", "tuple", "gen"):
                if alt != kind:
                    out.append([T, alt, pl[:-1]])
                    out.append([T, alt, pl + [pl[0]]])
                    out.append([T, alt, pl])
    return out

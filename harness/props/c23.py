"""C23 — generators and coroutines follow CPython's protocol on every history.

impl   = generated generator functions (try/finally, except GeneratorExit, yield from over sub-generators and
         iterator objects with optional send/throw/close, re-entrant calls, bodies that ignore GeneratorExit or
         raise StopIteration) compiled by the STAGED compiler + gcc, driven by operation histories
model  = CyVerif.C23: Lean model of the Cython wrapper (Coroutine.c) and of CPython 3.12's genobject.c over
         the same abstract body (a small VM program sent over the line protocol)
oracle = the same source executed by CPython 3.12
"""
import concurrent.futures as cf
import os

import cybuild
import lib

# --------------------------------------------------------------------------
# the module prelude shared by every generated module (same text for Cython and CPython)

PRELUDE = r'''
import gc, sys, weakref, warnings
warnings.simplefilter('ignore')
LOG = []
REG = {}
FUNCS = {}
class U(Exception): pass
class B(BaseException): pass
_EXC = {'G': GeneratorExit, 'S': StopIteration, 'U': U, 'B': B, 'V': ValueError, 'R': RuntimeError, 'T': TypeError, 'K': KeyError}
_MSG = {"generator raised StopIteration": 'rs', "generator ignored GeneratorExit": 'ig',
        "can't send non-None value to a just-started generator": 'js', "generator already executing": 'ae',
        "coroutine raised StopIteration": 'rs', "coroutine ignored GeneratorExit": 'ig',
        "can't send non-None value to a just-started coroutine": 'js', "coroutine already executing": 'ae',
        "cannot reuse already awaited coroutine": 'ra', "": 'u'}
def mkexc(code):
    if code == 'SA':
        return StopAsyncIteration()
    if code[0] == 'S' and len(code) > 1:
        return StopIteration(int(code[1:]))
    return _EXC[code[0]]()
def vstr(v):
    return 'N' if v is None else str(v) if type(v) is int else '?' + type(v).__name__
def excname(e):
    t = type(e)
    if e is None: return 'N'
    if t is StopIteration: return 'S' + vstr(e.value)
    if t is GeneratorExit: return 'G'
    if t is StopAsyncIteration: return 'SA'
    if t is U: return 'U'
    if t is B: return 'B'
    if t is KeyError: return 'K'
    if t is AttributeError: return 'A'
    if t in (ValueError, RuntimeError, TypeError):
        return t.__name__[0] + _MSG.get(str(e), '?' + str(e)[:40].replace(' ', '_'))
    return '?' + t.__name__
class Opq:
    def __init__(self, items, endk, thr, clo):
        self.items = items; self.i = 0; self.endk = endk; self.thr = thr; self.clo = clo
    def __iter__(self):
        return self
    def __next__(self):
        LOG.append('on')
        return self._adv()
    def _adv(self):
        if self.i < len(self.items):
            v = self.items[self.i]; self.i += 1
            return v
        if self.endk[0] == 'r':
            raise StopIteration(int(self.endk[1:]) or None)
        raise mkexc(self.endk[1:])
def _o_send(self, v):
    LOG.append('os' + vstr(v))
    return self._adv()
def _o_throw(self, e, *a):
    if isinstance(e, type): e = e()
    LOG.append('ot' + excname(e))
    if self.thr == 'r': raise e
    if self.thr == 's': raise StopIteration(9)
    return self._adv()
def _o_close(self):
    LOG.append('oc')
    if self.clo == 'x': raise U()
    if self.clo == 's': raise StopIteration(8)
_OC = {}
for _s in (0, 1):
    for _t in (0, 1):
        for _c in (0, 1):
            _d = {}
            if _s: _d['send'] = _o_send
            if _t: _d['throw'] = _o_throw
            if _c: _d['close'] = _o_close
            _OC[(_s, _t, _c)] = type('Opq%d%d%d' % (_s, _t, _c), (Opq,), _d)
def mko(items, endk, snd, thr, clo):
    return _OC[(snd, int(thr != '-'), int(clo != '-'))]([int(c) for c in items], endk, thr, clo)
def mk(fid):
    g = FUNCS[fid]()
    REG[fid] = weakref.ref(g)
    return g
def _call(f, *a):
    try:
        r = f(*a)
    except BaseException as e:
        return 'x' + excname(e)
    return 'y' + vstr(r)
class Aw:
    def __init__(self, it): self.it = it
    def __await__(self): return self.it
def _probe(g):
    if hasattr(g, 'gi_running'):
        return 'p%d%d%d' % (bool(g.gi_running), g.gi_frame is None, g.gi_yieldfrom is None)
    return 'p%d%d%d' % (bool(g.cr_running), g.cr_frame is None, g.cr_await is None)
def _op(g, op):
    if op == 'n': return _call(next, g) if hasattr(g, '__next__') else _call(g.send, None)
    if op[0] == 's': return _call(g.send, None if op[1:] == 'N' else int(op[1:]))
    if op[0] == 't': return _call(g.throw, mkexc(op[1:]))
    if op[0] == 'T': return _call(g.throw, type(mkexc(op[1:])))
    if op == 'c':
        r = _call(g.close)
        return 'c' if r == 'yN' else 'c' + r
    if op == 'p': return _probe(g)
    raise AssertionError(op)
def reent(fid, op):
    g = REG[fid]()
    if g is None:
        LOG.append('redead')       # called from a finaliser: the weak reference is already cleared
        return
    LOG.append('re' + _op(g, op))
def _hook(a):
    LOG.append('unr' + excname(a.exc_value))
def run_case(fid, hist):
    del LOG[:]; REG.clear()
    old = sys.unraisablehook
    sys.unraisablehook = _hook
    out = []
    try:
        g = mk(fid)
        for op in hist.split():
            mark = len(LOG)
            if op == 'd':
                g = None; gc.collect(); r = 'd'
                out.append(';'.join(LOG[mark:]) + '|' + r)
                break
            r = _op(g, op)
            out.append(';'.join(LOG[mark:]) + '|' + r)
        else:
            mark = len(LOG)
            g = None; gc.collect()
            out.append(';'.join(LOG[mark:]) + '|d')
    finally:
        sys.unraisablehook = old
    return ' '.join(out)
'''

# --------------------------------------------------------------------------
# body DSL: statements are tuples
#   ('Y', c)  acc = yield c          ('YA',)  acc = yield acc       ('E', k)  LOG.append('e<k>')
#   ('R', c)  return c (0 = None)    ('RA',)  return acc            ('X', exc) raise <exc>      ('RR',) bare raise
#   ('T', body, [(names, hbody)...], final|None)                    ('L', n, body)  for _ in range(n)
#   ('IF', c, then, else)  if acc == c                               ('RE', op) re-entrant op on the own generator
#   ('YF', desc)  acc = yield from <desc>;  desc = ('G', j) fresh generator of function j | ('O', items, endk, snd, thr, clo)

CLASSES = ['S', 'G', 'U', 'B', 'K', 'V', 'R', 'T', 'A']      # exception classes known to the model, bit i of a handler mask
CATCH = {'G': 'G', 'S': 'S', 'U': 'U', 'B': 'B', 'K': 'K', 'V': 'V', 'R': 'R', 'T': 'T',
         'E': 'SUKVRTA', 'BE': 'SGUBKVRTA'}
PYNAME = {'G': 'GeneratorExit', 'S': 'StopIteration', 'U': 'U', 'B': 'B', 'K': 'KeyError', 'V': 'ValueError',
          'R': 'RuntimeError', 'T': 'TypeError', 'E': 'Exception', 'BE': 'BaseException', 'SA': 'StopAsyncIteration'}


def mask_of(names):
    m = 0
    for n in names:
        for c in CATCH[n]:
            m |= 1 << CLASSES.index(c)
    return m


def exc_src(code):
    if code == 'SA':
        return 'StopAsyncIteration()'
    if code[0] == 'S' and len(code) > 1:
        return 'StopIteration(%s)' % code[1:]
    return PYNAME[code[0]] + '()'


def exc_tok(code):
    """token of a raised exception for the model: StopIteration carries a value, V/R/T carry the user message code"""
    if code[0] == 'S':
        return 'S' + (code[1:] or '0')
    if code[0] in 'VRT':
        return code[0] + 'u'
    return code[0]


def desc_src(d):
    if d[0] == 'G':
        return 'mk(%r)' % d[1]
    if d[0] == 'GA':
        return 'Aw(mk(%r))' % d[1]
    if d[0] == 'OA':
        return 'Aw(mko(%r, %r, %d, %r, %r))' % (d[1], d[2], d[3], d[4], d[5])
    return 'mko(%r, %r, %d, %r, %r)' % (d[1], d[2], d[3], d[4], d[5])


def desc_tok(d, fidx):
    if d[0] in ('G', 'GA'):
        return 'D:G:%d' % fidx[d[1]]
    endk = d[2] if d[2][0] == 'r' else 'x' + exc_tok(d[2][1:])
    return 'D:O:%s:%s:%d:%s:%s' % (d[1] or '-', endk, d[3], d[4], d[5])


def emit_src(stmts, ind, fid, out, kw='yield from'):
    pad = '    ' * ind
    if not stmts:
        out.append(pad + 'pass')
    for s in stmts:
        k = s[0]
        if k == 'Y':
            out.append(pad + 'acc = yield %d' % s[1])
        elif k == 'YA':
            out.append(pad + 'acc = yield acc')
        elif k == 'E':
            out.append(pad + "LOG.append('e%d')" % s[1])
        elif k == 'EI':
            out.append(pad + "LOG.append('ei' + excname(sys.exc_info()[1]))")
        elif k == 'R':
            out.append(pad + ('return' if kw == 'agen' else 'return %s' % (s[1] or None)))
        elif k == 'AW':
            out.append(pad + "acc = await Aw(mk('y%d'))" % s[1])
        elif k == 'RA':
            out.append(pad + 'return acc')
        elif k == 'X':
            out.append(pad + 'raise ' + exc_src(s[1]))
        elif k == 'RR':
            out.append(pad + 'raise')
        elif k == 'YF':
            out.append(pad + 'acc = %s ' % kw + desc_src(s[1]))
        elif k == 'RE':
            out.append(pad + 'reent(%r, %r)' % (fid, s[1]))
        elif k == 'L':
            out.append(pad + 'for _i%d in range(%d):' % (ind, s[1]))
            emit_src(s[2], ind + 1, fid, out, kw)
        elif k == 'IF':
            out.append(pad + 'if acc == %d:' % s[1])
            emit_src(s[2], ind + 1, fid, out, kw)
            if s[3]:
                out.append(pad + 'else:')
                emit_src(s[3], ind + 1, fid, out, kw)
        elif k == 'T':
            out.append(pad + 'try:')
            emit_src(s[1], ind + 1, fid, out, kw)
            for names, hb in s[2]:
                out.append(pad + 'except (%s,):' % ', '.join(PYNAME[n] for n in names))
                emit_src(hb, ind + 1, fid, out, kw)
            if s[3] is not None:
                out.append(pad + 'finally:')
                emit_src(s[3], ind + 1, fid, out, kw)
        else:
            raise AssertionError(s)


def func_src(fid, body, coro=False):
    out = ['%sdef g_%s():' % ('async ' if coro else '', fid), '    acc = None']
    emit_src(body, 1, fid, out, coro if isinstance(coro, str) else 'await' if coro else 'yield from')
    out.append('FUNCS[%r] = g_%s' % (fid, fid))
    return '\n'.join(out) + '\n'


def compile_flat(body, fidx):
    """AST -> flat VM code (list of tokens); fidx maps function ids to indices."""
    code = []

    def lab():
        return [None]

    def here(l):
        l[0] = len(code)

    def blk(stmts):
        for s in stmts:
            k = s[0]
            if k == 'Y':
                code.append(('Y', s[1]))
            elif k == 'YA':
                code.append(('YA',))
            elif k == 'E':
                code.append(('E', s[1]))
            elif k == 'EI':
                code.append(('EI',))
            elif k == 'R':
                code.append(('R', s[1]))
            elif k == 'RA':
                code.append(('RA',))
            elif k == 'X':
                code.append(('X', exc_tok(s[1])))
            elif k == 'RR':
                code.append(('RR',))
            elif k == 'YF':
                code.append((desc_tok(s[1], fidx),))
            elif k == 'RE':
                code.append(('RE', s[1]))
            elif k == 'L':
                lend = lab()
                code.append(('LI', s[1]))
                ltest = len(code)
                code.append(('LT', lend))
                blk(s[2])
                code.append(('J', [ltest]))
                here(lend)
            elif k == 'IF':
                lelse, lend = lab(), lab()
                code.append(('IF', s[1], lelse))
                blk(s[2])
                code.append(('J', lend))
                here(lelse)
                blk(s[3])
                here(lend)
            elif k == 'T':
                lfin, lexc, lendexc = lab(), lab(), lab()
                if s[3] is not None:
                    code.append(('SF', lfin))
                if s[2]:
                    code.append(('SE', lexc))
                blk(s[1])
                if s[2]:
                    code.append(('PB',))
                    code.append(('J', lendexc))
                    here(lexc)
                    for names, hb in s[2]:
                        lnext = lab()
                        code.append(('M', mask_of(names), lnext))
                        blk(hb)
                        code.append(('PH',))
                        code.append(('J', lendexc))
                        here(lnext)
                    code.append(('RU',))
                    here(lendexc)
                if s[3] is not None:
                    code.append(('PB',))
                    code.append(('PN',))
                    here(lfin)
                    blk(s[3])
                    code.append(('EF',))
            else:
                raise AssertionError(s)
    blk(body)
    code.append(('R', 0))
    toks = []
    for ins in code:
        toks.append(':'.join(str(a[0]) if isinstance(a, list) else str(a) for a in ins))
    return toks

# --------------------------------------------------------------------------
# random programs and histories

RAISABLE = ['U', 'U', 'B', 'K', 'V', 'R', 'S', 'S3', 'G', 'T']
HANDLERS = [('G',), ('G',), ('G',), ('S',), ('U',), ('E',), ('E',), ('BE',), ('BE',), ('V',), ('R',), ('U', 'V'), ('G', 'U'), ('B',), ('K',), ('T',)]
REOPS = ['n', 's1', 'tU', 'tG', 'c', 'p']


def gen_desc(rng, i, nf):
    if i + 1 < nf and rng.random() < 0.55:
        return ('G', rng.randrange(i + 1, nf))
    items = ''.join(str(rng.randrange(1, 8)) for _ in range(rng.choice([0, 1, 1, 2, 2, 3])))
    endk = rng.choice(['r0', 'r0', 'r3', 'r5', 'xU', 'xV', 'xS', 'xG', 'xR'])
    return ('O', items, endk, rng.choice([0, 1, 1]), rng.choice(['-', '-', 'r', 'r', 'y', 's']), rng.choice(['-', 'n', 'n', 'x', 's']))


def gen_stmts(rng, depth, size, i, nf, in_handler=False, re_ok=True):
    out = []
    n = rng.choice([1, 1, 2, 2, 3]) if size > 1 else 1
    for _ in range(n):
        r = rng.random()
        if r < 0.27:
            out.append(('Y', rng.randrange(1, 8)))
        elif r < 0.33:
            out.append(('YA',))
        elif r < 0.43:
            out.append(('EI',) if (in_handler and rng.random() < 0.5) else ('E', rng.randrange(1, 10)))
        elif r < 0.55 and depth > 0:
            body = gen_stmts(rng, depth - 1, size - 1, i, nf, False, re_ok)
            hs = []
            for _h in range(rng.choice([0, 1, 1, 1, 2])):
                hs.append((rng.choice(HANDLERS), gen_stmts(rng, depth - 1, size - 2, i, nf, True, re_ok) if rng.random() < 0.85 else []))
            fin = gen_stmts(rng, depth - 1, size - 2, i, nf, False, re_ok) if (not hs or rng.random() < 0.45) else None
            out.append(('T', body, hs, fin))
        elif r < 0.66:
            out.append(('YF', gen_desc(rng, i, nf)))
        elif r < 0.71:
            out.append(('X', rng.choice(RAISABLE)))
            break
        elif r < 0.76:
            out.append(('R', rng.choice([0, 0, 4, 6])) if rng.random() < 0.7 else ('RA',))
            break
        elif r < 0.79 and in_handler:
            out.append(('RR',))
            break
        elif r < 0.84 and re_ok:
            out.append(('RE', rng.choice(REOPS)))
        elif r < 0.91 and depth > 0:
            out.append(('L', rng.choice([2, 2, 3]), gen_stmts(rng, depth - 1, size - 1, i, nf, in_handler, re_ok)))
        elif r < 0.96 and depth > 0:
            out.append(('IF', rng.choice([1, 2]), gen_stmts(rng, depth - 1, size - 2, i, nf, in_handler, re_ok),
                        gen_stmts(rng, depth - 1, size - 2, i, nf, in_handler, re_ok) if rng.random() < 0.5 else []))
        else:
            out.append(('Y', rng.randrange(1, 8)))
    return out


def has_yield(stmts):
    for s in stmts:
        if s[0] in ('Y', 'YA', 'YF'):
            return True
        if s[0] == 'T' and (has_yield(s[1]) or any(has_yield(h) for _, h in s[2]) or (s[3] and has_yield(s[3]))):
            return True
        if s[0] == 'L' and has_yield(s[2]):
            return True
        if s[0] == 'IF' and (has_yield(s[2]) or has_yield(s[3])):
            return True
    return False


def gen_program(rng):
    """list of function bodies; function 0 is the driven generator, function j may delegate to functions > j."""
    nf = rng.choice([1, 2, 2, 3])
    bodies = []
    for i in range(nf):
        while True:
            b = gen_stmts(rng, rng.choice([1, 2, 2, 3]), rng.choice([2, 3, 4]), i, nf)
            if has_yield(b):
                break
        bodies.append(b)
    return bodies


HOPS = ['n', 'n', 'n', 'n', 'sN', 's1', 's2', 'tG', 'tS', 'tS3', 'tU', 'tB', 'tV', 'TU', 'TS', 'TG', 'c', 'c', 'p']
SHORT_OPS = ['n', 's1', 'tG', 'tU', 'tS', 'c', 'p']


def gen_history(rng, maxlen=8):
    n = rng.randrange(1, maxlen + 1)
    h = [rng.choice(HOPS) for _ in range(n)]
    if rng.random() < 0.5:
        h[0] = 'n'
    if rng.random() < 0.25:
        h.append('d')
    return h


def program_src(pid, bodies, ncoro=0):
    return ''.join(func_src('%s_%d' % (pid, i), b, i < ncoro) for i, b in enumerate(_rename(pid, bodies)))


def _rename(pid, bodies):
    """('G', j) -> ('G', '<pid>_<j>') in the source form"""
    def rn(stmts):
        out = []
        for s in stmts:
            if s[0] == 'YF' and s[1][0] in ('G', 'GA'):
                out.append(('YF', (s[1][0], '%s_%d' % (pid, s[1][1]))))
            elif s[0] == 'T':
                out.append(('T', rn(s[1]), [(n, rn(h)) for n, h in s[2]], rn(s[3]) if s[3] is not None else None))
            elif s[0] == 'L':
                out.append(('L', s[1], rn(s[2])))
            elif s[0] == 'IF':
                out.append(('IF', s[1], rn(s[2]), rn(s[3])))
            else:
                out.append(s)
        return out
    return [rn(b) for b in bodies]


def program_tokens(bodies):
    fidx = {j: j for j in range(len(bodies))}
    return ' / '.join(' '.join(compile_flat(b, fidx)) for b in bodies)

# --------------------------------------------------------------------------
# corpus: witnesses of the four deviation situations (counterexample theorems of Props/C23.lean) and boundary cases

G, E_, BE = ('G',), ('E',), ('BE',)
CORPUS = [
    # name, bodies, histories
    ('send-nonnone-unstarted', [[('Y', 1), ('Y', 2)]], ['s1 n', 's2 s1 n n', 'p s1 p n']),
    ('close-returns-value', [[('T', [('Y', 1)], [(G, [('E', 1), ('R', 5)])], None)]], ['n c', 'n c n', 'n d']),
    ('throw-stop-unstarted', [[('Y', 1)]], ['tS n', 'TS', 'tS3 p']),
    ('stop-into-delegation', [[('Y', 1), ('YF', ('O', '11', 'r0', 0, '-', '-')), ('RA',)]], ['n n tS3', 'n n TS n']),
    ('close-raises-stop-into-delegation', [[('YF', ('O', '12', 'r0', 1, 'r', 's')), ('Y', 4)]], ['n tG', 'n c']),
    ('ignore-generatorexit', [[('L', 3, [('T', [('Y', 1)], [(G, [('E', 2)])], None)]), ('E', 3)]], ['n c', 'n c c c c', 'n d', 'n tG tG tG tG']),
    ('yield-in-finally', [[('T', [('Y', 1)], [], [('E', 1), ('Y', 2), ('E', 2)])]], ['n c n', 'n d', 'n tU n', 'n c c']),
    ('finally-once', [[('T', [('Y', 1), ('Y', 2)], [], [('E', 7)])]], ['n d', 'n c d', 'n n n d', 'd', 'c n', 'n tU c']),
    ('raise-stopiteration', [[('Y', 1), ('X', 'S3')], [('Y', 1)]], ['n n', 'n n n']),
    ('delegate-gen', [[('T', [('YF', ('G', 1)), ('YA',)], [], [('E', 1)])],
                      [('T', [('Y', 1), ('YA',), ('R', 6)], [(G, [('E', 2), ('RR',)])], [('E', 3)])]],
     ['n s2 n n', 'n c', 'n tG', 'n tU', 'n d', 'n s1 tS3', 'n p c p']),
    ('delegate-gen-ignores-exit', [[('YF', ('G', 1)), ('E', 9)], [('L', 2, [('T', [('Y', 1)], [(G, [])], None)]), ('Y', 7)]],
     ['n c', 'n d', 'n tG n', 'n c c c']),
    ('reentrant', [[('RE', 'n'), ('Y', 1), ('RE', 'c'), ('RE', 'p'), ('T', [('Y', 2)], [], [('RE', 'tU')])]], ['n n c', 'n n d', 'n p n tB']),
    ('reentrant-nested', [[('YF', ('G', 1))], [('RE', 'n'), ('Y', 1), ('RE', 's1'), ('RE', 'p')]], ['n n', 'n c', 'n tU']),
    ('opaque-variants', [[('T', [('YF', ('O', '12', 'r3', 1, 'y', 'x')), ('YA',)], [(E_, [('Y', 5)])], None)]],
     ['n s1 tU n', 'n c', 'n tG', 'n s2 s2 s2', 'n d']),
    ('return-then-finally-raises', [[('T', [('Y', 1), ('R', 0)], [], [('E', 1), ('X', 'U')])]], ['n s1', 'n tV', 'n n', 'n c', 'n d']),
    ('return-value-then-finally-raises', [[('T', [('Y', 1), ('R', 5)], [(('V',), [('R', 4)])], [('X', 'K')])], ], ['n s1', 'n tV', 'n n']),
    ('exc-info-across-yield', [[('T', [('Y', 1)], [(('U',), [('EI',), ('Y', 2), ('EI',), ('RR',)]), (('BE',), [('Y', 3), ('EI',)])], [('EI',)])]],
     ['n tU n', 'n tU n n', 'n tB n', 'n tU tV', 'n tU c', 'n tG n']),
    ('opaque-nosend', [[('YF', ('O', '123', 'xU', 0, 's', 'n')), ('YA',)]], ['n s1', 'n n tV n', 'n sN s1', 'n n n n', 'n n n tU n']),
]

KEYS_EXTRA = ['asyncgen-finaliser-unraisable-stopasynciteration-only-in-cpython']
KEYS = {'A': 'send-nonnone-to-unstarted-generator-terminates-it',
        'B': 'close-raises-when-body-returns-value-on-generatorexit',
        'C': 'throw-stopiteration-into-unstarted-generator-becomes-runtimeerror',
        'E': 'stopiteration-reaching-yield-from-not-converted-to-value',
        'F': 'exception-raised-by-finally-after-return-is-lost'}
WITNESS = {'A': ('send-nonnone-unstarted', 's1 n'), 'B': ('close-returns-value', 'n c'), 'C': ('throw-stop-unstarted', 'tS n'),
           'F': ('return-then-finally-raises', 'n s1')}


def _tup(x):
    return tuple(_tup(y) for y in x) if isinstance(x, (list, tuple)) else x


def short_histories(maxlen):
    out = []

    def go(pre):
        if pre:
            out.append(list(pre))
        if len(pre) < maxlen:
            for o in SHORT_OPS:
                go(pre + [o])
    go([])
    return out


def _strip(r):
    if r.startswith("ok str:"):
        return eval(r[len("ok str:"):])
    return r


def first_diff(a, b):
    ta, tb = a.split(' '), b.split(' ')
    for i, (x, y) in enumerate(zip(ta, tb)):
        if x != y:
            return i
    return min(len(ta), len(tb))


AG_CORPUS = [
    ('ag-ignore-exit', [('L', 3, [('T', [('Y', 1)], [(('G',), [('E', 2)])], None)]), ('E', 3)], ['n k', 'n k k', 'n xG', 'n d', 'k', 'n k n', 'n k k k k']),
    ('ag-finally-await', [('T', [('Y', 1), ('Y', 2)], [], [('E', 1), ('AW', 2), ('E', 2)])], ['n k', 'n xU', 'n n n', 'n d', 'n k k', 'n xG n']),
    ('ag-raise-stop', [('Y', 1), ('X', 'S3')], ['n n', 'n n n']),
    ('ag-raise-stopasync', [('Y', 1), ('X', 'SA')], ['n n', 'n n k']),
    ('ag-asend', [('YA',), ('YA',), ('R', 0)], ['aN a1 a2', 'a1 n', 'n a2 a1 n', 'n xS', 'xS n', 'n p a1 p']),
    ('ag-yield-in-handler', [('T', [('Y', 1)], [(('U',), [('EI',), ('Y', 5), ('EI',), ('RR',)])], None), ('Y', 3)], ['n xU n', 'n xU xB', 'n xU k', 'n xU n n']),
    ('ag-await-then-yield-on-exit', [('T', [('Y', 1)], [], [('E', 1), ('AW', 2), ('E', 2), ('Y', 9), ('E', 3)])], ['n k', 'n k k', 'n xG', 'n d', 'n xU n']),
    ('ag-await-first', [('AW', 1), ('Y', 4), ('AW', 3)], ['n n n', 'n k', 'a1', 'n xU', 'xG']),
]


def may_return_then_raise(stmts, inside=False):
    """static over-approximation of situation F for programs that have no model (async generators):
    a `return` lexically inside a try statement that has a finally clause or handlers"""
    for s in stmts:
        if s[0] == 'R' and inside:
            return True
        if s[0] == 'T':
            if may_return_then_raise(s[1], True) or any(may_return_then_raise(h, True) for _, h in s[2]) or \
                    (s[3] is not None and may_return_then_raise(s[3], inside)):
                return True
        if s[0] == 'L' and may_return_then_raise(s[2], inside):
            return True
        if s[0] == 'IF' and (may_return_then_raise(s[2], inside) or may_return_then_raise(s[3], inside)):
            return True
    return False


def boost_return_finally(rng, i, nf):
    """a body of the shape that exposes situation F more often than the uniform generator does"""
    ret = ('R', rng.choice([0, 0, 5])) if rng.random() < 0.8 else ('RA',)
    body = [('Y', rng.randrange(1, 8))] + ([('E', 3)] if rng.random() < 0.3 else []) + [ret]
    hs = [(rng.choice(HANDLERS), [('E', 4), ('R', rng.choice([0, 4]))])] if rng.random() < 0.4 else []
    fin = gen_stmts(rng, 1, 2, i, nf) + [('X', rng.choice(RAISABLE))] if rng.random() < 0.7 else [('E', 5), ('X', rng.choice(RAISABLE))]
    pre = gen_stmts(rng, 1, 2, i, nf) if rng.random() < 0.5 else []
    if any(s[0] in ('X', 'R', 'RA', 'RR') for s in pre):
        pre = []
    return pre + [('T', body, hs, fin)] + [('Y', 7)]


def run(ctx):
    ctx.rule = ("random generator programs (1-3 generator functions: yields, echo of sent values, try/except with handlers for GeneratorExit/"
                "StopIteration/Exception/BaseException/user classes, try/finally incl. yield and return inside handlers and finally, loops, "
                "branches on the sent value, raise incl. StopIteration/GeneratorExit, bare raise, yield from over fresh sub-generators and over "
                "iterator objects with every subset of send/throw/close, re-entrant next/send/throw/close/gi_running on the own generator) x "
                "histories over next, send(None|1|2), throw(GeneratorExit|StopIteration|StopIteration(3)|U|B|ValueError as instance or class), "
                "close, gi_running/gi_frame/gi_yieldfrom probe, del: all histories up to length 2 (thorough: 3) over 7 ops per program + random "
                "histories up to length 8; every history ends with dropping the last reference; the same programs rewritten as coroutines "
                "(await of one-shot awaitables, of sub-coroutines and of iterator objects; send/throw/close/cr_* histories) three-way with the "
                "coroutine variant of the model; async generators (yield, await, try/finally, raise StopIteration/StopAsyncIteration) x "
                "asend/athrow/aclose/__anext__ histories incl. throw into a suspended awaitable, two-way against CPython; case = one "
                "(program, history); non-trivial = at least 2 operations")
    ctx.explanation = ("wrapper_refinement_partial covers every body/history (generators and coroutines) outside four recorded situations "
                       "(counterexample theorems, replayed here). No theorem covers: the lowering of the generated body itself (resume switch, temp "
                       "save/restore, exception-state swapping, return/finally exit paths) — it is exercised only differentially through the VM programs "
                       "(one defect found there: an exception raised by a finally clause after `return` is lost); shared (aliased) sub-iterators and "
                       "re-entrant calls on an ANCESTOR generator; sub-iterators that are native CPython generators (am_send path); tracebacks/__context__; "
                       "gi_code/gi_frame contents; threads; the 'never awaited' warning; async generators (AsyncGen.c asend/athrow/aclose state machines) "
                       "are only checked differentially, without a model.")
    ctx.assumptions = ["bodies are deterministic functions of (state, input); side effects are log entries",
                       "CPython's shortcut in gen_close for a frame suspended at exception depth 1 (no GeneratorExit thrown) is unobservable",
                       "reference counting finalises a dropped sub-iterator immediately (no reference cycles through the generator)"]
    rng = ctx.rng
    rc = getattr(ctx, "replay_case", None)
    groups = []          # list of modules: list of dict(pid, kind, bodies, ncoro, hists)
    if rc and "bodies" in rc.get("case", {}):
        c = rc["case"]
        groups.append([dict(pid="r0", kind=c.get("kind", "g"), bodies=[list(_tup(b)) for b in c["bodies"]], ncoro=c.get("ncoro", 0),
                            hists=[c["hist"].split()])])
    else:
        corp = []
        for k, (name, bodies, hists) in enumerate(CORPUS):
            corp.append(dict(pid="c%d" % k, kind="g", bodies=bodies, ncoro=0, hists=[h.split() for h in hists] + short_histories(2), cname=name))
        cdir = os.path.join(lib.VERIF, "corpus", "C23")
        if os.path.isdir(cdir):
            import json
            for k, fn in enumerate(sorted(os.listdir(cdir))):
                if fn.endswith(".json"):
                    c = json.load(open(os.path.join(cdir, fn)))
                    corp.append(dict(pid="f%d" % k, kind=c.get("kind", "g"), bodies=[list(_tup(b)) for b in c["bodies"]],
                                     ncoro=c.get("ncoro", 0), hists=[c["hist"].split()]))
        for i in range(0, len(corp), 6):
            groups.append(corp[i:i + 6])
        groups.append([dict(pid="ac%d" % k, kind="a", bodies=[b], ncoro=0, hists=[h.split() for h in hs] + [[o] for o in AGOPS[2:]])
                       for k, (nm, b, hs) in enumerate(AG_CORPUS)])
        ngen, ncor, nag, nprog = (3, 1, 1, 5) if ctx.quick else (16, 3, 3, 10)
        ngen = max(1, int(ngen * ctx.budget_scale))
        shorts = short_histories(2 if ctx.quick else 3)
        nrand = 60 if ctx.quick else 300
        for m in range(ngen):
            g = []
            for k in range(nprog):
                bodies = gen_program(rng)
                if k % 6 == 5:
                    bodies[0] = boost_return_finally(rng, 0, len(bodies))
                g.append(dict(pid="m%dp%d" % (m, k), kind="g", bodies=bodies, ncoro=0,
                              hists=list(shorts) + [gen_history(rng) for _ in range(nrand)]))
            groups.append(g)
        cshorts = [["sN" if o == "n" else o for o in h] for h in short_histories(2)]
        for m in range(ncor):
            g = []
            for k in range(nprog):
                bodies, nc = to_coro(gen_program(rng))
                hs = cshorts + [["sN" if o == "n" else o for o in gen_history(rng)] for _ in range(nrand)]
                g.append(dict(pid="k%dp%d" % (m, k), kind="c", bodies=bodies, ncoro=nc, hists=hs))
            groups.append(g)
        for m in range(nag):
            g = []
            for k in range(nprog + 2):
                g.append(dict(pid="a%dp%d" % (m, k), kind="a", bodies=[ag_program(rng)], ncoro=0,
                              hists=[[o] for o in AGOPS[2:]] + [ag_history(rng) for _ in range(nrand * 2)]))
            groups.append(g)
    _run_groups(ctx, groups)


OPNAME = {"n": "next", "s": "send", "t": "throw", "T": "throw", "c": "close", "p": "probe", "d": "del", "a": "asend", "x": "athrow", "k": "aclose"}


def _run_groups(ctx, groups):
    import time
    t0 = time.time()
    # ---- build every module twice: compiled by the staged Cython (impl) and as plain source for CPython (oracle)
    specs = []
    for gi, g in enumerate(groups):
        src = PRELUDE + AG_PRELUDE + AG_HELPERS
        for it in g:
            if it["kind"] == "a":
                src += func_src(it["pid"], it["bodies"][0], "agen")
            else:
                src += program_src(it["pid"], it["bodies"], it["ncoro"])
        specs.append(dict(name="c23g%d" % gi, source=src, ext=".py"))
    sos = cybuild.build_many(ctx, specs)
    ctx.notes["t_build_s"] = round(time.time() - t0, 1)
    twins = []
    for gi, sp in enumerate(specs):
        tw = os.path.join(ctx.scratch, "c23t%d.py" % gi)
        with open(tw, "w") as f:
            f.write(sp["source"])
        twins.append(tw)

    def run_mod(args):
        path, modname, cases = args
        out = []
        for i in range(0, len(cases), 800):         # small chunks: the per-process time limit of run_cases must hold on a loaded machine
            out.extend(_strip(r) for r in cybuild.run_cases(ctx, path, cases[i:i + 800], modname=modname, timeout_per_case=20.0))
        for i, r in enumerate(out):
            if r.startswith(("timeout", "crash")):  # confirm in a process of its own (a real hang / crash reproduces)
                out[i] = _strip(cybuild.run_cases(ctx, path, [cases[i]], modname=modname, timeout_per_case=30.0)[0])
        return out

    jobs, index = [], []
    for gi, g in enumerate(groups):
        cases = []
        for it in g:
            for h in it["hists"]:
                if it["kind"] == "a":
                    cases.append(("run_acase", "(%r, %r)" % (it["pid"], " ".join(h))))
                else:
                    cases.append(("run_case", "(%r, %r)" % (it["pid"] + "_0", " ".join(h))))
        if isinstance(sos[gi], cybuild.BuildError):
            ctx.violation("generated-module-does-not-build", "%s: %s" % (sos[gi].stage, sos[gi].log[-300:]),
                          {"source": specs[gi]["source"][-4000:], "stage": sos[gi].stage})
            continue
        jobs.append((sos[gi], "c23g%d" % gi, cases))
        jobs.append((twins[gi], "c23t%d" % gi, cases))
        index.append(gi)
    with cf.ThreadPoolExecutor(max_workers=16) as ex:
        outs = list(ex.map(run_mod, jobs))
    ctx.notes["t_run_s"] = round(time.time() - t0, 1)
    impl, orac = {}, {}
    for k, gi in enumerate(index):
        impl[gi], orac[gi] = outs[2 * k], outs[2 * k + 1]

    # ---- which of the repairs does the current source contain?  (the witnesses of the counterexample theorems)
    flags = {}
    rcase = getattr(ctx, "replay_case", None)
    if rcase and "bodies" in rcase.get("case", {}):
        flags = rcase["case"].get("flags", {})
    else:
        wit = {}
        for gi in index:
            pos = 0
            for it in groups[gi]:
                for h in it["hists"]:
                    if "cname" in it:
                        wit.setdefault((it["cname"], " ".join(h)), (impl[gi][pos], orac[gi][pos]))
                    pos += 1
        for d, w in WITNESS.items():
            if w not in wit:
                raise lib.Infra("witness module did not build: cannot determine the model variant")
            i, o = wit[w]
            flags[d] = (i == o)
            if i == o:
                ctx.notes["witness-" + d] = "witness of %s no longer reproduces on this tree: the repaired variant of the model is used" % KEYS[d]
    fl = "".join("1" if flags.get(d) else "0" for d in "ABC")
    ctx.notes["model-flags"] = fl + ("+F" if flags.get("F") else "")

    # ---- the model (generators and coroutines)
    lines, meta = [], []
    for gi in index:
        pos = 0
        for it in groups[gi]:
            toks = program_tokens(it["bodies"]) if it["kind"] != "a" else None
            for h in it["hists"]:
                if toks is not None:
                    lines.append("C23 run %s%s %s ; %s" % (fl, it["kind"], toks, " ".join(h)))
                meta.append((gi, pos, it, h))
                pos += 1
    mouts = []
    CH = 20000
    chunks = [lines[i:i + CH] for i in range(0, len(lines), CH)]
    with cf.ThreadPoolExecutor(max_workers=8) as ex:
        for r in ex.map(ctx.drv.batch, chunks):
            mouts.extend(r)
    ctx.notes["t_model_s"] = round(time.time() - t0, 1)
    mit = iter(mouts)

    nsample = {"g": 0, "c": 0, "a": 0}
    for gi, pos, it, h in meta:
        a, b = impl[gi][pos], orac[gi][pos]
        kind, bodies = it["kind"], it["bodies"]
        hs = " ".join(h)
        rep = {"bodies": bodies, "hist": hs, "flags": flags, "kind": kind, "ncoro": it["ncoro"]}
        srcs = (func_src(it["pid"], bodies[0], "agen") if kind == "a" else program_src(it["pid"], bodies, it["ncoro"]))
        ctx.count({"g": "generator", "c": "coroutine", "a": "asyncgen"}[kind] + "/len%d" % min(len(h), 9))
        ctx.seen((kind, srcs, hs), nontrivial=len(h) >= 2)
        crashed = a.startswith(("crash", "timeout"))
        j = first_diff(a, b) if a != b else None
        if kind == "a":
            if nsample["a"] < 2 and len(h) >= 4:
                nsample["a"] += 1
                ctx.sample({"kind": "async generator", "program": srcs[:500], "hist": hs, "impl": a[:300], "cpython": b[:300]})
            if a != b:
                pre = h[:next((i for i, o in enumerate(h) if o.split("!")[0] in ("n", "aN")), len(h))]
                ka = next((i for i, o in enumerate(pre) if o.split("!")[0] in ("a1", "a2")), None)
                kc = next((i for i, o in enumerate(pre) if o.split("!")[0] in ("xS", "xSA")), None)
                cand = []
                if ka is not None and not flags.get("A"):
                    cand.append((ka, "A"))
                if kc is not None and not flags.get("C"):
                    cand.append((kc, "C"))
                cand = [c for c in sorted(cand) if c[0] <= j]
                if crashed:
                    key = "asyncgen-history-" + a.split()[0]
                elif j == len(b.split(" ")) - 1 and b.split(" ")[j].replace("unrSA;", "").replace(";unrSA", "").replace("unrSA", "") == a.split(" ")[j]:
                    key = "asyncgen-finaliser-unraisable-stopasynciteration-only-in-cpython"
                elif cand:
                    key = KEYS[cand[0][1]]
                elif not flags.get("F") and may_return_then_raise(bodies[0]):
                    key = KEYS["F"]
                else:
                    key = "asyncgen-trace-differs-at-" + OPNAME.get((h + ["d"])[j][0] if j <= len(h) else "?", "?")
                ctx.violation(key, "async generator, history %r step %d: compiled gives %s, CPython gives %s; program: %s"
                              % (hs, j, " ".join(a.split(" ")[j:j + 1])[:80], " ".join(b.split(" ")[j:j + 1])[:80], srcs[:200].replace("\n", "; ")), rep)
            continue
        mo = next(mit)
        if not mo.startswith("ok "):
            raise lib.Infra("model rejected a generated case: %s" % mo)
        mc, mp, dv = mo[3:].split(" # ")
        if "DIV" in mc or "DIV" in mp:
            raise lib.Infra("model ran out of recursion budget on a generated case")
        dvs = dv.split(",")
        fmark = ["!F" in seg for seg in mp.split(" ")]            # situation F per step (lowering defect, marker of the VM)
        mc, mp = mc.replace(";!F", "").replace("!F;", "").replace("!F", ""), mp.replace(";!F", "").replace("!F;", "").replace("!F", "")
        for d in set("".join(dvs).replace("-", "")):
            ctx.count("deviation-situation-" + d)
        if any(fmark):
            ctx.count("deviation-situation-F")
        if nsample[kind] < 3 and len(h) >= 4:
            nsample[kind] += 1
            ctx.sample({"kind": kind, "program": srcs[:600], "hist": hs, "impl": a[:300], "model_cy": mc[:300],
                        "cpython": b[:300], "model_py": mp[:300], "deviations": dv})
        outside = ("redead" in b or "redead" in a) or (any(fmark) and not flags.get("F"))
        if "redead" in b or "redead" in a:
            ctx.count("reentrant-call-from-finaliser(model-skipped)")
        elif outside:
            ctx.count("return-then-raise-on-unrepaired-tree(model-skipped)")
        if a != b:
            live = [d.translate({ord(x): None for x in "ABC" if flags.get(x)}) or "-" for d in dvs]      # repaired situations explain nothing
            live = [("F" if (f and not flags.get("F")) else "") + (d if d != "-" else "") or "-" for d, f in zip(live, fmark + [False] * len(live))]
            k = next((i for i, d in enumerate(live) if d != "-"), None)
            if a.startswith("err ") and k is not None and live[k][0] == "F":
                j = k          # the exception left pending by situation F surfaced in unrelated code and aborted the whole history
            if crashed:
                key = "generator-history-" + a.split()[0]
            elif k is not None and k <= j and (outside or (mc == a and mp == b)):
                key = KEYS[live[k][0]]
            else:
                key = "trace-differs-at-" + OPNAME.get((h + ["d"])[j][0] if j <= len(h) else "?", "?")
            ctx.violation(key, "%s, history %r step %d: compiled gives %s, CPython gives %s; program: %s"
                          % ({"g": "generator", "c": "coroutine"}[kind], hs, j, " ".join(a.split(" ")[j:j + 1])[:80],
                             " ".join(b.split(" ")[j:j + 1])[:80], srcs[:200].replace("\n", "; ")), rep)
        if not outside:
            if mp != b:
                ctx.tie_break("PySpec CyVerif.C23.pyTrace vs CPython", "%s history %r: model %s, CPython %s" % (kind, hs, mp[:150], b[:150]), rep)
            if mc != a:
                ctx.tie_break("D-c CyVerif.C23.cyTrace vs compiled module", "%s history %r: model %s, impl %s" % (kind, hs, mc[:150], a[:150]), rep)


def to_coro(bodies):
    """Rewrite a generator program as coroutines: `yield c` becomes `await` of a one-yield generator (helper functions
    appended to the program), `yield from gen_j()` becomes `await coro_j()`, `yield from it` becomes `await Aw(it)`.
    Returns (bodies, ncoro): functions [0, ncoro) are coroutines, the rest helper generators."""
    nf = len(bodies)
    helpers = {}

    def hidx(c):
        if c not in helpers:
            helpers[c] = nf + len(helpers)
        return helpers[c]

    def rw(stmts):
        out = []
        for s in stmts:
            k = s[0]
            if k == 'Y':
                out.append(('YF', ('GA', hidx(s[1]))))
            elif k == 'YA':
                out.append(('YF', ('GA', hidx(1))))
            elif k == 'YF' and s[1][0] == 'O':
                out.append(('YF', ('OA',) + tuple(s[1][1:])))
            elif k == 'RE':
                out.append(('RE', 'sN' if s[1] == 'n' else s[1]))
            elif k == 'T':
                out.append(('T', rw(s[1]), [(n, rw(h)) for n, h in s[2]], rw(s[3]) if s[3] is not None else None))
            elif k == 'L':
                out.append(('L', s[1], rw(s[2])))
            elif k == 'IF':
                out.append(('IF', s[1], rw(s[2]), rw(s[3])))
            else:
                out.append(s)
        return out
    nb = [rw(b) for b in bodies]
    for c, i in sorted(helpers.items(), key=lambda x: x[1]):
        nb.append([('Y', c), ('RA',)])
    return nb, nf



AG_PRELUDE = r'''
def _drive(aw, thr=None):
    out = []
    try:
        v = aw.send(None)
        n = 0
        while True:
            out.append('w' + vstr(v)); n += 1
            if n > 12:
                out.append('LOOP'); break
            if thr is not None and n == 1:
                v = aw.throw(mkexc(thr))
            else:
                v = aw.send(None)
    except StopIteration as e:
        out.append('r' + vstr(e.value))
    except StopAsyncIteration:
        out.append('xSA')
    except BaseException as e:
        out.append('x' + excname(e))
    return ','.join(out)
def run_acase(fid, hist):
    del LOG[:]; REG.clear()
    old = sys.unraisablehook
    sys.unraisablehook = _hook
    out = []
    try:
        g = FUNCS[fid]()
        for op in hist.split():
            mark = len(LOG)
            thr = None
            if '!' in op:
                op, thr = op.split('!')
            if op == 'd':
                break
            if op[0] == 'a': aw = g.asend(None if op[1:] == 'N' else int(op[1:]))
            elif op[0] == 'x': aw = g.athrow(mkexc(op[1:]))
            elif op == 'k': aw = g.aclose()
            elif op == 'n': aw = g.__anext__()
            elif op == 'p':
                out.append('|p%d%d' % (bool(g.ag_running), g.ag_await is None)); continue
            r = _drive(aw, thr)
            aw = None
            out.append(';'.join(LOG[mark:]) + '|' + r)
        mark = len(LOG)
        g = None; aw = None; gc.collect()
        out.append(';'.join(LOG[mark:]) + '|d')
    finally:
        sys.unraisablehook = old
    return ' '.join(out)
'''
import random

def ag_stmts(rng, depth, size, in_handler=False):
    out = []
    n = rng.choice([1, 2, 2, 3]) if size > 1 else 1
    for _ in range(n):
        r = rng.random()
        if r < 0.3: out.append(('Y', rng.randrange(1, 8)))
        elif r < 0.36: out.append(('YA',))
        elif r < 0.48: out.append(('AW', rng.randrange(1, 4)))
        elif r < 0.58: out.append(('EI',) if (in_handler and rng.random() < 0.5) else ('E', rng.randrange(1, 10)))
        elif r < 0.74 and depth > 0:
            body = ag_stmts(rng, depth - 1, size - 1)
            hs = [(rng.choice([('G',), ('G',), ('E',), ('BE',), ('U',), ('S',), ('SA',)]), ag_stmts(rng, depth - 1, size - 2, True) if rng.random() < 0.85 else [])
                  for _h in range(rng.choice([0, 1, 1, 2]))]
            fin = ag_stmts(rng, depth - 1, size - 2) if (not hs or rng.random() < 0.45) else None
            out.append(('T', body, hs, fin))
        elif r < 0.80:
            out.append(('X', rng.choice(['U', 'B', 'V', 'S', 'S3', 'G', 'SA']))); break
        elif r < 0.84:
            out.append(('R', 0)); break
        elif r < 0.87 and in_handler:
            out.append(('RR',)); break
        elif r < 0.94 and depth > 0:
            out.append(('L', rng.choice([2, 3]), ag_stmts(rng, depth - 1, size - 1, in_handler)))
        elif depth > 0:
            out.append(('IF', rng.choice([1, 2]), ag_stmts(rng, depth - 1, size - 2, in_handler), []))
        else:
            out.append(('Y', rng.randrange(1, 8)))
    return out

def ag_has_yield(stmts):
    for s in stmts:
        if s[0] in ('Y', 'YA'): return True
        if s[0] == 'T' and (ag_has_yield(s[1]) or any(ag_has_yield(h) for _, h in s[2]) or (s[3] and ag_has_yield(s[3]))): return True
        if s[0] in ('L',) and ag_has_yield(s[2]): return True
        if s[0] == 'IF' and (ag_has_yield(s[2]) or ag_has_yield(s[3])): return True
    return False

# (throwing into a suspended asend()/athrow()/aclose() awaitable -- ops like 'n!U' understood by run_acase -- is not generated: CPython 3.12.1
# differs there from later CPython versions (GH-117881, GH-117714), which Cython follows)
AGOPS = ['n', 'n', 'n', 'aN', 'a1', 'a2', 'xU', 'xG', 'xS', 'xSA', 'xB', 'xV', 'k', 'k', 'p']
def ag_history(rng):
    h = [rng.choice(AGOPS) for _ in range(rng.randrange(1, 9))]
    if rng.random() < 0.5: h[0] = 'n'
    return h


AG_HELPERS = ''.join(func_src('y%d' % c, [('Y', c), ('RA',)]) for c in (1, 2, 3))


def ag_program(rng):
    while True:
        b = ag_stmts(rng, rng.choice([1, 2, 2, 3]), rng.choice([2, 3, 4]))
        if ag_has_yield(b):
            return b

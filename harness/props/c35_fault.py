"""C35 leg D-c (search only, no theorem): generated modules built with -DCYTHON_REFNANNY=1 and the STAGED
refnanny.pyx compiled alongside; every function is run once per fallible call k with the k-th call raising.
Compared per case: outcome vs CPython running the same source, refnanny output, tracked live objects,
refcounts of the arguments."""
import json
import os
import re
import subprocess

import lib
import cybuild
from props import c35_gen

CHILD = r'''
import sys, json, gc, io, re, types, importlib.util, contextlib, warnings
warnings.simplefilter('ignore')
spec = json.load(open(sys.argv[1]))
sys.path.insert(0, spec['nanny_dir'])
fault = types.ModuleType('c35fault')
exec(compile(spec['fault_src'], 'c35fault', 'exec'), fault.__dict__)
sys.modules['c35fault'] = fault
buf0 = io.StringIO()
with contextlib.redirect_stdout(buf0):
    sp = importlib.util.spec_from_file_location(spec['modname'], spec['so'])
    cy = importlib.util.module_from_spec(sp)
    sp.loader.exec_module(cy)
py = types.ModuleType('pyoracle')
exec(compile(spec['src'], 'pyoracle', 'exec'), py.__dict__)
ADDR = re.compile(r' at 0x[0-9a-f]+')
out = sys.__stdout__
out.write('I ' + json.dumps(buf0.getvalue()[:300]) + '\n')

def run(func, k):
    fault.arm(k)
    a, b, c = fault.F(3), fault.F(4), fault.F(5)
    gc.collect()
    base = [sys.getrefcount(x) for x in (a, b, c)]
    buf = io.StringIO()
    res = None
    with contextlib.redirect_stdout(buf):
        try:
            r = func(a, b, c)
            res = 'ok ' + ADDR.sub('', repr(r))[:300]
            r = None
        except RecursionError:
            res = 'err RecursionError'
        except BaseException as e:
            res = 'err %s%s' % (type(e).__name__, repr(e.args) if isinstance(e, fault.Injected) else '')
            e = None
    count = fault.S.count
    log = ','.join(fault.S.log)
    fault.S.fail_at = 0
    gc.collect()
    after = [sys.getrefcount(x) for x in (a, b, c)]
    del a, b, c
    gc.collect()
    alive = len(fault.alive())
    return res, count, log, [y - x for x, y in zip(base, after)], alive, buf.getvalue()[:400]

for name in spec['funcs']:
    fpy, fcy = getattr(py, name), getattr(cy, name)
    k = 0
    top = 1
    while k <= top and k <= spec['cap']:
        out.write('S %s %d\n' % (name, k)); out.flush()
        rp = run(fpy, k)
        rc = run(fcy, k)
        if k == 0:
            top = max(rp[1], rc[1])
        out.write('R ' + json.dumps({'f': name, 'k': k, 'py': rp[0], 'cy': rc[0], 'npy': rp[1], 'ncy': rc[1],
                                     'logeq': rp[2] == rc[2], 'rc': rc[3], 'alive': rc[4], 'nanny': rc[5],
                                     'pyrc': rp[3], 'pyalive': rp[4]}) + '\n')
        out.flush()
        k += 1
'''


def build_refnanny(ctx):
    src = open(os.path.join(ctx.stage, "Cython", "Runtime", "refnanny.pyx")).read()
    so = cybuild.build_module(ctx, "refnanny", src, ext=".pyx")
    return so


def build_programs(ctx, mods):
    """mods: list of (modname, source, funcs).  Returns list of so paths / BuildError."""
    specs = [dict(name=mn, source=src, ext=".py", cflags=["-DCYTHON_REFNANNY=1"]) for mn, src, fs in mods]
    return cybuild.build_many(ctx, specs, workers=8)


def run_module(ctx, nanny_so, modname, so, src, funcs, cap):
    spec = {"nanny_dir": os.path.dirname(nanny_so), "fault_src": c35_gen.FAULT_MODULE, "modname": modname, "so": so,
            "src": src, "funcs": funcs, "cap": cap}
    sp = os.path.join(ctx.scratch, "fault_%s.json" % modname)
    with open(sp, "w") as f:
        json.dump(spec, f)
    child = os.path.join(ctx.scratch, "c35_child.py")
    if not os.path.exists(child):
        with open(child, "w") as f:
            f.write(CHILD)
    env = lib._clean_env({"PYTHONPATH": ctx.stage})
    try:
        p = subprocess.run([lib.PYTHON, child, sp], stdout=subprocess.PIPE, stderr=subprocess.PIPE, text=True, env=env,
                           timeout=600)
        out, rc, err = p.stdout, p.returncode, p.stderr
    except subprocess.TimeoutExpired as e:
        out = e.stdout.decode() if isinstance(e.stdout, bytes) else (e.stdout or "")
        rc, err = "timeout", ""
    results, last = [], None
    init = ""
    for line in out.split("\n"):
        if line.startswith("S "):
            last = line[2:]
        elif line.startswith("R "):
            results.append(json.loads(line[2:]))
            last = None
        elif line.startswith("I "):
            init = json.loads(line[2:])
    crashed = None
    if rc != 0:
        crashed = {"rc": rc, "at": last, "stderr": err[-300:]}
    return results, crashed, init


def py_line_map(so, modname):
    """C line -> (python line number) from the position comments of the generated C file"""
    cfile = os.path.join(os.path.dirname(so), modname + ".c")
    marks = []
    try:
        for i, line in enumerate(open(cfile, errors="replace"), 1):
            m = re.match(r'\s*/\* "%s\.py":(\d+)\s*$' % re.escape(modname), line)
            if m:
                marks.append((i, int(m.group(1))))
    except OSError:
        pass
    return marks


def stmt_keyword(marks, src_lines, cline):
    """first word of the Python statement a C line belongs to ('expr' for plain expressions / assignments)"""
    py = None
    for cl, pl in marks:
        if cl > cline:
            break
        py = pl
    if py is None or not (1 <= py <= len(src_lines)):
        return "unknown"
    if re.search(r"\breturn\b", src_lines[py - 1]):
        return "return"
    w = re.match(r"\s*([A-Za-z_]+)", src_lines[py - 1])
    w = w.group(1) if w else "expr"
    return w if w in ("return", "for", "while", "with", "try", "except", "finally", "if", "assert", "del", "yield", "raise", "def") else "expr"


def func_source(src, name):
    """text of one generated function (for replay / messages)"""
    m = re.search(r"^def %s\(.*?(?=^def |\Z)" % re.escape(name), src, re.S | re.M)
    return m.group(0).rstrip() if m else ""


SITE_OF_FIXED = {"fx_with": "pending-return-when-finally-raises", "fx_return_in_finally_loop": "pending-return-when-finally-raises",
                 "kf_cascade_bool": "cascadedcmp", "kf_cascade_operand": "cascadedcmp"}


def judge(ctx, modname, src, results, crashed, init, fixed_names, marks=()):
    src_lines = src.split("\n")
    for r in results:
        name, k = r["f"], r["k"]
        site = SITE_OF_FIXED.get(name, name) if name in fixed_names else "generated"
        mline = re.search(r"(?:acquired on lines: |decrefs on line |argument on line )(\d+)", r["nanny"] or "")
        if mline and name not in fixed_names:
            kw = stmt_keyword(marks, src_lines, int(mline.group(1)))
            site = "pending-return-when-finally-raises" if (kw == "return" and "leaked" in r["nanny"]) else "generated-" + kw
        fsrc = func_source(src, name)
        replay = {"leg": "fault", "module": modname, "function": name, "fail_at": k, "function_source": fsrc[:3000],
                  "module_source": src[:12000]}
        ctx.count("fault:%s" % ("k=0" if k == 0 else "k<=%d" % (1 << (k - 1).bit_length())))
        oc = r["cy"].split("(")[0].split(" ")
        ctx.count("fault-outcome:" + ("ok" if oc[0] == "ok" else " ".join(oc[:2])[:30]))
        ctx.seen(("fault", fsrc, k), nontrivial=r["ncy"] > 0)
        what = lambda s: ("%s(F3,F4,F5) with call #%d raising: %s" % (name, k, s))[:380]
        if r["nanny"]:
            kind = "leaked" if "leaked" in r["nanny"] else "too-many-decrefs" if "Too many" in r["nanny"] else "null" if "NULL" in r["nanny"] else "other"
            ctx.violation("fault-refnanny-%s:%s" % (kind, site), what("refnanny reports " + r["nanny"].replace("\n", " | ")[:200]), replay)
        if site == "pending-return-when-finally-raises" and any(d != 0 for d in r["rc"]):
            # the leaked pending return value may be (or hold) an argument: same defect, same key family
            ctx.violation("fault-leak:%s" % site, what("refcount change of the arguments %s (CPython: %s)" % (r["rc"], r["pyrc"])), replay)
            r = dict(r, rc=[0, 0, 0])
        if r["alive"] > r["pyalive"]:
            ctx.violation("fault-leak:%s" % site, what("%d tracked objects still alive after the call (CPython: %d)" % (r["alive"], r["pyalive"])), replay)
        if any(d != 0 for d in r["rc"]) and not any(d != 0 for d in r["pyrc"]):
            ctx.violation("fault-refcount:%s" % site, what("refcount change of the arguments %s (CPython: %s)" % (r["rc"], r["pyrc"])), replay)
        if k > 0 and r["py"] != r["cy"] and ("Injected" in r["py"] or "Injected" in r["cy"]) and \
                (r["logeq"] or r["cy"].startswith("err SystemError")):
            if True:
                ctx.violation("fault-outcome-differs:%s" % site, what("compiled %s, CPython %s" % (r["cy"][:120], r["py"][:120])), replay)
        if not r["logeq"]:
            ctx.count("fault:call-sequence-differs-from-cpython")
    if crashed:
        cname = (crashed["at"] or "?").split(" ")[0]
        csite = SITE_OF_FIXED.get(cname, cname) if cname in fixed_names else "generated"
        ctx.violation("fault-crash:%s" % ("timeout" if crashed["rc"] == "timeout" else csite),
                      ("child died rc=%s at case %s: %s" % (crashed["rc"], crashed["at"], crashed["stderr"][-150:]))[:380],
                      {"leg": "fault", "module": modname, "at": crashed["at"], "module_source": src[:12000]})
    if init:
        ctx.violation("fault-refnanny-module-init", ("module import printed: " + init)[:300], {"leg": "fault", "module": modname,
                                                                                              "module_source": src[:12000]})

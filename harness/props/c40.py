"""C40 — safe type inference never changes pure-Python results.

impl   = staged Cython.Compiler.TypeInference / ExprNodes / PyrexTypes (in-process, D-py) and modules compiled
         twice with the staged compiler: `infer_types=None` (safe, default) and `infer_types=False` (D-c)
model  = CyVerif.C40 (cydrv): `infer` (types + might_overflow per local), `ty` (typing tables), `run` (typed
         evaluation under the inferred types / with object locals), `clean` (the validator of the theorem)
oracle = the `infer_types=False` build (what the property compares with) and CPython running the same source
"""
import os
import re
import struct
import sys

import cybuild
import lib

sys.path.insert(0, os.path.dirname(os.path.abspath(__file__)))
import c40_gen as G      # noqa: E402

CAP = 300


def cap(x, n=CAP):
    s = x if isinstance(x, str) else repr(x)
    return s if len(s) <= n else s[:n] + "…"


# ------------------------------------------------------------------------------------------------
# in-process type inference of the staged compiler

class RealInferer:
    def __init__(self, ctx):
        from Cython.Compiler import TypeInference
        self.ctx = ctx
        self.TI = TypeInference
        self.rec = []
        self.scope = None
        self.n = 0
        orig = TypeInference.SimpleAssignmentTypeInferer.infer_types
        me = self

        def hooked(inferer, scope):
            orig(inferer, scope)
            if getattr(scope, "is_local_scope", False):
                me.scope = scope
                me.rec.append((scope.name, {n: (str(e.type), bool(e.might_overflow))
                                            for n, e in scope.entries.items()}))
        self._orig = orig
        TypeInference.SimpleAssignmentTypeInferer.infer_types = hooked

    def close(self):
        self.TI.SimpleAssignmentTypeInferer.infer_types = self._orig

    def infer_module(self, src):
        """-> ('ok', {func: {var: (type, mo)}}) | ('error', msg) | ('crash', exception name)"""
        from Cython.Compiler import Main, Pipeline, Errors, Options
        from Cython.Compiler.Main import CompilationOptions, CompilationSource, Context
        from Cython.Compiler.Scanning import FileSourceDescriptor
        from Cython.Compiler.ParseTreeTransforms import AnalyseExpressionsTransform
        import io
        self.rec = []
        self.n += 1
        d = os.path.join(self.ctx.scratch, "ip")
        os.makedirs(d, exist_ok=True)
        path = os.path.join(d, "m%d.py" % self.n)
        with open(path, "w") as f:
            f.write(src)
        try:
            opts = CompilationOptions(Options.default_options, compiler_directives={}, language_level=3)
            context = Context.from_options(opts)
            Errors.init_thread()
            Errors.open_listing_file(None, echo_to_stderr=False)
            source = CompilationSource(FileSourceDescriptor(path, os.path.basename(path)), "m%d" % self.n, d)
            result = Main.create_default_resultobj(source, opts)
            pipeline = Pipeline.create_py_pipeline(context, opts, result)
            cut = []
            for ph in pipeline:
                cut.append(ph)
                if isinstance(ph, AnalyseExpressionsTransform):
                    break
            old = sys.stderr
            sys.stderr = io.StringIO()
            try:
                err, _tree = Pipeline.run_pipeline(cut, source)
            finally:
                sys.stderr = old
        except BaseException as e:    # noqa: B902
            return ("crash", type(e).__name__)
        finally:
            try:
                os.unlink(path)
            except OSError:
                pass
        if err is not None:
            msg = str(err)
            if "Compiler crash" in msg or "AttributeError" in msg or "TypeError" in msg:
                return ("crash", cap(msg.strip().split("\n")[-1], 120))
            return ("error", cap(msg, 200))
        return ("ok", dict(self.rec))


def detect_cfg(ctx, real):
    """which of the repairs of this round are present in the staged source (model variant flags)"""
    from Cython.Compiler import TypeInference as TI, PyrexTypes as PT, ExprNodes as EN
    flags = {}
    notes = {}

    def probe(name, fn):
        try:
            flags[name] = bool(fn())
        except BaseException as e:   # noqa: B902
            flags[name] = False
            notes[name] = "probe raised " + type(e).__name__
    probe("spanIntFloatObj", lambda: TI.safe_spanning_type([PT.c_long_type, PT.c_double_type], False, None) is PT.py_object_type)
    probe("bintNoOverflow", lambda: TI.safe_spanning_type([PT.c_bint_type], True, None) is PT.py_object_type)
    probe("unopBintInt", lambda: EN.UnaryMinusNode((None, 1, 1), operand=TI.TypedExprNode(PT.c_bint_type)).infer_type(None) is PT.c_int_type)
    probe("spanCharIntObj", lambda: TI.safe_spanning_type([PT.c_py_ucs4_type, PT.c_long_type], False, None) is PT.py_object_type)
    src = ("def f(a):\n    v = len(a)\n    v <<= 70\n    v = 2.0\n    return v\n"
           "def g(a):\n    for v in range(0):\n        pass\n    w = v\n    return w\n")
    r = real.infer_module(src)
    flags["reinferNoneObj"] = r[0] == "ok"
    r2 = real.infer_module("def g(a):\n    for v in range(0):\n        pass\n    w = v\n    return w\n")
    flags["unboundObj"] = r2[0] == "ok" and r2[1].get("g", {}).get("v", ("", 0))[0] == "Python object"
    if r2[0] != "ok":
        notes["unboundObj"] = "probe module did not compile: " + cap(r2[1], 100)
    r3 = real.infer_module("def f(a):\n    x = len(a)\n    y = 5\n    z = (x < y) << 40\n    return z\n"
                           "def g(a):\n    b = True\n    b /= 3\n    c = b * b\n    return c\n"
                           "def h(a):\n    x = 2\n    x += 0\n    y = 3\n    y += 0\n    z = x ** y\n    return z\n")
    ok3 = r3[0] == "ok"
    if not ok3:
        notes["probe3"] = "probe module did not compile: " + cap(r3[1], 100)
    flags["cmpNeutral"] = ok3 and r3[1].get("f", {}).get("x", ("", 0))[1] is True
    flags["inplaceTrueDiv"] = ok3 and r3[1].get("g", {}).get("c", ("", 0))[0] == "Python object"
    flags["powIntObj"] = ok3 and r3[1].get("h", {}).get("z", ("", 0))[0] == "Python object"
    order = ["spanIntFloatObj", "bintNoOverflow", "unopBintInt", "spanCharIntObj", "reinferNoneObj", "unboundObj",
             "cmpNeutral", "inplaceTrueDiv", "powIntObj"]
    n = sum(1 << i for i, k in enumerate(order) if flags[k])
    return n, flags, notes


# ------------------------------------------------------------------------------------------------
# typing tables: exhaustive comparison of the model's tables with the staged compiler's infer_type

TYS = ["obj", "pyint", "pystr", "pyfloat", "clong", "cssize", "cint", "bint", "cdouble", "ucs4", "softc"]
OPSYM = {v: k for k, v in G.OPNAME.items()}


def real_types():
    from Cython.Compiler import PyrexTypes as PT, Builtin as B
    return {"obj": PT.py_object_type, "pyint": B.int_type, "pystr": B.unicode_type, "pyfloat": B.float_type,
            "clong": PT.c_long_type, "cssize": PT.c_py_ssize_t_type, "cint": PT.c_int_type, "bint": PT.c_bint_type,
            "cdouble": PT.c_double_type, "ucs4": PT.c_py_ucs4_type, "softc": PT.soft_complex_type}


def table_tie(ctx, real, cfgn):
    from Cython.Compiler import ExprNodes as EN, TypeInference as TI
    from Cython.Compiler.StringEncoding import EncodedString
    rt = real_types()
    pos = ("c40", 1, 1)
    env = real.scope
    if env is None:
        raise lib.Infra("no scope captured for the table tie")

    def rname(t):
        if t is None:
            return "None"
        return str(t).replace(" ", "_")

    def call(fn):
        try:
            return rname(fn())
        except BaseException as e:    # noqa: B902
            return "raise:" + type(e).__name__

    def typed(t):
        return TI.TypedExprNode(rt[t], pos)

    def lit(v):
        if isinstance(v, bool):
            n = EN.BoolNode(pos, value=v)
        elif isinstance(v, int):
            n = EN.IntNode(pos, value=str(v))
        elif isinstance(v, float):
            n = EN.FloatNode(pos, value=repr(v))
        else:
            n = EN.UnicodeNode(pos, value=EncodedString(v))
        try:
            n.calculate_constant_result()
        except Exception:
            pass
        return n

    def cdesc(v):
        if v is None:
            return "-"
        return "%d%d%d" % (v >= 0, int(v) == v, isinstance(v, int) and v < 0)

    lines, reals, descr = [], [], []

    def add(line, fn, what):
        lines.append("C40 ty %d %s" % (cfgn, line))
        reals.append(call(fn))
        descr.append(what)

    for opn, sym in OPSYM.items():
        for ip in (0, 1):
            for t1 in TYS:
                for t2 in TYS:
                    def mk(sym=sym, ip=ip, t1=t1, t2=t2, o1=None):
                        n = EN.binop_node(pos, sym, o1 or typed(t1), typed(t2), inplace=bool(ip))
                        if sym == "/" and not ip:
                            n.truedivision = True
                        return n.infer_type(env)
                    add("bin %s %d 0 %s %s - -" % (opn, ip, t1, t2), mk, ("bin", sym, ip, t1, t2))
                    if t1 == "pystr" and sym == "%":
                        add("bin %s %d 1 %s %s - -" % (opn, ip, t1, t2),
                            lambda mk=mk: mk(o1=lit("ab")), ("bin-lit", sym, ip, t1, t2))
    consts = [5, -5, 0, 2.5, -2.5, 2.0, -2.0, True]
    lt = lambda v: "bint" if isinstance(v, bool) else "clong" if isinstance(v, int) else "cdouble"
    for t in TYS:
        for c in consts:
            add("bin pow 0 0 %s %s - %s" % (t, lt(c), cdesc(c)),
                lambda t=t, c=c: EN.binop_node(pos, "**", typed(t), lit(c)).infer_type(env), ("pow-c2", t, c))
            add("bin pow 0 0 %s %s %s -" % (lt(c), t, cdesc(c)),
                lambda t=t, c=c: EN.binop_node(pos, "**", lit(c), typed(t)).infer_type(env), ("pow-c1", c, t))
    for t in TYS:
        for opn, cls in (("neg", EN.UnaryMinusNode), ("pos", EN.UnaryPlusNode), ("inv", EN.TildeNode), ("not", EN.NotNode)):
            add("un %s %s" % (opn, t), lambda t=t, cls=cls: cls(pos, operand=typed(t)).infer_type(env), ("un", opn, t))
        add("abs %s" % t, lambda t=t: EN.SimpleCallNode(pos, function=EN.NameNode(pos, name=EncodedString("abs")),
                                                        args=[typed(t)]).infer_type(env), ("abs", t))
        for ti in TYS:
            add("idx %s %s 0" % (t, ti), lambda t=t, ti=ti: EN.IndexNode(pos, base=typed(t), index=typed(ti)).infer_type(env),
                ("idx", t, ti))
        add("idx %s clong 1" % t, lambda t=t: EN.IndexNode(pos, base=typed(t), index=lit(1)).infer_type(env), ("idx-lit", t))
    for mo in (0, 1):
        for t1 in TYS:
            add("span %d %s" % (mo, t1), lambda t1=t1, mo=mo: TI.safe_spanning_type([rt[t1]], bool(mo), env), ("span", mo, t1))
            for t2 in TYS:
                add("span %d %s %s" % (mo, t1, t2),
                    lambda t1=t1, t2=t2, mo=mo: TI.safe_spanning_type([rt[t1], rt[t2]], bool(mo), env), ("span", mo, t1, t2))
                for t3 in ("clong", "cdouble", "bint", "ucs4", "obj", "pyint"):
                    add("span %d %s %s %s" % (mo, t1, t2, t3),
                        lambda t1=t1, t2=t2, t3=t3, mo=mo: TI.safe_spanning_type([rt[t1], rt[t2], rt[t3]], bool(mo), env),
                        ("span", mo, t1, t2, t3))
    outs = ctx.drv.batch(lines)
    bad = 0
    for line, r, o, d in zip(lines, reals, outs, descr):
        ctx.count("table/" + d[0])
        ctx.seen(("table",) + tuple(map(str, d)))
        m = o[3:] if o.startswith("ok ") else o
        if r.startswith("raise:"):
            # the compiler raises on this operand combination: the model must say None / crash
            okk = m in ("None", "crash")
        else:
            okk = (m == r)
        if not okk:
            bad += 1
            if bad <= 5:
                ctx.tie_break("G/D-py typing table %s" % d[0], "%s: model %s, staged compiler %s" % (cap(d, 80), m, r),
                              {"op": "table", "line": line, "model": m, "impl": r})
    ctx.notes["typing_table_entries"] = len(lines)
    ctx.notes["typing_table_mismatches"] = bad
    ctx.obligation("typing tables of the model = infer_type of the staged compiler on %d operand combinations" % len(lines),
                   bad == 0, "exhaustive over 11 types x 12 binary operators x inplace, unary ops, abs, indexing, safe_spanning_type on 1-3 types")
    return bad


# ------------------------------------------------------------------------------------------------
# D-py: inferred type of every local, real inferer vs model

def gen_programs(ctx, n, small_every=2, rng=None):
    rng = rng or ctx.rng
    out = []
    for i in range(n):
        small = (i % small_every) == 1
        out.append(G.Gen(rng, nloc=3 if small else 5, small=small).prog())
    return out


def module_source(progs, names=None):
    src = G.RUNTIME_PRELUDE
    spans = []
    for i, p in enumerate(progs):
        start = src.count("\n") + 2
        src += "\n" + G.render(p, names[i] if names else "f%d" % i)
        spans.append((start, src.count("\n") + 1))
    return src, spans


def model_infer_line(out, prog):
    """model `infer` output -> {var name: (type, mo)} | 'crash' | 'diverge'"""
    if not out.startswith("ok"):
        return out.split()[0] if out else "empty"
    d = {}
    for tok in out.split()[1:]:
        v, t, mo = tok.split(":")
        for a, b in (("Python_object", "Python object"), ("int_object", "int object"), ("str_object", "str object"),
                     ("float_object", "float object"), ("soft_double_complex", "soft double complex")):
            if t == a:
                t = b
        d[G.vname(int(v))] = (t, mo == "1")
    return d


def dpy_programs(ctx, real, cfgn, progs, label):
    """returns list of indices where model and staged inferer disagree"""
    outs = ctx.drv.batch(["C40 infer %d %s" % (cfgn, G.encode(p)) for p in progs])
    bad = []
    B = 10
    for b0 in range(0, len(progs), B):
        chunk = progs[b0:b0 + B]
        src, _ = module_source(chunk)
        r = real.infer_module(src)
        per = {}
        if r[0] == "ok":
            per = {i: ("ok", r[1].get("f%d" % i)) for i in range(len(chunk))}
        else:
            for i, p in enumerate(chunk):       # isolate the function that fails
                ri = real.infer_module(G.RUNTIME_PRELUDE + "\n" + G.render(p, "f%d" % i))
                got = dict(real.rec).get("f%d" % i)
                if ri[0] != "ok" and got is not None:
                    # inference itself went through; a later phase rejected the function (or crashed on it)
                    ctx.count("dpy/%s/later-phase-%s" % (label, ri[0]))
                    per[i] = ("ok", got)
                else:
                    per[i] = (ri[0], ri[1].get("f%d" % i) if ri[0] == "ok" else ri[1])
        for i, p in enumerate(chunk):
            kind, val = per[i]
            m = model_infer_line(outs[b0 + i], p)
            ctx.count("dpy/%s/%s" % (label, kind if kind != "ok" else ("model-" + m if isinstance(m, str) else "typed")))
            if kind == "error":
                continue                   # rejected at compile time (both modes): outside the property
            nt = any(t not in ("Python object",) for t, _ in m.values()) if isinstance(m, dict) else True
            ctx.seen(("dpy", G.encode(p)), nontrivial=nt)
            if kind == "crash":
                if m != "crash":
                    bad.append(b0 + i)
                    ctx.tie_break("D-py inferer crash", "staged compiler crashed (%s), model says %s" % (cap(val, 80), cap(m, 80)),
                                  {"op": "infer", "prog": p, "source": cap(G.render(p), 1500)})
                else:
                    ctx.violation("compiler-crash-in-type-inference",
                                  "valid Python makes the compiler crash in safe type inference (%s): %s" % (cap(val, 60), cap(G.render(p), 200)),
                                  {"op": "infer", "prog": p, "source": cap(G.render(p), 1500)})
                continue
            realv = {k: v for k, v in (val or {}).items() if re.match(r"v\d+$", k)}
            if m == "crash" and r[0] == "ok":
                # whether the compiler trips over an uninferable type depends on the iteration order of Python
                # sets of objects (reduce(find_spanning_type, ...) meets None first or last): retry alone
                ri = real.infer_module(G.RUNTIME_PRELUDE + "\n" + G.render(p, "f%d" % i))
                if ri[0] == "crash":
                    ctx.count("dpy/%s/crash-order-dependent" % label)
                    ctx.violation("compiler-crash-in-type-inference",
                                  "valid Python makes the compiler crash in safe type inference (%s; depends on set order): %s" % (
                                      cap(ri[1], 60), cap(G.render(p), 200)),
                                  {"op": "infer", "prog": p, "source": cap(G.render(p), 1500)})
                    continue
            if m != realv:
                bad.append(b0 + i)
                ctx.tie_break("D-py inferred types", "model %s, staged inferer %s" % (cap(m, 150), cap(realv, 150)),
                              {"op": "infer", "prog": p, "source": cap(G.render(p), 1500)})
            elif len(ctx.samples) < 3:
                ctx.sample({"source": cap(G.render(p), 400), "inferred": cap(realv, 200)})
    return bad


# ------------------------------------------------------------------------------------------------
# D-c: the same module built with infer_types=None and infer_types=False, CPython, and the model evaluators

def build_pairs(ctx, tag, groups):
    """groups: list of lists of programs.  Builds each group twice; functions the compiler rejects are
    dropped (and recorded).  -> list of (src, alive indices, so_safe, so_off) or None, and the rejected list"""
    rejected = []
    state = [{"alive": list(range(len(g))), "done": None} for g in groups]
    for attempt in range(4):
        specs, owners = [], []
        for gi, g in enumerate(groups):
            st = state[gi]
            if st["done"] is not None or not st["alive"]:
                continue
            src, spans = module_source([g[i] for i in st["alive"]])
            st["src"], st["spans"] = src, spans
            specs.append(dict(name="%s_%d_s" % (tag, gi), source=src, ext=".py", directives={}))
            specs.append(dict(name="%s_%d_o" % (tag, gi), source=src, ext=".py", directives={"infer_types": False}))
            owners.append(gi)
        if not specs:
            break
        res = cybuild.build_many(ctx, specs)
        for k, gi in enumerate(owners):
            st = state[gi]
            rs, ro = res[2 * k], res[2 * k + 1]
            badf = {}
            for which, r in (("safe", rs), ("off", ro)):
                if isinstance(r, cybuild.BuildError):
                    if r.stage != "cython":
                        raise lib.Infra("C compiler failed on generated module: " + r.log[-400:])
                    found = False
                    for m in re.finditer(r"\.py:(\d+):\d+: (.*)", r.log):
                        if m.group(2).startswith("warning") or "Python has no increment/decrement operator" in m.group(2):
                            continue      # warnings (the second one is printed without the 'warning:' prefix)
                        ln = int(m.group(1))
                        for j, (a, b) in enumerate(st["spans"]):
                            if a <= ln <= b:
                                badf.setdefault(st["alive"][j], {})[which] = m.group(2)
                                found = True
                    if not found:
                        if "Compiler crash" in r.log:
                            # position unknown: drop half of the functions
                            for j in st["alive"][::2]:
                                badf.setdefault(j, {})[which] = "compiler crash (unlocated)"
                        else:
                            raise lib.Infra("cython failed without a position: " + r.log[-400:])
            if not badf:
                st["done"] = (st["src"], list(st["alive"]), rs, ro)
            else:
                for j, d in badf.items():
                    rejected.append((groups[gi][j], d))
                st["alive"] = [j for j in st["alive"] if j not in badf]
    return [st["done"] for st in state], rejected


VIOL_CLASSES = [
    (r"^unbound-c-variable", "unbound-c-variable"),
    (r"^store-double-from-(long|Py_ssize_t|int|int_object|Python_object|bint|Py_UCS4)", "span-int-float-to-double"),
    (r"^store-.*-from-Py_UCS4|^store-Py_UCS4-from", "span-char-int"),
    (r"^store-bint-from-int", "unop-on-bint-inferred-bint"),
    (r"^cmp-.*-(long|Py_ssize_t|int|bint)-double|^cmp-.*-double-(long|Py_ssize_t|int|bint)", "c-int-double-compare"),
    (r"^binop-pow-double|^binop-pow-.*-double$", "double-pow"),
    (r"bint", "bint-in-arithmetic"),
    (r"Py_UCS4", "char-as-number"),
]


def classify(why, safe_outcome="", model_safe=""):
    if safe_outcome.startswith("crash") or model_safe.startswith("ub builtin-type-claim"):
        return "false-builtin-type-claim"
    for pat, key in VIOL_CLASSES:
        if re.search(pat, why):
            return key
    return "other-" + why[:40]


def dc_round(ctx, cfgn, progs, tag, n_inputs, extra_inputs=None, rng=None):
    """three-way on compiled modules.  returns number of safe!=off cases"""
    K = 20
    groups = [progs[i:i + K] for i in range(0, len(progs), K)]
    built, rejected = build_pairs(ctx, tag, groups)
    for p, d in rejected:
        kind = "both" if len(d) == 2 else list(d)[0] + "-only"
        msg = list(d.values())[0]
        ctx.count("dc/compile-rejected/" + kind)
        if "Compiler crash" in msg or "compiler crash" in msg:
            ctx.violation("compiler-crash-in-type-inference", "compiler crash (%s build): %s" % (kind, cap(G.render(p), 200)),
                          {"op": "build", "prog": p, "source": cap(G.render(p), 1500), "message": cap(msg, 200)})
        elif kind == "safe-only":
            # valid Python that compiles without inference but is rejected with it
            ctx.notes["safe_only_compile_errors"] = ctx.notes.get("safe_only_compile_errors", 0) + 1
            slug = re.sub(r"'[^']*'|\([^)]*\)", "", msg).strip().lower()
            slug = re.sub(r"[^a-z]+", "-", slug).strip("-")[:48]
            ctx.violation("safe-only-compile-error-" + slug,
                          "compiles with infer_types=False, rejected with safe inference (%s):\n%s" % (cap(msg, 100), cap(G.render(p), 300)),
                          {"op": "build", "prog": p, "source": cap(G.render(p), 1500), "message": cap(msg, 200)})
    ndiff = 0
    for gi, b in enumerate(built):
        if b is None:
            continue
        src, alive, so_s, so_o = b
        g = groups[gi]
        pyp = os.path.join(ctx.scratch, "py_%s_%d.py" % (tag, gi))
        with open(pyp, "w") as f:
            f.write(src)
        cases = []
        for j, pi in enumerate(alive):
            ins = G.gen_inputs(rng or ctx.rng, n_inputs)
            if extra_inputs and (gi * K + pi) in extra_inputs:
                ins = list(extra_inputs[gi * K + pi]) + ins
            for a in ins:
                cases.append(("f%d" % j, a, pi))
        rc = [(fn, a) for fn, a, _ in cases]
        o_s = cybuild.run_cases(ctx, so_s, rc, timeout_per_case=3)
        o_o = cybuild.run_cases(ctx, so_o, rc, timeout_per_case=3)
        o_p = cybuild.run_cases(ctx, pyp, rc, timeout_per_case=3, modname="c40py_%s_%d" % (tag, gi))
        lines = []
        for fn, a, pi in cases:
            enc, ea = G.encode(g[pi]), G.encode_args(a)
            lines.append("C40 run %d safe 400 %s | %s" % (cfgn, enc, ea))
            lines.append("C40 run %d off 400 %s | %s" % (cfgn, enc, ea))
        mo = ctx.drv.batch(lines)
        cl = ctx.drv.batch(["C40 clean %d %s" % (cfgn, G.encode(g[pi])) for pi in alive])
        clean_of = dict(zip(alive, cl))
        for k, (fn, a, pi) in enumerate(cases):
            s, o, p = o_s[k], o_o[k], o_p[k]
            ms, mf = G.model_to_canon(mo[2 * k]), G.model_to_canon(mo[2 * k + 1])
            cln = clean_of[pi]
            prog = g[pi]
            unstable = any(x in ("timeout", "err MemoryError", "err RecursionError") for x in (s, o, p))
            ctx.count("dc/" + ("unstable" if unstable else "clean" if cln == "ok clean" else "unclean") + "/" + s.split()[0])
            if unstable:
                continue
            ctx.seen(("dc", G.encode(prog), a), nontrivial=(cln == "ok clean" or s != o))
            rep = {"op": "dc", "prog": prog, "args": a, "source": cap(G.render(prog), 1500), "safe": cap(s, 200),
                   "off": cap(o, 200), "cpython": cap(p, 200), "model_safe": cap(ms, 200), "model_off": cap(mf, 200), "clean": cln}
            if s != o:
                ndiff += 1
                why = cln.split()[2] if cln.startswith("ok unclean") else cln
                key = (classify(why, s, mo[2 * k]) if cln.startswith("ok unclean") or s.startswith("crash")
                       else "clean-program-differs")
                ctx.violation(key, "infer_types=None gives %s, infer_types=False gives %s (CPython %s) for args %s of:\n%s" % (
                    cap(s, 80), cap(o, 80), cap(p, 80), cap(a, 80), cap(G.render(prog), 400)), rep)
                if key == "clean-program-differs":
                    ctx.tie_break("theorem clean_sound vs compiled code", "validator accepts the typing but the builds differ", rep)
            if o != p:
                ctx.notes["off_build_differs_from_cpython"] = ctx.notes.get("off_build_differs_from_cpython", 0) + 1
                ctx.notes.setdefault("off_vs_cpython_example", cap("%s: off=%s cpython=%s :: %s" % (a, o, p, G.render(prog)), 500))
            for which, m, impl in (("safe", ms, s), ("off", mf, o)):
                if m.split()[0] in ("ub", "unsup", "crash", "diverge"):
                    ctx.count("dc/model-" + m.split()[0])
                    if m.startswith("ub builtin-type-claim") and s == o:
                        # the second disjunct of `Agree`: an exact builtin type recorded for a name node does not
                        # hold at run time (the model stops there); the generated code happened not to rely on it
                        ctx.notes["false_type_claims_without_visible_effect"] = ctx.notes.get("false_type_claims_without_visible_effect", 0) + 1
                        ctx.notes.setdefault("false_type_claim_example", cap("%s :: %s" % (a, G.render(prog)), 600))
                    continue
                if impl.startswith("crash"):
                    continue        # undefined behaviour in the real code: reported by the safe-vs-off comparison
                if m != impl:
                    ctx.tie_break("D-c model evaluator (%s build)" % which, "model %s, compiled %s for %s" % (cap(m, 80), cap(impl, 80), cap(a, 60)), rep)
            if len(ctx.samples) < 8 and cln == "ok clean" and s.startswith("ok"):
                ctx.sample({"source": cap(G.render(prog), 300), "args": a, "safe": cap(s, 80), "off": cap(o, 80), "cpython": cap(p, 80), "model": cap(ms, 80)})
    return ndiff


# ------------------------------------------------------------------------------------------------
# witnesses of the counterexample theorems (Props/C40.lean), replayed on the real compiler

def _n(v):
    return ('name', v)


WITNESSES = [
    # key, fixing flag, program, args
    ("span-int-float-to-double", "spanIntFloatObj",
     [('assign', 3, ('int', 1)), ('if', _n(0), [('assign', 3, ('float', (1.5).hex()))], []), ('ret', _n(3))], "(0, [], 0)"),
    ("bint-in-arithmetic", "bintNoOverflow",
     [('assign', 3, ('un', 'not', _n(0))), ('assign', 4, ('bin', '<<', _n(3), ('int', 31))), ('ret', _n(4))], "(0, [], 0)"),
    ("unop-on-bint-inferred-bint", "unopBintInt",
     [('assign', 3, ('un', 'not', _n(0))), ('assign', 4, ('un', '-', _n(3))), ('ret', _n(4))], "(0, [], 0)"),
    ("span-char-int", "spanCharIntObj",
     [('assign', 3, ('idx', ('str', 'abc'), ('len', _n(1)))), ('forr', 3, [('int', 0)], [('pass',)]), ('assign', 4, _n(3)), ('ret', _n(4))],
     "(0, [], 0)"),
    ("unbound-c-variable", "unboundObj",
     [('forr', 3, [('int', 0)], [('pass',)]), ('assign', 4, _n(3)), ('ret', ('cmp', 'is', _n(4), ('none',)))], "(0, [], 0)"),
    ("c-int-double-compare", None,
     [('assign', 3, ('len', _n(2))), ('assign', 4, ('float', (9007199254740992.0).hex())), ('ret', ('cmp', '==', _n(3), _n(4)))],
     "(0, [], BigLen(2**53+1))"),
    ("double-pow", None,
     [('assign', 3, ('float', (2.0).hex())), ('assign', 4, ('float', (2000.0).hex())), ('ret', ('bin', '**', _n(3), _n(4)))], "(0, [], 0)"),
    ("c-compare-result-in-arithmetic", "cmpNeutral",
     [('assign', 3, ('len', _n(1))), ('assign', 4, ('int', 5)), ('assign', 5, ('bin', '<<', ('cmp', '<', _n(3), _n(4)), ('int', 40))), ('ret', _n(5))],
     "(0, [1], 0)"),
    ("false-int-object-claim-inplace-div", "inplaceTrueDiv",
     [('assign', 3, ('bool', True)), ('aug', 3, '/', ('int', 3)), ('assign', 4, ('bin', '*', _n(3), _n(3))), ('ret', _n(4))], "(0, [], 0)"),
    ("false-builtin-type-claim", "inplaceTrueDiv",
     [('assign', 3, ('un', 'not', _n(0))), ('aug', 3, '/', ('int', 2)), ('assign', 4, ('bin', '*', _n(3), _n(3))), ('ret', _n(4))], "(0, [], 0)"),
    ("char-as-number", None,
     [('assign', 3, ('idx', ('str', 'abc'), ('len', _n(1)))), ('assign', 4, ('un', '~', _n(3))), ('ret', _n(4))], "(0, [], 0)"),
    ("false-int-object-claim-pow", "powIntObj",
     [('assign', 3, ('int', 2)), ('aug', 3, '+', ('int', 0)), ('assign', 4, ('int', -1)), ('aug', 4, '+', ('int', 0)),
      ('assign', 5, ('bin', '**', _n(3), _n(4))), ('ret', ('bin', '*', _n(5), _n(5)))], "(0, [], 0)"),
]
CRASH_WITNESS = [('assign', 3, ('len', _n(1))), ('aug', 3, '<<', ('int', 70)), ('assign', 3, ('float', (2.0).hex())), ('ret', _n(3))]


def witnesses(ctx, real, cfgn, flags):
    progs = [w[2] for w in WITNESSES]
    built, rejected = build_pairs(ctx, "wit", [progs])
    res = {}
    if built[0] is None:
        ctx.tie_break("witness module", "the witness programs could not be built", {"op": "witness"})
        return res
    src, alive, so_s, so_o = built[0]
    cases = [("f%d" % j, WITNESSES[pi][3]) for j, pi in enumerate(alive)]
    o_s = cybuild.run_cases(ctx, so_s, cases, timeout_per_case=5)
    o_o = cybuild.run_cases(ctx, so_o, cases, timeout_per_case=5)
    mo = ctx.drv.batch([x for pi in alive for x in (
        "C40 run %d safe 400 %s | %s" % (cfgn, G.encode(WITNESSES[pi][2]), G.encode_args(WITNESSES[pi][3])),
        "C40 run %d off 400 %s | %s" % (cfgn, G.encode(WITNESSES[pi][2]), G.encode_args(WITNESSES[pi][3])))])
    for j, pi in enumerate(alive):
        key, flag, prog, args = WITNESSES[pi]
        s, o = o_s[j], o_o[j]
        ms, mf = G.model_to_canon(mo[2 * j]), G.model_to_canon(mo[2 * j + 1])
        fixed = bool(flag and flags.get(flag))
        ctx.count("witness/" + ("fixed" if fixed else "open"))
        ctx.seen(("witness", pi))
        res[pi] = (s, o)
        rep = {"op": "dc", "prog": prog, "args": args, "source": cap(G.render(prog), 800), "safe": cap(s, 120), "off": cap(o, 120),
               "model_safe": cap(ms, 120), "model_off": cap(mf, 120)}
        if s != o:
            ctx.violation(key, "witness: infer_types=None gives %s, infer_types=False gives %s for args %s of:\n%s" % (
                cap(s, 80), cap(o, 80), args, cap(G.render(prog), 300)), rep)
            if fixed:
                ctx.tie_break("witness expected to be repaired", "flag %s detected but the witness still deviates" % flag, rep)
        elif not fixed:
            ctx.notes.setdefault("witness_no_longer_reproduces", []).append(key)
        for which, m, impl in (("safe", ms, s), ("off", mf, o)):
            if m.split()[0] in ("ub", "unsup"):
                continue
            if m != impl:
                ctx.tie_break("D-c model evaluator on witness (%s build)" % which, "model %s, compiled %s" % (cap(m, 80), cap(impl, 80)), rep)
    # the compiler crash witness (D-py)
    r = real.infer_module(G.RUNTIME_PRELUDE + "\n" + G.render(CRASH_WITNESS))
    m = ctx.drv.batch(["C40 infer %d %s" % (cfgn, G.encode(CRASH_WITNESS))])[0]
    ctx.count("witness/crash")
    if r[0] == "crash":
        ctx.violation("compiler-crash-in-type-inference", "witness: `v = len(a); v <<= 70; v = 2.0` crashes the compiler in reinfer() (%s)" % cap(r[1], 80),
                      {"op": "infer", "prog": CRASH_WITNESS, "source": G.render(CRASH_WITNESS)})
    if (r[0] == "crash") != (m == "crash"):
        ctx.tie_break("D-py crash witness", "staged compiler %s, model %s" % (cap(r, 80), cap(m, 80)), {"op": "infer", "prog": CRASH_WITNESS})
    return res


# ------------------------------------------------------------------------------------------------
# line coverage of the modelled functions (sys.monitoring)

class Coverage:
    TOOL = 3

    def __init__(self):
        from Cython.Compiler import TypeInference as TI
        self.codes = {}
        self.hit = set()
        targets = [TI.MarkOverflowingArithmetic, TI.SimpleAssignmentTypeInferer.infer_types, TI.find_spanning_type,
                   TI.safe_spanning_type, TI.simply_type]

        def walk(code, label):
            self.codes[code] = label
            for c in code.co_consts:
                if hasattr(c, "co_code"):
                    walk(c, label + "." + c.co_name)
        for t in targets:
            if isinstance(t, type):
                for k, v in vars(t).items():
                    f = getattr(v, "__func__", v)
                    if hasattr(f, "__code__"):
                        walk(f.__code__, t.__name__ + "." + k)
            else:
                f = getattr(t, "__func__", t)
                walk(f.__code__, f.__qualname__)
        self.on = False
        try:
            mon = sys.monitoring
            mon.use_tool_id(self.TOOL, "c40cov")
            mon.register_callback(self.TOOL, mon.events.LINE, self._line)
            for code in self.codes:
                mon.set_local_events(self.TOOL, code, mon.events.LINE)
            self.on = True
        except Exception:
            self.on = False

    def _line(self, code, line):
        self.hit.add((code, line))
        return sys.monitoring.DISABLE

    def report(self):
        if not self.on:
            return {"available": False}
        total = 0
        missed = []
        for code, label in self.codes.items():
            lines = {l for _, _, l in code.co_lines() if l is not None and l != code.co_firstlineno}
            total += len(lines)
            for l in sorted(lines):
                if (code, l) not in self.hit:
                    missed.append("%s:%d" % (label, l))
        try:
            sys.monitoring.free_tool_id(self.TOOL)
        except Exception:
            pass
        return {"available": True, "lines": total, "executed": total - len(missed), "missed": missed[:40]}


# ------------------------------------------------------------------------------------------------

def amplify(prog):
    """variants of a program on which model and compiler disagree, made to overflow C integers more easily:
    small int literals in arithmetic become 2**31-1, products are squared, shift counts become 62"""
    def ex(e, big, sq):
        k = e[0]
        if k == 'bin':
            a, b = ex(e[2], big, sq), ex(e[3], big, sq)
            if big:
                if a[0] == 'int' and 0 < a[1] < 2 ** 31 and e[1] in ('*', '+', '-'):
                    a = ('int', 2 ** 31 - 1)
                if b[0] == 'int' and 0 < b[1] < 2 ** 31:
                    b = ('int', 62) if e[1] == '<<' else ('int', 2 ** 31 - 1) if e[1] in ('*', '+', '-') else b
            r = ('bin', e[1], a, b)
            if sq and e[1] in ('*', '+'):
                r = ('bin', '*', r, r)
            return r
        if k in ('un', 'cmp'):
            return (k, e[1]) + tuple(ex(x, big, sq) for x in e[2:])
        if k in ('call', 'len', 'abs'):
            return (k, ex(e[1], big, sq))
        if k == 'idx':
            return (k, ex(e[1], big, sq), ex(e[2], big, sq))
        return e

    counters = set()

    def find_counters(body):
        for s_ in body:
            if s_[0] == 'while' and s_[1][0] == 'name':
                counters.add(s_[1][1])
            for x in s_[1:]:
                if isinstance(x, (list, tuple)) and x and isinstance(x[0], (list, tuple)):
                    find_counters(x)
    find_counters(prog)

    def st(body, big, sq):
        out = []
        for s_ in body:
            k = s_[0]
            if k == 'assign':
                e = s_[2]
                if s_[1] in counters:
                    out.append(s_)
                    continue
                if big and e[0] == 'int' and 0 < e[1] < 2 ** 31 - 1:
                    e = ('int', 2 ** 31 - 1)
                out.append(('assign', s_[1], ex(e, big, sq)))
            elif k == 'aug':
                out.append(('aug', s_[1], s_[2], ex(s_[3], big, sq)))
            elif k == 'forr':
                out.append(('forr', s_[1], s_[2], st(s_[3], big, sq)))
            elif k == 'forin':
                out.append(('forin', s_[1], s_[2], st(s_[3], big, sq)))
            elif k == 'while':
                out.append(('while', s_[1], st(s_[2], big, sq)))
            elif k == 'if':
                out.append(('if', ex(s_[1], big, sq), st(s_[2], big, sq), st(s_[3], big, sq)))
            elif k == 'ret':
                out.append(('ret', ex(s_[1], big, sq)))
            else:
                out.append(s_)
        return out
    return [st(prog, True, False), st(prog, False, True), st(prog, True, True)]


BIG_INPUTS = ["(2**62, [1, 2, 3], BigLen(2**62))", "(2**31-1, 'xyz', BigLen(2**63-1))", "(3, [1, 2, 3], BigLen(2**31))",
              "(-2**63, [2.5, -1], 2**63-1)", "(1.5, (4, 5), BigLen(2**53+1))", "(True, [], 3)"]


def marking_probes():
    """one program per way an operand can overflow a C integer: a local with a C-integer source is used once in
    a possibly overflowing operation.  On a correct tree the local is marked and stays a Python int."""
    K = ('int', 2 ** 31 - 1)
    out = []
    for src in (('len', _n(2)), ('int', 2 ** 31 - 1)):
        for op, rhs in (('+', K), ('*', K), ('**', ('int', 3)), ('<<', ('int', 62)), ('>>', ('int', 70)), ('/', ('int', 3))):
            out.append([('assign', 3, src), ('assign', 4, ('bin', op, _n(3), rhs)), ('ret', _n(4))])
            out.append([('assign', 3, src), ('aug', 3, op, rhs), ('ret', _n(3))])
            out.append([('assign', 3, src), ('assign', 4, ('bin', '*', ('bin', op, _n(3), rhs), ('bin', op, _n(3), rhs))), ('ret', _n(4))])
        out.append([('assign', 3, src), ('assign', 4, ('bin', '-', ('int', -2), _n(3))), ('ret', _n(4))])
        out.append([('assign', 3, src), ('assign', 4, ('bin', '*', _n(3), _n(3))), ('assign', 5, ('bin', '*', _n(4), _n(4))), ('ret', _n(5))])
        out.append([('assign', 3, src), ('assign', 4, ('un', '-', _n(3))), ('assign', 5, ('bin', '-', _n(4), ('int', 2))), ('ret', _n(5))])
        out.append([('assign', 3, src), ('assign', 4, ('abs', ('un', '-', _n(3)))), ('assign', 5, ('bin', '*', _n(4), K)), ('ret', _n(5))])
    return out


def compile_witnesses():
    """valid Python that only the build with inference rejects (one program per known message class)"""
    return [
        [('assign', 3, ('len', _n(1))), ('ret', ('idx', _n(3), ('int', 0)))],
        [('assign', 3, ('float', (1.5).hex())), ('ret', ('un', '~', _n(3)))],
        [('assign', 3, ('float', (1.5).hex())), ('ret', ('bin', '>>', _n(3), ('int', 1)))],
    ]


def tolist(x):
    """JSON round trip turns tuples into lists: programs are compared structurally after normalising"""
    if isinstance(x, (list, tuple)):
        return tuple(tolist(y) for y in x)
    return x


def replay(ctx, real, cfgn, flags, case):
    op = case.get("op")
    if op in ("dc", "build"):
        prog = tolist(case["prog"])
        prog = [p for p in prog]
        extra = {0: [case["args"]]} if case.get("args") else None
        dc_round(ctx, cfgn, [prog], "rep", 6, extra_inputs=extra)
    elif op == "infer":
        dpy_programs(ctx, real, cfgn, [list(tolist(case["prog"]))], "replay")
    elif op == "table":
        table_tie(ctx, real, cfgn)
    else:
        witnesses(ctx, real, cfgn, flags)


def run(ctx):
    import Cython.Compiler.TypeInference as TI
    assert TI.__file__.startswith(ctx.stage)
    ctx.rule = ("function bodies of the mini-language (assignments, augmented assignments, for-range/for-in, while, if, return over "
                "int/float/bool/str/None literals, names, 12 binary and 4 unary operators, comparisons, len/abs/indexing/opaque calls) "
                "generated from the seed; inputs drawn from boundary values (2**31, 2**63, big ints, floats incl. inf/nan, bools, None, "
                "strings, lists, objects with huge __len__). D-py case = one program (non-trivial: some local gets a non-object type); "
                "D-c case = (program, argument tuple) (non-trivial: the validator accepts the program, or the two builds differ); "
                "table case = one operand-type combination of a typing table")
    ctx.explanation = ("Proved: for every program, every typing G of its locals the validator `cleanS` accepts, all inputs and all "
                       "interpretations of float arithmetic, evaluation with C-typed locals equals evaluation with object locals "
                       "(clean_sound); marking and safe_spanning_type never give a C integer to a name used in overflowing arithmetic. "
                       "NOT covered by a theorem: that the real inferer's typing is always accepted by the validator (false on this tree: "
                       "counterexample theorems), programs the validator rejects, the evaluator's fidelity to generated C code "
                       "(differential only), constructs outside the mini-language, C arithmetic on C-typed sub-expressions that is the "
                       "same in both builds (len(a) << 62), compile-time rejections that only occur with inference.")
    ctx.assumptions = ["C double arithmetic (+ - * / // %) equals CPython float arithmetic (property C06)",
                       "float(int) succeeds for every int that fits a C long (FOps law used by clean_sound)"]
    ctx.extra_trusted = ["gcc -O0/-O2 behaviour on signed overflow is not assumed: such cases are `ub` in the model and only compared between the builds"]
    # shared, often heavily oversubscribed machine: stretch the build / run timeouts of cybuild with the load
    # (a timeout is an infrastructure outcome, never a verdict)
    import subprocess as _subprocess
    scale = max(1.0, min(12.0, os.getloadavg()[0] / max(1, os.cpu_count() or 1)))
    ctx.notes["timeout_scale"] = round(scale, 1)

    class _PatientSubprocess:
        def __getattr__(self, k):
            return getattr(_subprocess, k)

        def run(self, *a, **kw):
            if kw.get("timeout"):
                kw["timeout"] = kw["timeout"] * scale
            return _subprocess.run(*a, **kw)
    if scale > 1.0:
        cybuild.subprocess = _PatientSubprocess()
    real = RealInferer(ctx)
    cov = Coverage()
    try:
        cfgn, flags, fnotes = detect_cfg(ctx, real)
        ctx.notes["source_variant"] = {"cfg": cfgn, "flags": flags, "probe_notes": fnotes}
        if ctx.replay_case:
            replay(ctx, real, cfgn, flags, ctx.replay_case.get("case", ctx.replay_case))
            return
        import time
        t0 = time.time()
        table_tie(ctx, real, cfgn)
        t1 = time.time()
        witnesses(ctx, real, cfgn, flags)
        t2 = time.time()
        progs = gen_programs(ctx, ctx.n(300, 2000))
        bad = dpy_programs(ctx, real, cfgn, progs, "random")
        t3 = time.time()
        ctx.notes["phase_seconds"] = {"tables": round(t1 - t0, 1), "witnesses": round(t2 - t1, 1), "dpy": round(t3 - t2, 1)}
        n_dc = ctx.n(160, 800)
        # programs on which model and compiler disagree, and amplified variants of them, are searched harder
        # for an input on which the two builds differ
        focus = []
        for i in bad[:20]:
            focus.append(progs[i])
            focus.extend(amplify(progs[i]))
        focus.extend(marking_probes())
        focus.extend(compile_witnesses())
        # quick tier: the open-ended search for deviating programs uses a fixed generator seed, so that the set of
        # deviation classes met does not depend on VERIF_SEED; the thorough tier searches with the run's seed
        import random as _random
        dc_rng = _random.Random(40040) if ctx.quick else ctx.rng
        dprogs = focus + gen_programs(ctx, n_dc, rng=dc_rng)
        if bad or ctx.tie_breaks:
            ctx.budget_scale = max(ctx.budget_scale, 2.0)
        ndiff = dc_round(ctx, cfgn, dprogs, "dc", ctx.n(8, 10),
                         extra_inputs={i: BIG_INPUTS + G.gen_inputs(dc_rng, 12) for i in range(len(focus))}, rng=dc_rng)
        if not ctx.quick:
            dc_round_o2 = gen_programs(ctx, 160)
            # -O2 build of a further batch: undefined behaviour invisible at -O0 may show
            old = cybuild.build_module
            try:
                cybuild.build_module = lambda c, **kw: old(c, **dict(kw, opt="-O2"))
                ndiff += dc_round(ctx, cfgn, dc_round_o2, "dco2", 8)
            finally:
                cybuild.build_module = old
        ctx.notes["safe_vs_off_differences"] = ndiff
        ctx.notes["phase_seconds"]["dc"] = round(time.time() - t3, 1)
    finally:
        ctx.notes["line_coverage_TypeInference"] = cov.report()
        real.close()

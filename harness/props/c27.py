"""C27 — cpdef calls reach the most-derived override.

impl   = extension type with a cpdef method compiled by the staged compiler, built with
         CYTHON_USE_DICT_VERSIONS=0 (default on CPython 3.12) and =1 (default before 3.12: two-version static cache)
model  = CyVerif.C27.run
oracle = a pure-Python twin of the module executed by CPython (attribute lookup decides)
"""
import concurrent.futures as cf
import os

import cybuild

PYX = '''
cdef class A:
    cpdef str meth(self):
        return "A"
    def call_c(self):
        return self.meth()

cdef class AD(A):
    # static extension type whose instances own a dict: only tp_dictoffset != 0 sends it into the override check
    cdef dict __dict__

cdef class AE(AD):
    pass

cdef str c_call(A a):
    return a.meth()

def cc(A a):
    return c_call(a)
'''

TWIN = '''
class A:
    def meth(self):
        return "A"
    def call_c(self):
        return self.meth()

class AD(A):
    pass

class AE(AD):
    pass

def cc(a):
    return a.meth()
'''

COMMON = '''
def _mkf_c(v):
    return lambda self: str(v)
def _mkf_i(v):
    return lambda: str(v)
FC = [None] + [_mkf_c(v) for v in range(1, 10)]
FI = [None] + [_mkf_i(v) for v in range(1, 10)]

def run_hist(spec):
    """spec = 'bases0;bases1;...|icls0 icls1 ...|ops'  bases = comma list of earlier class indices or empty (= A)"""
    hier, insts, ops = spec.split("|")
    classes = []
    for k, b in enumerate(hier.split(";")):
        bases = tuple(classes[int(x)] for x in b.split(",") if x) or (A,)
        classes.append(type("C%d" % k, bases, {}))
    objs = [(AD() if x == "D" else AE() if x == "E" else classes[int(x)]()) for x in insts.split()]
    out = []
    for op in ops.split():
        p = op.split(":")
        if p[0] == "C":
            k, v = int(p[1]), int(p[2])
            if v:
                setattr(classes[k], "meth", FC[v]); out.append("-")
            else:
                try:
                    delattr(classes[k], "meth"); out.append("-")
                except AttributeError:
                    out.append("X")
        elif p[0] == "I":
            o, v = int(p[1]), int(p[2])
            if v:
                setattr(objs[o], "meth", FI[v]); out.append("-")
            else:
                try:
                    delattr(objs[o], "meth"); out.append("-")
                except AttributeError:
                    out.append("X")
        elif p[0] == "T":
            d = {}; d[1] = 2; out.append("-")
        elif p[0] == "X":
            o = objs[int(p[1])]
            out.append(cc(o) if int(p[1]) % 2 else o.call_c())
        elif p[0] == "P":
            out.append(objs[int(p[1])].meth())
    return ",".join(out)
'''


class _A0:
    pass


def gen_hierarchy(rng):
    """Returns (bases list, mro list) using Python's own C3 linearisation on a stand-in root."""
    while True:
        n = rng.choice([1, 2, 2, 3, 3, 4])
        bases = []
        classes = []
        try:
            for k in range(n):
                r = rng.random()
                if k == 0 or r < 0.25:
                    b = []
                elif r < 0.8:
                    b = [rng.randrange(k)]
                else:
                    b = sorted(rng.sample(range(k), min(k, 2)), reverse=True)
                classes.append(type("C%d" % k, tuple(classes[i] for i in b) or (_A0,), {}))
                bases.append(b)
        except TypeError:
            continue
        mros = [[classes.index(c) for c in cl.__mro__ if c in classes] for cl in classes]
        return bases, mros


def gen_case(rng, nops):
    bases, mros = gen_hierarchy(rng)
    n = len(bases)
    ninst = rng.choice([1, 2, 3])
    icls = [rng.randrange(n) for _ in range(ninst)]
    if rng.random() < 0.6:
        icls[0] = n - 1
    # instances of the static dict-owning extension types AD / AE(AD): model classes n and n+1 (never mutated at class level)
    if rng.random() < 0.35:
        icls.append(n if rng.random() < 0.5 else n + 1)
        ninst += 1
    mros = mros + [[n], [n + 1, n]]
    ops = []
    has_i = set()
    for _ in range(nops):
        r = rng.random()
        if r < 0.4:
            ops.append("X:%d" % rng.randrange(ninst))
        elif r < 0.5:
            ops.append("P:%d" % rng.randrange(ninst))
        elif r < 0.75:
            ops.append("C:%d:%d" % (rng.randrange(n), rng.choice([0, 0, 1, 2, 3])))     # Python classes only
        elif r < 0.93:
            # deleting an instance attribute that does not exist is not generated: on CPython 3.12 the failed
            # delattr changes what __Pyx_get_object_dict_version reads (lazily materialised instance dict), a spurious
            # cache invalidation the model does not track (it can only make the real code *more* up to date)
            o, v = rng.randrange(ninst), rng.choice([0, 0, 4, 5])
            if v == 0 and o not in has_i:
                v = 4
            if v:
                has_i.add(o)
            else:
                has_i.discard(o)
            ops.append("I:%d:%d" % (o, v))
        else:
            ops.append("T")
    return bases, mros, icls, ops


CORPUS = [
    # static extension type with __dict__ (AD) and its cdef subclass (AE): instance-level override must be honoured by C-level calls
    ([[]], [[0], [1], [2, 1]], [1, 2, 0], ["X:0", "X:1", "I:0:4", "X:0", "X:1", "I:1:5", "X:1", "P:1", "I:0:0", "X:0", "X:2"]),
    # F14 witness: class B(A), class C(B); c = C(); C-level call; B.meth = f; C-level call
    ([[], [0]], [[0], [1, 0]], [1], ["X:0", "X:0", "C:0:5", "X:0", "P:0", "C:0:0", "X:0"]),
    # leaf-class and instance overrides: cache must be invalidated
    ([[]], [[0]], [0, 0], ["X:0", "X:0", "C:0:7", "X:0", "X:1", "C:0:0", "X:0", "I:0:4", "X:0", "X:1", "I:0:0", "X:0", "X:1"]),
    # diamond
    ([[], [0], [0], [2, 1]], [[0], [1, 0], [2, 0], [3, 2, 1, 0]], [3, 1], ["X:0", "C:1:2", "X:0", "C:2:3", "X:0", "X:1", "C:2:0", "X:0", "C:3:1", "X:0"]),
]


def oracle_py(mros, icls, ops):
    """Independent plain-Python statement of attribute lookup (cross-check of the CPython leg)."""
    cattr, iattr, out = {}, {}, []
    for op in ops:
        p = op.split(":")
        if p[0] == "C":
            k, v = int(p[1]), int(p[2])
            if v:
                cattr[k] = v; out.append("-")
            else:
                out.append("-" if cattr.pop(k, None) is not None else "X")
        elif p[0] == "I":
            o, v = int(p[1]), int(p[2])
            if v:
                iattr[o] = v; out.append("-")
            else:
                out.append("-" if iattr.pop(o, None) is not None else "X")
        elif p[0] == "T":
            out.append("-")
        else:
            o = int(p[1])
            v = iattr.get(o)
            if v is None:
                for c in mros[icls[o]]:
                    if c in cattr:
                        v = cattr[c]
                        break
            out.append("A" if v is None else str(v))
    return out


def classify(mros, icls, ops, k, impl):
    """Is the mismatch at op k the listed finding (override on a strict ancestor missed by the cache)?"""
    cattr, iattr = {}, {}
    for op in ops[:k]:
        p = op.split(":")
        if p[0] == "C":
            if int(p[2]):
                cattr[int(p[1])] = int(p[2])
            else:
                cattr.pop(int(p[1]), None)
        elif p[0] == "I":
            if int(p[2]):
                iattr[int(p[1])] = int(p[2])
            else:
                iattr.pop(int(p[1]), None)
    p = ops[k].split(":")
    if p[0] != "X":
        return False
    o = int(p[1])
    c = icls[o]
    return impl == "A" and o not in iattr and c not in cattr and any(a in cattr for a in mros[c][1:])


def run_isolated(ctx, so, modname, specs):
    def one(spec):
        r = cybuild.run_cases(ctx, so, [("run_hist", "(%r,)" % spec)], modname=modname)[0]
        if r.startswith("ok str:"):
            return eval(r[len("ok str:"):])
        return None
    with cf.ThreadPoolExecutor(max_workers=16) as ex:
        return list(ex.map(one, specs))


def run(ctx):
    ctx.rule = ("random Python class hierarchies (1-4 classes, single/multiple inheritance, MRO by C3) over a cdef class with a cpdef method, "
                "1-3 instances, histories of 20-120 ops: set/delete override on a class, on an instance, unrelated dict mutation, C-level call "
                "(from a cdef function and from a def method), Python-level call; each history in a fresh process; case = one op; non-trivial = a call after a mutation")
    ctx.explanation = ("dispatch_eq_lookup_partial covers all hierarchies/histories in which mutated classes have no subclasses; dispatch_eq_lookup_nocache covers "
                       "everything for builds without the dict-version cache (default on CPython >= 3.12). No theorem covers: __getattr__/metaclass side effects during "
                       "the lookup (type_dict_guard), instances without __dict__ (__slots__), the Limited-API / no-type-slots guard variant, fused cpdef functions.")
    ctx.assumptions = ["dict version tags are globally unique and never wrap", "same function object stored again does not change a dict version"]
    configs = [0, 1]
    specs = [dict(name="c27mod", source=PYX + COMMON, ext=".pyx",
                  cflags=["-DCYTHON_USE_DICT_VERSIONS=%d" % uv, "-Wno-deprecated-declarations"]) for uv in configs]
    sos = cybuild.build_many(ctx, specs)
    tw = os.path.join(ctx.scratch, "c27twin.py")
    with open(tw, "w") as f:
        f.write(TWIN + COMMON)
    if getattr(ctx, "replay_case", None) and "ops" in ctx.replay_case.get("case", {}):
        c = ctx.replay_case["case"]
        cases = [(c["bases"], c["mros"], c["icls"], c["ops"])]
    else:
        cases = [tuple(c) for c in CORPUS]
        for _ in range(ctx.n(60, 1500)):
            cases.append(gen_case(ctx.rng, ctx.rng.choice([20, 50, 120])))
    def itok(bases, c):
        n = len(bases)
        return "D" if c == n else "E" if c == n + 1 else str(c)
    hspecs = [";".join(",".join(map(str, b)) for b in bases) + "|" + " ".join(itok(bases, c) for c in icls) + "|" + " ".join(ops)
              for bases, mros, icls, ops in cases]
    orac = run_isolated(ctx, tw, "c27twin", hspecs)
    for uv, so in zip(configs, sos):
        cfg = "dict_versions=%d" % uv
        if isinstance(so, cybuild.BuildError):
            ctx.tie_break("D-c build " + cfg, so.stage + ": " + so.log[-500:], {"config": cfg})
            continue
        mlines = ["C27 run %d %s | %s ; %s" % (uv, " ".join(".".join(map(str, m)) for m in mros), " ".join(map(str, icls)), " ".join(ops))
                  for bases, mros, icls, ops in cases]
        mouts = ctx.drv.batch(mlines)
        impl = run_isolated(ctx, so, "c27mod", hspecs)
        for (bases, mros, icls, ops), mo, io, oo in zip(cases, mouts, impl, orac):
            if not mo.startswith("ok "):
                raise RuntimeError("model rejected: " + mo)
            m = mo[3:].split(",")
            o = oo.split(",")
            if o != oracle_py(mros, icls, ops):
                raise RuntimeError("oracle legs disagree (machinery bug): %r" % ((bases, icls, ops),))
            rep = {"bases": bases, "mros": mros, "icls": icls, "config": cfg}
            if io is None or len(io.split(",")) != len(ops):
                ctx.violation("crash-" + cfg, "history crashed the compiled module", dict(rep, ops=ops))
                continue
            i = io.split(",")
            mutated = False
            for k, op in enumerate(ops):
                ctx.count(cfg + "/" + op[0])
                mutated = mutated or op[0] in "CI"
                ctx.seen((cfg, str(bases), tuple(icls), tuple(ops[:k + 1])), nontrivial=(op[0] in "XP" and mutated))
                if i[k] != o[k]:
                    if uv == 1 and classify(mros, icls, ops, k, i[k]):
                        key = "cpdef-cache-misses-override-on-intermediate-base-class"
                    else:
                        key = "dispatch-wrong-%s-%s" % (cfg, op[0])
                    ctx.violation(key, "%s: hierarchy bases=%r instances=%r after %r op %s ran %s, Python lookup selects %s"
                                  % (cfg, bases, icls, ops[max(0, k - 6):k], op, i[k], o[k]), dict(rep, ops=ops[:k + 1], impl=i[k], oracle=o[k]))
                    if key.startswith("dispatch-wrong"):
                        break
            for k, op in enumerate(ops):
                if m[k] != i[k]:
                    ctx.tie_break("D-c %s vs CyVerif.C27.run" % cfg, "op %d %s: model %s impl %s" % (k, op, m[k], i[k]), dict(rep, ops=ops[:k + 1]))
                    break
        ctx.sample({"config": cfg, "bases": cases[0][0], "icls": cases[0][2], "ops": cases[0][3], "impl": impl[0], "model": mouts[0], "oracle": orac[0]})

"""C18 — string formatting produces exactly CPython's text.

Tie of the Lean models (lean/CyVerif/Model/C18*.lean) to the working tree, three-way on every case
(implementation, model via cydrv, CPython as oracle):

* D-c raw: `__Pyx_PyUnicode_From_<type>(value, width, pad, fmt)` is called directly (cdef extern of the
  instantiated utility macro) for every C integer type x values x widths (negative, 0, small, >250) x
  both padding chars x d/o/x/X/c   -> model `cint`/`cchr`, oracle `format(v, spec)`.
* D-c f-strings: compiled `f"{v:SPEC}"`, `f"{v!r:SPEC}"` ... per C type and literal spec -> model `field`,
  oracle: CPython evaluating the same f-string on the Python int.
* D-py `_parse_format`, `_build_fstring` (in-process, staged source) on generated specs / templates ->
  models `parsefmt`, `build`; oracle for the rewrite: `template % args` in CPython against the rewritten
  pieces evaluated with CPython's own format().
* D-c `%`: compiled `"literal" % (args)` with object and C-typed arguments -> model `evalbuildx`, oracle `%`.
* G: the three digit tables are re-extracted from the staged TypeConversion.c and kernel-checked equal to
  the model's tables.
* differential only (no model): doubles, objects with __format__/__str__/__repr__, Py_UCS4, str()/repr()/
  format() calls, long joins.
Which repairs the current source has (6 independent switches) is measured from witness inputs; the models
are run with exactly these switches, so both the pinned and the repaired sources correspond to a proved model.
"""
import ast
import os
import re
import subprocess
import sysconfig

import cybuild
import lib


def enc(s):
    return "-" if not s else ".".join(str(ord(c)) for c in s)


def dec(t):
    return "" if t == "-" else "".join(chr(int(x)) for x in t.split("."))


def cap(s, n=160):
    s = str(s)
    return s if len(s) <= n else s[:n] + "…"


# appended to every harness module: run a whole list of cases inside the child with one call (a per-case
# round trip costs ~1 ms); a crash of the batch is re-run case by case by `run_many`
MANY_SRC = '''
import json as _c18_json
def c18_many(cases):
    out = []
    g = globals()
    for fn, args in cases:
        try:
            r = g[fn](*args)
            out.append("ok " + type(r).__name__ + ":" + repr(r))
        except BaseException as e:
            out.append("err " + type(e).__name__)
    return _c18_json.dumps(out)
'''


def run_many(ctx, so, cases, risky=None, chunk=25000, max_alone=8, max_bad=6):
    """cases: [(funcname, "python-args-tuple-source")] -> outcome strings as cybuild.run_cases gives them (None = not run).
    risky[i] = the model predicts undefined behaviour for case i: such cases run alone (a crash is an observation
    and must not take a batch down).  A batch that dies is bisected down to the killing cases; after `max_bad`
    of them the rest of the batch is given up (None): the killing inputs found are reported anyway."""
    import json
    res = [None] * len(cases)
    safe = [i for i in range(len(cases)) if not (risky and risky[i])]
    alone = [i for i in range(len(cases)) if risky and risky[i]]
    bad = [0]

    def batch(idx):
        part = [cases[i] for i in idx]
        src = "([" + ", ".join("(%r, %s)" % (fn, a) for fn, a in part) + "],)"
        o = cybuild.run_cases(ctx, so, [("c18_many", src)], timeout_per_case=120.0)[0]
        if o.startswith("ok str:"):
            try:
                got = json.loads(ast.literal_eval(o[7:]))
                if len(got) == len(part):
                    return got
            except (ValueError, SyntaxError):
                pass
        return None

    def solve(idx):
        if not idx or bad[0] >= max_bad:
            return
        got = batch(idx)
        if got is not None:
            for i, g in zip(idx, got):
                res[i] = g
            return
        if len(idx) <= 2:
            for i, g in zip(idx, cybuild.run_cases(ctx, so, [cases[i] for i in idx])):
                res[i] = g
                if not g.startswith(("ok ", "err ")):
                    bad[0] += 1
            return
        h = len(idx) // 2
        solve(idx[:h])
        solve(idx[h:])

    for j in range(0, len(safe), chunk):
        solve(safe[j:j + chunk])
    alone = alone[:max_alone]                           # each of them may cost a child restart
    if alone:
        for i, g in zip(alone, cybuild.run_cases(ctx, so, [cases[i] for i in alone])):
            res[i] = g
    return res


def par_run(ctx, jobs, workers=8):
    """jobs: [(so, cases, risky)] -> list of outcome lists; the child processes run side by side"""
    import concurrent.futures as cf
    with cf.ThreadPoolExecutor(max_workers=workers) as ex:
        return list(ex.map(lambda j: run_many(ctx, j[0], j[1], risky=j[2]), jobs))


C_DECLS = "typedef __int128 my_i128;\ntypedef unsigned __int128 my_u128;\n"

# key, Cython type, C type, cname suffix of __Pyx_PyUnicode_From_<…>, tier
TYPES = [
    ("char", "char", "char", "char", "q"),
    ("schar", "signed char", "signed char", "signed_char", "q"),
    ("uchar", "unsigned char", "unsigned char", "unsigned_char", "q"),
    ("short", "short", "short", "short", "q"),
    ("ushort", "unsigned short", "unsigned short", "unsigned_short", "q"),
    ("int", "int", "int", "int", "q"),
    ("uint", "unsigned int", "unsigned int", "unsigned_int", "q"),
    ("long", "long", "long", "long", "q"),
    ("ulong", "unsigned long", "unsigned long", "unsigned_long", "q"),
    ("longlong", "long long", "long long", "PY_LONG_LONG", "q"),
    ("ulonglong", "unsigned long long", "unsigned long long", "unsigned_PY_LONG_LONG", "q"),
    ("ssize_t", "Py_ssize_t", "Py_ssize_t", "Py_ssize_t", "q"),
    ("size_t", "size_t", "size_t", "size_t", "q"),
    ("i128", "my_i128", "my_i128", "my_i128", "q"),
    ("u128", "my_u128", "my_u128", "my_u128", "q"),
]


def probe(ctx):
    """sizeof / signedness of every type and of `int`, from gcc (independent of Cython)."""
    d = os.path.join(ctx.scratch, "probe18")
    os.makedirs(d, exist_ok=True)
    src = "#include <Python.h>\n#include <stdio.h>\n#include <stddef.h>\n" + C_DECLS
    src += "#define P(n, T) printf(\"%s %zu %d\\n\", n, sizeof(T), (((T)-1) < ((T)0)) ? 1 : 0);\nint main(void) {\n"
    for key, _, ct, _, _ in TYPES:
        src += " P(\"%s\", %s)\n" % (key, ct)
    src += " P(\"_cint\", int)\n return 0; }\n"
    with open(os.path.join(d, "probe.c"), "w") as f:
        f.write(src)
    p = subprocess.run(["gcc", "-w", "-I" + sysconfig.get_paths()["include"], "probe.c", "-o", "probe"], cwd=d,
                       stdout=subprocess.PIPE, stderr=subprocess.STDOUT, text=True)
    if p.returncode != 0:
        raise lib.Infra("C18 platform probe does not compile: " + p.stdout[-400:])
    out = subprocess.run([os.path.join(d, "probe")], stdout=subprocess.PIPE, text=True).stdout
    info = {}
    for line in out.strip().split("\n"):
        n, a, b = line.split()
        info[n] = (int(a), int(b))
    if info["_cint"] != (4, 1):
        raise lib.Infra("C18 model assumes a 32-bit int; probe says %r" % (info["_cint"],))
    return info


def type_range(info, key):
    n, sg = info[key]
    return (-(1 << (8 * n - 1)), (1 << (8 * n - 1)) - 1) if sg else (0, (1 << (8 * n)) - 1)


# ---------------------------------------------------------------------------------------------------------------
# G: digit tables of the staged source

def extract_tables(ctx):
    path = os.path.join(ctx.stage, "Cython", "Utility", "TypeConversion.c")
    txt = open(path).read()
    res = {}
    for name in ("DIGIT_PAIRS_10", "DIGIT_PAIRS_8", "DIGITS_HEX"):
        m = re.search(r"static const char %s\[[^\]]*\]\s*=\s*\{(.*?)\};" % name, txt, re.S)
        if not m:
            return None
        parts = re.findall(r'"([^"\\]*)"', m.group(1))
        res[name] = "".join(parts)
    return res


def table_obligation(ctx):
    tabs = extract_tables(ctx)
    if tabs is None:
        ctx.obligation("digit tables extracted from TypeConversion.c", False, "translator could not find the three tables")
        return
    src = "import CyVerif.Model.C18Base\nopen CyVerif.C18\nset_option maxRecDepth 100000\n"
    for name, text in tabs.items():
        if not all(32 <= ord(c) < 127 and c not in "'\\" for c in text) or len(text) > 400:
            ctx.obligation("digit table %s is plain ASCII" % name, False, cap(text))
            return
        lit = "[" + ", ".join("'%s'" % c for c in text) + "]"
        src += "example : %s = %s := by rfl\n" % (name, lit)
    ctx.notes["tables"] = {k: cap(v, 40) for k, v in tabs.items()}
    ctx.lean_obligation("staged DIGIT_PAIRS_10 / DIGIT_PAIRS_8 / DIGITS_HEX = model tables", src,
                        "the tables the theorems are about are the tables of the current source")


# ---------------------------------------------------------------------------------------------------------------
# values

def int_values(rng, lo, hi, nrand):
    vals = {lo, lo + 1, hi, hi - 1, 0, 1, -1, 2, 7, 8, 9, 10, 11, 15, 16, 17, 63, 64, 65, 99, 100, 101, 127, 128,
            255, 256, -9, -10, -99, -100, -128, -255}
    for base in (8, 10, 16, 64, 100):
        p = base
        while p <= hi + 1:
            vals.update((p - 1, p, p + 1, -(p - 1), -p, -(p + 1)))
            p *= base
    bits = max(abs(lo), hi).bit_length()
    for _ in range(nrand):
        b = rng.randint(1, bits)
        vals.add(rng.randrange(-(1 << b), 1 << b))
    return sorted(v for v in vals if lo <= v <= hi)


ORD_VALUES = [0, 1, 0x20, 0x30, 0x41, 0x7f, 0x80, 0xe9, 0xff, 0x100, 0x7ff, 0x800, 0x20ac, 0xd7ff, 0xd800, 0xdbff,
              0xdfff, 0xe000, 0xffff, 0x10000, 0x1f600, 0x10ffff, 0x110000, 0x1fffff, 0x200000, 0x200041,
              2 ** 31 - 1, 2 ** 31, 2 ** 32 - 1, 2 ** 32, 2 ** 32 + 65, 2 ** 32 + 0x20ac, 2 ** 63 - 1, 2 ** 64 - 1,
              -1, -2, -128, -2 ** 31, -2 ** 63]
WIDTHS = [-7, -1, 0, 1, 2, 3, 4, 5, 6, 9, 10, 11, 20, 21, 22, 23, 40, 64, 250, 251, 252, 253, 300, 1000]


def py_spec(pad, w, fmt):
    return ("0" if pad == "0" else "") + (str(w) if w > 0 else "") + fmt


def oracle_format(v, spec):
    try:
        return "ok str:" + repr(format(v, spec))
    except Exception as e:        # noqa: the exception type is the observation
        return "err " + type(e).__name__


def canon_model(o):
    if o.startswith("ok "):
        try:
            return "ok str:" + repr(dec(o[3:]))
        except ValueError:
            return o
    return o


def raw_cases(ctx, info, keys):
    """[(key, v, w, pad, fmt)] — boundary cases first, then seeded random ones."""
    rng = ctx.rng
    cases = []
    # corpus first: witnesses of the findings and boundary cases of the proofs
    try:
        import json
        corpus = json.load(open(os.path.join(os.path.dirname(os.path.dirname(os.path.dirname(os.path.abspath(__file__)))),
                                             "corpus", "C18", "witnesses.json")))
        for c in corpus.get("raw", []):
            lo, hi = type_range(info, c["type"]) if c["type"] in info else (0, -1)
            if c["type"] in keys and lo <= c["v"] <= hi:
                cases.append((c["type"], c["v"], c["w"], c["pad"], c["fmt"]))
    except (OSError, ValueError, KeyError):
        pass
    for key in keys:
        lo, hi = type_range(info, key)
        vals = int_values(rng, lo, hi, ctx.n(40, 400))
        for v in vals:
            nd = len(str(abs(v)))
            # (the model's unicode buffer is a list: cost grows with width^2, so wide fields are sampled sparsely)
            ws = {0, nd, nd + 1, nd + 2, rng.choice(WIDTHS[:16]), rng.choice(WIDTHS if rng.random() < 0.04 else WIDTHS[:16])}
            for fmt in "doxX":
                for pad in " 0":
                    for w in (sorted(ws) if v in (lo, hi, 0, -1, 1) else rng.sample(sorted(ws), 2)):
                        cases.append((key, v, w, pad, fmt))
        ovals = [v for v in ORD_VALUES if lo <= v <= hi] + [rng.randint(max(lo, 0), min(hi, 0x120000)) for _ in range(ctx.n(10, 100))]
        for v in ovals:
            for pad in " 0":
                for w in (0, 1, 2, 5, rng.choice((250, 251, 252, 253, 300)), rng.choice(WIDTHS[:16])):
                    cases.append((key, v, w, pad, "c"))
    return cases


def raw_module_source(keys):
    src = 'cdef extern from *:\n    """\n' + "".join("    " + l + "\n" for l in C_DECLS.strip().split("\n")) + '    """\n'
    src += "    ctypedef long long my_i128\n    ctypedef unsigned long long my_u128\n"
    by = {t[0]: t for t in TYPES}
    for key in keys:
        _, cy, _, cname, _ = by[key]
        src += '    object raw_%s "__Pyx_PyUnicode_From_%s"(%s, Py_ssize_t, char, char)\n' % (key, cname, cy)
    for key in keys:
        _, cy, _, cname, _ = by[key]
        src += "def seed_%s(%s v): return f\"{v:d}\"\n" % (key, cy)
        src += "def r_%s(%s v, Py_ssize_t w, int pad, int fmt): return raw_%s(v, w, <char>pad, <char>fmt)\n" % (key, cy, key)
    return src + MANY_SRC


# ---------------------------------------------------------------------------------------------------------------
# f-string fields on C integer variables

FIELD_SPECS = [
    ("", ""), ("", "d"), ("", "5d"), ("", "05d"), ("", "x"), ("", "08X"), ("", "o"), ("", "X"), ("", "3o"),
    ("", "012o"), ("", "40d"), ("", "040x"), ("", "c"), ("", "5c"), ("", "05c"), ("", "2c"), ("", "255c"), ("", "300c"),
    ("", ">5"), ("", ">5d"), ("", ">05d"), ("", ">012x"), ("", ">7x"), ("", ">3c"), ("", ">03c"), ("", "-5d"), ("", "-05d"),
    ("", "-x"), ("", "-5c"), ("", "-c"), ("", "5"), ("", "05"), ("", "010"), ("", "0"), ("", "00"), ("", "007"), ("", "<5d"),
    ("", "^7d"), ("", "=7d"), ("", "+d"), ("", " d"), ("", "#x"), ("", "#010b"), ("", "b"), ("", ",d"), ("", "_x"), ("", "n"),
    ("", "e"), ("", ".2f"), ("", "%"), ("", "s"), ("", "5.2d"), ("", "*>6d"), ("", "0>6d"), ("", "z5d"),
    ("r", ""), ("s", ""), ("a", ""), ("s", ">7"), ("r", "5"), ("s", "5"), ("r", "x"), ("a", "05"), ("r", ">5"),
    ("s", "<5"), ("r", "^6"), ("s", ".2"), ("r", "d"), ("s", "c"), ("a", ">05"),
]


def field_expr(conv, spec):
    return 'f"{v%s%s}"' % ("!" + conv if conv else "", ":" + spec if spec else "")


def field_module_source(key, cy, specs):
    src = 'cdef extern from *:\n    """\n' + "".join("    " + l + "\n" for l in C_DECLS.strip().split("\n")) + '    """\n'
    src += "    ctypedef long long my_i128\n    ctypedef unsigned long long my_u128\n"
    for k, (conv, spec) in enumerate(specs):
        src += "def f_%d(%s v): return %s\n" % (k, cy, field_expr(conv, spec))
    # joins (>= 3 parts go through __Pyx_PyUnicode_Join): literal kinds x padded 'c' x repeated values x object parts
    for k, body in enumerate(JOIN_BODIES):
        src += "def j_%d(%s v, s): return %s\n" % (k, cy, body)
    return src + MANY_SRC


JOIN_BODIES = [
    'f"a{v:5c}b"', 'f"a{v:c}b"', 'f"a{v:05c}b"', 'f"\\xe9{v:3c}\\xe9"', 'f"\\u20ac{v:3c}!"', 'f"a{v:5c}b{s}"',
    'f"{s}{v:c}{s}{v}"', 'f"\\xe9{v:d}{s}"', 'f"{v}{v}{v:x}{v}"', 'f"<{v:d}|{v:5d}|{v:05d}|{v:x}|{v:08X}|{v:o}>"',
    'f"{v!r}-{v!s:>7}-{s!r}-{s!s:>7}-{s!a}"', 'f"{s}{s}{s}"', 'f"{v:2c}{v:2c}{v:2c}"',
    'f"' + "".join("{v:d}," for _ in range(17)) + "".join("{s}." for _ in range(17)) + '"',
]

# pieces of each join body: ("L", text) | ("F", conv, spec) C field on v | ("S", conv, spec) object field on s
def _join_pieces(body):
    txt = ast.literal_eval(body[1:])            # the f-string body as a plain literal (escapes resolved)
    out = []
    for m in re.finditer(r"\{(v|s)(?:!(\w))?(?::([^}]*))?\}|([^{}]+)", txt):
        if m.group(4) is not None:
            out.append(("L", m.group(4)))
        else:
            out.append(("F" if m.group(1) == "v" else "S", m.group(2) or "", m.group(3) or ""))
    return out


JOIN_PIECES = [_join_pieces(b) for b in JOIN_BODIES]
JOIN_STRS = ["", "x", "\xe9t\xe9", "€", "\U0001f600!", "plain ascii"]


# ---------------------------------------------------------------------------------------------------------------
# '%' templates

HELPERS = '''
class BadStr:
    def __str__(self): raise KeyError("str")
    def __repr__(self): return "<BadStr>"
class BadRepr:
    def __repr__(self): raise LookupError("repr")
    def __str__(self): return "badrepr-str"
class BadFormat:
    def __format__(self, spec): raise ArithmeticError(spec)
    def __str__(self): return "badformat-str"
    def __repr__(self): return "badformat-repr"
class TagFormat:
    def __format__(self, spec): return "<" + spec + ">"
    def __str__(self): return "tag-str"
    def __repr__(self): return "tag-repr"
class NonStrFormat:
    def __format__(self, spec): return 42
    def __repr__(self): return "nonstr-repr"
class IntSub(int):
    def __str__(self): return "intsub-str"
    def __repr__(self): return "intsub-repr"
class Idx:
    def __index__(self): return 77
    def __repr__(self): return "idx-repr"
class StrSub(str):
    def __format__(self, spec): return "strsub[" + spec + "]"
def _verif_env():
    return dict(BadStr=BadStr, BadRepr=BadRepr, BadFormat=BadFormat, TagFormat=TagFormat, NonStrFormat=NonStrFormat,
                IntSub=IntSub, Idx=Idx, StrSub=StrSub)
'''

CURATED_TEMPLATES = [
    ("%d %5d %05d %x %X %o %s %r %c %%", 9), ("%d", 1), ("%5d|%-5d|%05d|%-05d|%0-5d", 5), ("%s|%5s|%-5s|%05s|%005s|%-05s", 6),
    ("%r|%5r|%-7r|%a|%6a", 5), ("%x|%5x|%-5x|%05x|%X|%08X|%o|%5o", 8), ("%.3s|%5.3s|%-5.1s|%.0s", 4), ("100%% of %s", 1),
    ("% d|% s|% x", 3), ("%+d", 1), ("%#x", 1), ("%i %u", 2), ("%c", 1), ("%5.2f|%f|%e|%g|%-8.3f|%05.1f", 6), ("%5.3d", 1),
    ("%(a)s", 1), ("abc%", 0), ("ab%\ncd%d", 1), ("%\nd", 1), ("%5-d", 1), ("%--5d", 1), ("%0d|%0s|%-d|%-s", 4),
    ("%ld %hd", 2), ("%5%", 0), ("%s%s%s", 3), ("%d%%%d", 2), ("", 0), ("no directives", 0), ("%s", 1), ("%10s|%-10s|", 2),
    ("\u20ac%s\xe9%d\U0001f600%r", 3), ("%s %s", 1), ("%s", 2), ("%q", 1), ("%100d", 1), ("%-100s|", 1), ("%00d %000005x", 2),
    ("%0-0-5d|%-0-07s", 2), ("%.2s%.2r%.2a", 3), ("%d %s %r %a %x %o %X %f", 8),
]


def gen_templates(rng, n):
    flags = ["", "", "", "-", "0", " ", "-0", "0-", "00", "--", "-00", "+", "#", "0 ", "000"]
    widths = ["", "", "1", "3", "5", "10", "12", "0"]
    precs = ["", "", "", ".0", ".2", ".5"]
    convs = "sssrrradddoxXxXfegciu%q"
    lits = ["", "", " ", "a", "|", "x=", "\xe9", "\u20ac", "-", "5", ".", "\n", "%%", "%%%%"]
    out = []
    for _ in range(n):
        k = rng.randint(1, 4)
        t = rng.choice(lits)
        nargs = 0
        for _ in range(k):
            c = rng.choice(convs)
            fl = rng.choice(flags)
            if fl == " " and rng.random() < 0.7:
                t += "% " + c                         # the only shape the regex accepts with a space flag
            else:
                t += "%" + fl + rng.choice(widths) + rng.choice(precs) + c
            nargs += 1
            t += rng.choice(lits)
        if rng.random() < 0.04:
            t += "%"
        if rng.random() < 0.06:
            nargs += rng.choice((-1, 1))
        out.append((t, max(nargs, 0)))
    return out


PCT_OBJ_VALUES = ["0", "5", "-5", "42", "-42", "255", "-255", "65", "10**12", "-10**12", "2**70", "True", "''", "'a'", "'ab'",
                  "'h\\u20acllo'", "\"q'\\n\"", "1.5", "-0.0", "1e300", "inf", "nan", "None", "BadStr()", "BadRepr()",
                  "BadFormat()", "TagFormat()", "NonStrFormat()", "IntSub(9)", "Idx()", "StrSub('z')", "(1, 2)", "b'by'"]
PCT_INT_VALUES = [0, 5, -5, 42, -42, 255, -255, 65, 2 ** 31 - 1, -2 ** 31, 1000000]
CTYPES_FOR_PCT = [("int", 4, 1), ("long", 8, 1)]


def pct_module_source(templates):
    src = HELPERS + "\n"
    for k, (t, n) in enumerate(templates):
        names = ["a%d" % i for i in range(n)]
        tup = "(" + "".join(x + ", " for x in names) + ")"
        src += "def p_%d(%s): return %r %% %s\n" % (k, ", ".join(names), t, tup)
        typed = ", ".join("%s a%d" % (CTYPES_FOR_PCT[i % 2][0], i) for i in range(n))
        if n:
            src += "def pc_%d(%s): return %r %% %s\n" % (k, typed, t, tup)
    return src + MANY_SRC


def obj_token(v):
    """model token of a Python value, or None if the value is outside the modelled classes"""
    def ok(t):
        return not any(0xD800 <= ord(c) <= 0xDFFF for c in t)
    if type(v) is int:
        return "i:%d" % v
    if type(v) is str:
        return "s:%s:%s:%s" % (enc(v), enc(repr(v)), enc(ascii(v))) if ok(v) else None
    try:                                   # any other object: known to the model through str/repr/ascii only
        t = (str(v), repr(v), ascii(v))
    except Exception:                      # noqa
        return None
    if not all(type(x) is str and ok(x) for x in t):
        return None
    return "o:%s:%s:%s" % tuple(enc(x) for x in t)


# ---------------------------------------------------------------------------------------------------------------
# in-process access to the staged compiler (I-py)

class Staged:
    def __init__(self, ctx):
        from Cython.Compiler import ExprNodes, Optimize, PyrexTypes
        import Cython.Compiler.Code as Code
        if not Code.__file__.startswith(ctx.stage):
            raise lib.Infra("Cython.Compiler.Code was not imported from the staged tree")
        self.ExprNodes, self.Optimize, self.PyrexTypes = ExprNodes, Optimize, PyrexTypes
        Optimize.warning = lambda *a, **k: None
        self.cf = Optimize.ConstantFolding()
        self.cf.visit_JoinedStrNode = lambda node: node         # keep the raw piece list
        self.pos = ("c18.pyx", 1, 0)
        self.regex = Optimize.ConstantFolding._parse_string_format_regex
        # line coverage of the two modelled Python functions (sys.monitoring, 3.12+)
        import sys
        self._codes = {"CIntLike._parse_format": PyrexTypes.CIntLike._parse_format.__code__,
                       "ConstantFolding._build_fstring": Optimize.ConstantFolding._build_fstring.__code__}
        self._hit = {k: set() for k in self._codes}
        self._mon = getattr(sys, "monitoring", None)
        if self._mon is not None:
            try:
                self._mon.use_tool_id(3, "c18cov")
                by_code = {c: k for k, c in self._codes.items()}

                def on_line(code, line):
                    k = by_code.get(code)
                    if k is not None:
                        self._hit[k].add(line)
                    return self._mon.DISABLE if k is None else None
                self._mon.register_callback(3, self._mon.events.LINE, on_line)
                for c in self._codes.values():
                    self._mon.set_local_events(3, c, self._mon.events.LINE)
            except ValueError:
                self._mon = None

    def coverage(self):
        import dis
        out = {}
        for k, c in self._codes.items():
            lines = {ln for _, ln in dis.findlinestarts(c) if ln is not None and ln != c.co_firstlineno}
            miss = sorted(lines - self._hit[k])
            out[k] = {"executed": len(lines & self._hit[k]), "total": len(lines), "missed_lines": miss[:20]}
        if self._mon is not None:
            try:
                self._mon.free_tool_id(3)
            except ValueError:
                pass
        return out

    def parse_format(self, spec):
        ft, w, pad = self.PyrexTypes.CIntLike._parse_format(spec)
        return "ok none" if ft is None else "ok %s %d %s" % (ft, w, "z" if pad == "0" else "s")

    def build(self, tmpl, starred):
        """-> ('ok none' | 'ok <pieces>', [python pieces])"""
        E = self.ExprNodes
        args = []
        for i, st in enumerate(starred):
            n = E.NameNode(self.pos, name="a%d" % i)
            if st:
                n = E.StarredUnpackingNode(self.pos, n)
            args.append(n)
        r = self.cf._build_fstring(self.pos, tmpl, args)
        if r is None:
            return "ok none", None
        out, pieces = [], []
        for v in r.values:
            if isinstance(v, E.UnicodeNode):
                out.append("L:" + enc(v.value))
                pieces.append(("L", str(v.value)))
            else:
                idx = int(v.value.name[1:])
                spec = str(v.format_spec.value) if v.format_spec is not None else ""
                out.append("F:%d:%s:%s" % (idx, v.conversion_char or "-", enc(spec)))
                pieces.append(("F", idx, v.conversion_char, spec))
        return "ok " + ("|".join(out) if out else "empty"), pieces


def eval_pieces_py(pieces, args):
    """What the rewritten f-string computes, evaluated by CPython (generic object path)."""
    out = []
    for p in pieces:
        if p[0] == "L":
            out.append(p[1])
        else:
            _, idx, conv, spec = p
            v = args[idx]
            if conv == "s":
                v = str(v)
            elif conv == "r":
                v = repr(v)
            elif conv == "a":
                v = ascii(v)
            elif conv == "d":             # __Pyx_PyNumber_Long on the modelled classes
                if isinstance(v, float):
                    v = int(v)
                elif not isinstance(v, int):
                    raise TypeError("an integer is required")
            out.append(format(v, spec))
    return "".join(out)


def outcome(fn):
    try:
        return "ok str:" + repr(fn())
    except Exception as e:      # noqa
        return "err " + type(e).__name__


# ---------------------------------------------------------------------------------------------------------------
# known-defect classes (keys of known_findings.txt); used only when the model reproduces the implementation

def pct_directives(t):
    """directives of a template in CPython's own grammar: [(flags, width, prec, conv)]"""
    return [(m.group(1), m.group(2), m.group(3), m.group(4))
            for m in re.finditer(r"%([-+ #0]*)(\*|[0-9]*)((?:\.(?:\*|[0-9]*))?)[hlL]?(.|\n|$)", t.replace("%%", "\0\0"))]


def classify_pct(t, args, bv_flags, bv_strict):
    ds = pct_directives(t)
    keys = []
    for i, (fl, w, pr, c) in enumerate(ds):
        a = args[i] if i < len(args) else None
        if c in "oxX" and i < len(args) and not isinstance(a, int):
            keys.append("percent-x-non-int-exception-type")
        if c in "feEgG" and i < len(args) and not isinstance(a, (int, float)):
            keys.append("percent-f-non-number-exception-type")
        if not bv_flags:
            if c in "sra" and w and "-" not in fl:
                keys.append("percent-str-width-right-align")
            if "-" in fl and "0" in fl:
                keys.append("percent-minus-zero-flags")
            if c in "sra" and fl.count("0") >= 2:
                keys.append("percent-str-repeated-zero-flag")
            if c in "sra" and " " in fl:
                keys.append("percent-str-space-flag")
            if c in "sra" and fl.count("-") >= 2:
                keys.append("percent-str-repeated-minus-flag")
            if "-" in fl and not fl.startswith("-"):
                keys.append("percent-flag-order")
        if c in "sra" and isinstance(a, int) and not isinstance(a, bool) and "-" not in fl and w and not bv_flags:
            keys.append("percent-str-width-right-align")
    if not bv_flags and re.search(r"%[-0-9]*[0-9]-", t.replace("%%", "")):
        keys.append("percent-minus-after-width")
    if not bv_strict and re.search(r"%(\n|$)", t.replace("%%", "")):
        keys.append("percent-unmatched-percent-in-text")
    return keys[0] if keys else None


def classify_field(conv, spec, v, mapped, sv):
    rej_sign_c, rej_gt0, ord_fixed, conv_aware = sv
    if mapped and conv in ("s", "r", "a") and spec and not conv_aware:
        return "cfield-conversion-char-ignored"
    if mapped and spec.startswith(">0") and not rej_gt0:
        return "cfield-gt-zero-sign-position"
    if mapped and spec.startswith("-") and spec.endswith("c") and not rej_sign_c:
        return "cfield-sign-with-c-accepted"
    if mapped and spec.endswith("c") and v >= 2 ** 21 and not ord_fixed:
        return "cfield-c-range-check"
    return None


# ---------------------------------------------------------------------------------------------------------------

FIELD_VALUES = [0, 1, -1, 9, 10, 99, 100, -9, -10, -99, -100, 42, -42, 65, 127, 128, 255, 256, 0x20ac, 0xd800, 0x10ffff,
                0x110000, 2 ** 21 - 1, 2 ** 21, 2 ** 31 - 1, -2 ** 31, 2 ** 32 + 65, 2 ** 63 - 1, -2 ** 63, 2 ** 64 - 1]
QUICK_FIELD_KEYS = ["uchar", "int", "long", "i128"]


def _tick(ctx, name):
    import time
    t = time.time()
    ctx.notes.setdefault("timing_s", {})[name] = round(t - getattr(ctx, "_c18_t", ctx._t0), 1)
    ctx._c18_t = t


def bits(*bs):
    return "".join("1" if b else "0" for b in bs)


def run(ctx):
    ctx.rule = ("raw: (C type, value, width, pad, fmt) with values = type bounds, 0, +-1, neighbours of powers of 8/10/16/64/100, "
                "seeded random by bit length; widths -7..1000 incl. digit count +-1 and 250..253; both pads; d/o/x/X/c. "
                "fields: 70 (conversion, literal spec) pairs x C types x 30 boundary values. '%': curated + grammar-generated "
                "templates x argument tuples of ints/strs/floats/objects, object- and C-typed. I-py: all specs/templates of "
                "length <= 3/4 over small alphabets + seeded random ones. non-trivial = the case reaches the modelled code "
                "(C fast path / rewrite happened / spec mapped); distinct by full input")
    ctx.explanation = ("Theorems cover: CIntToPyUnicode+BuildFromAscii = format(v,'[0][width]{d,o,x,X}') for every sizeof/"
                       "signedness/value/width/pad with all buffer accesses in bounds (full); the 'c' path incl. the UTF-8 "
                       "ladder through a strict decoder (full for the repaired range check, partial + counterexample for the "
                       "pinned one); which literal specs reach the C path and that CPython's format-spec parser gives them the "
                       "same meaning (general theorem over the repair switches; full when repaired); conversion chars on C "
                       "fields; __Pyx_PyUnicode_Join with the compiler's length/kind bookkeeping; one %-directive of the "
                       "repaired rewrite = CPython's % for ints/strs/other objects (except %o/%x/%X of a str). NOT covered by a "
                       "theorem (differential only): the composition of a whole %-template (regex tokenizer vs CPython's "
                       "scanner, argument counting), doubles (PyOS_double_to_string on both sides), objects with user "
                       "__format__/__str__/__repr__, Py_UCS4/Py_UNICODE/bint values, str()/repr()/format() calls and run-time "
                       "specs (CPython itself), grouping options, 'n' and float presentation types of ints (generic path = "
                       "CPython), non-ASCII digits in specs, '*' widths, %c, %i/%u and float directives of '%', the non-CPython "
                       "#else branches of BuildFromAscii/Join.")
    ctx.assumptions = ["LP64-style platform facts measured by a gcc probe: int is 32 bits, (int) of a wider value wraps (gcc)",
                       "CPython 3.12 format()/% semantics as modelled in C18Py/C18Percent (tied to CPython on every run)"]
    info = probe(ctx)
    ctx.notes["platform"] = {k: list(v) for k, v in info.items()}
    table_obligation(ctx)
    st = Staged(ctx)
    rp = ctx.replay_case.get("case") if getattr(ctx, "replay_case", None) else None

    # ---- switches measured on the staged Python source
    rej_gt0 = st.parse_format(">05d") == "ok none"
    rej_sign_c = st.parse_format("-5c") == "ok none"
    o5s, _ = st.build("%5s", [False])
    bv_flags = o5s == "ok F:0:s:" + enc(">5")
    o_nl, _ = st.build("a%\nb%d", [False])
    bv_strict = o_nl == "ok none"
    pv = bits(rej_sign_c, rej_gt0)
    bv = bits(bv_flags, bv_strict)

    _tick(ctx, "setup")
    ipy_parse_format(ctx, st, pv, rp)
    _tick(ctx, "ipy_parse_format")
    ipy_build(ctx, st, bv, bv_flags, bv_strict, rp)
    _tick(ctx, "ipy_build")
    ctx.notes["line_coverage_python"] = st.coverage()
    compiled_part(ctx, st, info, (rej_sign_c, rej_gt0), bv, bv_flags, bv_strict, rp)


def ipy_parse_format(ctx, st, pv, rp):
    """`_parse_format` (staged source, in-process) vs model `parsefmt`; oracle: format(v, spec) in CPython must equal
    format(v, canonical spec of the mapped triple)."""
    import itertools
    rng = ctx.rng
    specs = {"", "d", "5d", "05d", "x", "08X", "o", "c", "5c", "05c", ">5", ">05d", "-5d", "-05d", "-5c", ">-5d", "->5d",
             "0", "00", "005", "1073741824", "1073741825d", "99999999999999999999d", "٥", "0٥d", "5²", "²", "५d"}
    if rp and rp.get("kind") == "parsefmt":
        specs = {rp["spec"]}
    else:
        for n in range(1, 4):
            for t in itertools.product("<>-0 5dcxs.+#,_=^a1", repeat=n):
                specs.add("".join(t))
        alph = "<>=^ +-z#0123456789,_.bcdoxXsneEfg%a5"
        for _ in range(ctx.n(20000, 200000)):
            specs.add("".join(rng.choice(alph) for _ in range(rng.randint(1, 8))))
    specs = sorted(specs)
    mout = ctx.drv.batch(["C18 parsefmt %s %s" % (pv, enc(sp)) for sp in specs])
    ints = [0, 7, -7, 42, -42, 255, -255, 65, 0x10ffff, 0x110000, 10 ** 20, -10 ** 20, 8364]
    for sp, mo in zip(specs, mout):
        io = st.parse_format(sp)
        mapped = io != "ok none"
        ctx.count("parsefmt/" + ("mapped" if mapped else "refused"))
        ctx.seen(("parsefmt", sp), nontrivial=mapped)
        if mo != "unmodelled" and mo != io:
            ctx.tie_break("D-py CIntLike._parse_format vs CyVerif.C18.parseFormat", "spec %r: model %s impl %s" % (cap(sp, 40), mo, io),
                          {"kind": "parsefmt", "spec": sp})
        if mapped:
            _, ft, w, pad = io.split()
            if int(w) > 2 ** 30 or int(w) > 5000:
                continue                                   # can_coerce_to_pystring refuses / too large to render here
            canon = py_spec("0" if pad == "z" else " ", int(w), ft)
            for v in ints:
                a, b = oracle_format(v, sp), oracle_format(v, canon)
                ctx.count()
                if a != b:
                    key = classify_field("", sp, v, True, (pv[0] == "1", pv[1] == "1", True, True)) or "parse-format-meaning-unclassified"
                    ctx.violation(key, "_parse_format(%r) = %s but format(%d, %r) = %s while format(%d, %r) = %s"
                                  % (cap(sp, 40), io[3:], v, cap(sp, 40), cap(a, 60), v, canon, cap(b, 60)),
                                  {"kind": "parsefmt", "spec": sp, "value": v})
                    break
    ctx.sample({"op": "parsefmt", "spec": ">05d", "impl": st.parse_format(">05d")})


def ipy_build(ctx, st, bv, bv_flags, bv_strict, rp):
    """`_build_fstring` (staged source, in-process) vs model `build`; regex split vs model `tokenize`; oracle for the
    rewrite: `template % args` in CPython vs the rewritten pieces evaluated with CPython's format()."""
    import itertools
    rng = ctx.rng
    tmpls = set(t for t, _ in CURATED_TEMPLATES)
    if rp and rp.get("kind") == "build":
        tmpls = {rp["template"]}
    else:
        for n in range(0, 5):
            for t in itertools.product("%-05. ds\nx", repeat=n):
                tmpls.add("".join(t))
        alph = "%%%%-0 5.1dsraxXofci+#*\nq"
        for _ in range(ctx.n(15000, 150000)):
            tmpls.add("".join(rng.choice(alph) for _ in range(rng.randint(1, 10))))
        tmpls.update(t for t, _ in gen_templates(rng, ctx.n(2000, 20000)))
    tmpls = sorted(tmpls)
    # tokenizer
    tout = ctx.drv.batch(["C18 tokenize %s" % enc(t) for t in tmpls])
    for t, mo in zip(tmpls, tout):
        ps = [s for s in re.split(st.regex, t) if s]
        io = "ok " + ("|".join(enc(s) for s in ps) if ps else "empty")
        ctx.count("tokenize")
        if io != mo:
            ctx.tie_break("D-py re.split(_parse_string_format_regex) vs CyVerif.C18.tokenize", "template %r: model %s impl %s"
                          % (cap(t, 40), cap(mo, 80), cap(io, 80)), {"kind": "build", "template": t})
    # rewrite
    vals = [0, 5, -5, 42, -42, 255, -255, 65, 10 ** 12, -10 ** 12, "", "a", "ab", "h€llo", "q'\n"]
    cases = []
    for t in tmpls:
        nd = len([d for d in pct_directives(t)])
        for k in sorted({nd, max(0, nd - 1)} if rng.random() < 0.2 else {nd}):
            starred = [False] * k
            if k and rng.random() < 0.03:
                starred[rng.randrange(k)] = True
            cases.append((t, starred, [rng.choice(vals) for _ in range(k)]))
    mout = ctx.drv.batch(["C18 build %s %s %s" % (bv, enc(t), bits(*s) or "-") for t, s, _ in cases])
    elines, eidx = [], []
    impls = []
    for i, ((t, starred, args), mo) in enumerate(zip(cases, mout)):
        io, pieces = st.build(t, starred)
        impls.append((io, pieces))
        ctx.count("build/" + ("rewritten" if pieces is not None else "left-alone"))
        ctx.seen(("build", t, tuple(starred)), nontrivial=pieces is not None)
        if io != mo:
            ctx.tie_break("D-py ConstantFolding._build_fstring vs CyVerif.C18.buildFstring", "template %r starred %s: model %s impl %s"
                          % (cap(t, 40), bits(*starred), cap(mo, 80), cap(io, 80)), {"kind": "build", "template": t})
        if pieces is not None and not any(starred):
            elines.append("C18 evalbuild %s %s %s" % (bv, enc(t), " ".join(obj_token(a) for a in args)))
            eidx.append(i)
    eout = ctx.drv.batch(elines) if elines else []
    for i, mo in zip(eidx, eout):
        t, starred, args = cases[i]
        _, pieces = impls[i]
        imp = outcome(lambda: eval_pieces_py(pieces, args))
        orc = outcome(lambda: t % tuple(args))
        ctx.count("rewrite-eval")
        if len(ctx.samples) < 3:
            ctx.sample({"op": "rewrite", "template": cap(t, 40), "args": cap(args, 60), "rewritten": cap(imp, 60), "python": cap(orc, 60)})
        mo = canon_model(mo)
        if mo != "unmodelled" and mo != imp:
            ctx.tie_break("rewritten pieces: CPython evaluation vs CyVerif.C18.evalPieces", "template %r args %s: model %s impl %s"
                          % (cap(t, 40), cap(args, 60), cap(mo, 60), cap(imp, 60)), {"kind": "build", "template": t, "args": repr(args)})
        if imp != orc:
            key = classify_pct(t, args, bv_flags, bv_strict) if mo in (imp, "unmodelled") else None
            ctx.violation(key or "percent-rewrite-unclassified", "%r %% %s: rewritten f-string gives %s, CPython %s"
                          % (cap(t, 40), cap(tuple(args), 60), cap(imp, 60), cap(orc, 60)),
                          {"kind": "build", "template": t, "args": repr(args)})


def compiled_part(ctx, st, info, pvt, bv, bv_flags, bv_strict, rp):
    rng = ctx.rng
    by = {t[0]: t for t in TYPES}
    all_keys = [t[0] for t in TYPES]
    field_keys = QUICK_FIELD_KEYS if ctx.quick else all_keys
    templates = list(CURATED_TEMPLATES) + gen_templates(rng, ctx.n(60, 300))
    if rp and rp.get("kind") == "pct":
        templates = [(rp["template"], rp["nargs"])]
    if rp and rp.get("kind") in ("raw", "field", "join"):
        all_keys = field_keys = [rp["type"]]
        templates = templates[:1]
    if "long" not in field_keys:
        field_keys = field_keys + ["long"]
    if "int" not in field_keys:
        field_keys = field_keys + ["int"]
    # ---- builds
    specs = []
    groups = [all_keys[i:i + 5] for i in range(0, len(all_keys), 5)]
    for gi, g in enumerate(groups):
        specs.append({"name": "c18raw%d" % gi, "source": raw_module_source(g)})
    for key in field_keys:
        specs.append({"name": "c18f_" + key, "source": field_module_source(key, by[key][1], FIELD_SPECS)})
    chunks = [templates[i:i + 60] for i in range(0, len(templates), 60)]
    for ci, ch in enumerate(chunks):
        specs.append({"name": "c18p%d" % ci, "source": pct_module_source(ch)})
    specs.append({"name": "c18misc", "source": MISC_SOURCE})
    rep_plan = {t[0]: rep_bodies(rng, t[0], t[3], ctx.n(12, 60)) for t in REP_TYPES}
    rkeys = [t[0] for t in REP_TYPES]
    for ri in range(0, len(rkeys), 4):
        specs.append({"name": "c18rep%d" % (ri // 4), "source": rep_module_source({k: rep_plan[k] for k in rkeys[ri:ri + 4]})})
    ctx._c18_rep_plan = rep_plan
    opts = ["-O0"] if ctx.quick else ["-O0", "-O2"]
    for opt in opts:
        if opt != "-O0":
            # optimised C: the utility code itself (raw modules) and a cross-section of the generated code
            keep = {"c18raw%d" % gi for gi in range(len(groups))} | {"c18f_" + k for k in ("uchar", "int", "long", "i128")} | {"c18p0", "c18misc", "c18rep0"}
            specs = [s for s in specs if s["name"] in keep]
        built = cybuild.build_many(ctx, [dict(s, opt=opt) for s in specs])
        sos = {}
        for s, b in zip(specs, built):
            if isinstance(b, cybuild.BuildError):
                ctx.tie_break("D-c build of %s (%s)" % (s["name"], opt), b.stage + ": " + cap(b.log[-300:], 300),
                              {"kind": "build-error", "module": s["name"]})
            else:
                sos[s["name"]] = b
        _tick(ctx, "builds" + opt)
        run_compiled(ctx, st, info, pvt, bv, bv_flags, bv_strict, rp, sos, groups, field_keys, chunks, opt)


# ---------------------------------------------------------------------------------------------------------------
# differential-only part (no model): doubles, objects, bint, Py_UCS4, str()/repr()/format(), dynamic specs

MISC_SOURCE = HELPERS + '''
def d_plain(double x): return f"{x}"
def d_r(double x): return f"{x!r}"
def d_s(double x): return f"{x!s}"
def d_f(double x): return f"{x:f}"
def d_2f(double x): return f"{x:.2f}"
def d_e(double x): return f"{x:e}"
def d_10e(double x): return f"{x:.10e}"
def d_g(double x): return f"{x:g}"
def d_G(double x): return f"{x:.3G}"
def d_w(double x): return f"{x:10.3f}"
def d_pc(double x): return f"{x:.1%}"
def d_d(double x): return f"{x:d}"
def d_rspec(double x): return f"{x!r:.2f}"
def d_join(double x, int v): return f"<{x}|{x:.3f}|{v}>"
def fl_plain(float x): return f"{x}"
def d_pct(double x): return "%5.2f|%f|%e|%g|%s|%r|%d" % (x, x, x, x, x, x, x)
def o_plain(o): return f"{o}"
def o_r(o): return f"{o!r}"
def o_s(o): return f"{o!s}"
def o_a(o): return f"{o!a}"
def o_spec(o): return f"{o:>7}"
def o_s_spec(o): return f"{o!s:>7}"
def o_r_spec(o): return f"{o!r:^9}"
def o_dyn(o, spec): return f"{o:{spec}}"
def o_join(a, b): return f"[{a}|{b!r}|{a:5}|{b}]"
def c_str(int v): return str(v)
def c_repr(long v): return repr(v)
def c_format(int v, spec): return format(v, spec)
def c_ustr(unsigned long long v): return str(v)
def c_dyn(int v, spec): return f"{v:{spec}}"
def c_dynw(int v, int w): return f"{v:{w}d}"
def b_plain(bint b): return f"{b}"
def b_d(bint b): return f"{b:d}"
def b_r(bint b): return f"{b!r}"
def b_5(bint b): return f"{b:5}"
def u_plain(Py_UCS4 c): return f"{c}"
def u_w(Py_UCS4 c): return f"{c:>3}"
def u_r(Py_UCS4 c): return f"{c!r}"
def u_pct(Py_UCS4 c): return "%s|%c|%5s" % (c, c, c)
def u_join(Py_UCS4 c, int v): return f"a{c}{v}b"
def s_join3(str a, str b, str c): return f"{a}{b}{c}"
def s_join_lit(str a): return f"\\xe9{a}\\u20ac{a}\\U0001f600"
''' + MANY_SRC


def _f32(x):
    import struct
    return struct.unpack("f", struct.pack("f", x))[0]


MISC_ORACLES = {
    "d_plain": lambda x: f"{x}", "d_r": lambda x: f"{x!r}", "d_s": lambda x: f"{x!s}", "d_f": lambda x: f"{x:f}",
    "d_2f": lambda x: f"{x:.2f}", "d_e": lambda x: f"{x:e}", "d_10e": lambda x: f"{x:.10e}", "d_g": lambda x: f"{x:g}",
    "d_G": lambda x: f"{x:.3G}", "d_w": lambda x: f"{x:10.3f}", "d_pc": lambda x: f"{x:.1%}", "d_d": lambda x: f"{x:d}",
    "d_rspec": lambda x: f"{x!r:.2f}", "d_join": lambda x, v: f"<{x}|{x:.3f}|{v}>", "fl_plain": lambda x: f"{_f32(x)}",
    "d_pct": lambda x: "%5.2f|%f|%e|%g|%s|%r|%d" % (x, x, x, x, x, x, x),
    "o_plain": lambda o: f"{o}", "o_r": lambda o: f"{o!r}", "o_s": lambda o: f"{o!s}", "o_a": lambda o: f"{o!a}",
    "o_spec": lambda o: f"{o:>7}", "o_s_spec": lambda o: f"{o!s:>7}", "o_r_spec": lambda o: f"{o!r:^9}",
    "o_dyn": lambda o, spec: f"{o:{spec}}", "o_join": lambda a, b: f"[{a}|{b!r}|{a:5}|{b}]",
    "c_str": lambda v: str(v), "c_repr": lambda v: repr(v), "c_format": lambda v, spec: format(v, spec),
    "c_ustr": lambda v: str(v), "c_dyn": lambda v, spec: f"{v:{spec}}", "c_dynw": lambda v, w: f"{v:{w}d}",
    "b_plain": lambda b: f"{bool(b)}", "b_d": lambda b: f"{bool(b):d}", "b_r": lambda b: f"{bool(b)!r}", "b_5": lambda b: f"{bool(b):5}",
    "u_plain": lambda c: f"{c}", "u_w": lambda c: f"{c:>3}", "u_r": lambda c: f"{c!r}", "u_pct": lambda c: "%s|%c|%5s" % (c, c, c),
    "u_join": lambda c, v: f"a{c}{v}b", "s_join3": lambda a, b, c: f"{a}{b}{c}",
    "s_join_lit": lambda a: f"\xe9{a}€{a}\U0001f600",
}
DOUBLES = ["0.0", "-0.0", "1.0", "-1.5", "0.1", "1e300", "1e-300", "123456789.125", "2.5", "3.14159", "1e16", "1e15", "0.5",
           "inf", "-inf", "nan", "5e-324", "1.7976931348623157e308", "12345.678", "-2.675", "1e22", "1e21"]
OBJS = ["5", "-5", "'ab'", "'h\\u20acllo'", "1.5", "None", "True", "BadStr()", "BadRepr()", "BadFormat()", "TagFormat()",
        "NonStrFormat()", "IntSub(9)", "StrSub('z')", "(1, 2)", "b'by'", "2**70", "[1]", "Idx()"]
DYN_SPECS = ["", "d", "5d", "05d", "x", ">7", "<7", "^7", "+d", ",d", "c", "e", ".2f", "s", "q", "5.2d", "010", "#x", "_b"]
USTRS = ["'a'", "'\\xe9'", "'\\u20ac'", "'\\U0001f600'", "' '"]


def misc_cases(ctx):
    rng = ctx.rng
    cases = []
    dbl = DOUBLES + [repr(rng.uniform(-1e6, 1e6)) for _ in range(ctx.n(20, 200))] + \
        [repr(rng.random() * 10.0 ** rng.randint(-20, 20)) for _ in range(ctx.n(20, 200))]
    for fn in [f for f in MISC_ORACLES if f.startswith("d_") and f != "d_join"]:
        for x in dbl:
            cases.append((fn, "(%s,)" % x))
    for x in dbl[:30]:
        cases.append(("d_join", "(%s, %d)" % (x, rng.randint(-99, 99))))
        cases.append(("fl_plain", "(%s,)" % x))
    for fn in ("o_plain", "o_r", "o_s", "o_a", "o_spec", "o_s_spec", "o_r_spec"):
        for o in OBJS:
            cases.append((fn, "(%s,)" % o))
    for o in OBJS:
        for sp in DYN_SPECS:
            cases.append(("o_dyn", "(%s, %r)" % (o, sp)))
        cases.append(("o_join", "(%s, %s)" % (o, rng.choice(OBJS))))
    ints = [0, 1, -1, 42, -42, 2 ** 31 - 1, -2 ** 31, 65, 255]
    for v in ints:
        cases.append(("c_str", "(%d,)" % v))
        cases.append(("c_repr", "(%d,)" % (v * 2 ** 31)))
        cases.append(("c_ustr", "(%d,)" % abs(v * 2 ** 32 + 1)))
        for sp in DYN_SPECS:
            cases.append(("c_format", "(%d, %r)" % (v, sp)))
            cases.append(("c_dyn", "(%d, %r)" % (v, sp)))
        for w in (0, 1, 5, 12):
            cases.append(("c_dynw", "(%d, %d)" % (v, w)))
    for b in ("True", "False", "5", "0"):
        for fn in ("b_plain", "b_d", "b_r", "b_5"):
            cases.append((fn, "(%s,)" % b))
    for c in USTRS:
        for fn in ("u_plain", "u_w", "u_r", "u_pct"):
            cases.append((fn, "(%s,)" % c))
        cases.append(("u_join", "(%s, 7)" % c))
    strs = ["''", "'x'", "'\\xe9t\\xe9'", "'\\u20ac'", "'\\U0001f600!'", "'plain ascii'"]
    for _ in range(ctx.n(60, 400)):
        a, b, c = (rng.choice(strs) for _ in range(3))
        cases.append(("s_join3", "(%s, %s, %s)" % (a, b, c)))
    for a in strs:
        cases.append(("s_join_lit", "(%s,)" % a))
    return cases


def run_compiled(ctx, st, info, pvt, bv, bv_flags, bv_strict, rp, sos, groups, field_keys, chunks, opt):
    rng = ctx.rng
    rej_sign_c, rej_gt0 = pvt
    henv = {}
    exec(HELPERS, henv)
    henv.update(inf=float("inf"), nan=float("nan"))
    tag = "" if opt == "-O0" else "@" + opt

    # ================= raw calls of the utility function
    raw = raw_cases(ctx, info, [k for g in groups for k in g])
    if rp and rp.get("kind") == "raw":
        raw = [(rp["type"], rp["v"], rp["w"], rp["pad"], rp["fmt"])]
    elif rp:
        raw = raw[:50]
    # the ordinal range check switch: witness long v = 2**32 + 65
    wit = None
    so = next((sos.get("c18raw%d" % gi) for gi, g in enumerate(groups) if "long" in g), None)
    if so is not None and info["long"][0] == 8:
        wit = cybuild.run_cases(ctx, so, [("r_long", "(%d, 0, 32, 99)" % (2 ** 32 + 65))])[0]
    ord_fixed = wit == "err OverflowError"
    if wit not in (None, "err OverflowError", "ok str:'A'"):
        ctx.tie_break("ordinal range check witness", "r_long(2**32+65,'c') = %s matches neither variant" % cap(wit, 60),
                      {"kind": "raw", "type": "long", "v": 2 ** 32 + 65, "w": 0, "pad": " ", "fmt": "c"})
    ov = "f" if ord_fixed else "o"
    lines = []
    for key, v, w, pad, fmt in raw:
        n, sg = info[key]
        pd = "s" if pad == " " else "z"
        if fmt == "c":
            lines.append("C18 cchr %s %d %d %d %d %s" % (ov, n, sg, v, w, pd))
        else:
            lines.append("C18 cint %d %d %d %d %s %s" % (n, sg, v, w, pd, fmt))
    mout = ctx.drv.batch(lines)
    raw_out = {}
    jobs = []
    for gi, g in enumerate(groups):
        so = sos.get("c18raw%d" % gi)
        if so is None:
            continue
        sub = [(i, c) for i, c in enumerate(raw) if c[0] in g]
        jobs.append((so, sub, [("r_" + c[0], "(%d, %d, %d, %d)" % (c[1], c[2], ord(c[3]), ord(c[4]))) for _, c in sub],
                     [mout[i].startswith("ub ") for i, _ in sub]))
    for (so, sub, _, _), outs in zip(jobs, par_run(ctx, [(j[0], j[2], j[3]) for j in jobs])):
        for (i, _), o in zip(sub, outs):
            if o is not None:
                raw_out[i] = o
    _tick(ctx, "raw-run" + tag)
    for i, ((key, v, w, pad, fmt), mo) in enumerate(zip(raw, mout)):
        if i not in raw_out:
            continue
        io = raw_out[i]
        orc = oracle_format(v, py_spec(pad, w, fmt))
        mo = canon_model(mo)
        ctx.count("raw/%s/%s%s" % (key, fmt, tag))
        ctx.seen(("raw", key, v, w, pad, fmt, opt))
        if i % 997 == 0:
            ctx.sample({"op": "raw", "type": key, "v": cap(v, 30), "w": w, "pad": pad, "fmt": fmt, "impl": cap(io, 60), "model": cap(mo, 60), "oracle": cap(orc, 60)})
        rpd = {"kind": "raw", "type": key, "v": v, "w": w, "pad": pad, "fmt": fmt, "opt": opt}
        if mo != io and not mo.startswith("ub "):
            ctx.tie_break("D-c __Pyx_PyUnicode_From_%s vs CyVerif.C18.%s" % (key, "ucharToPyUnicode" if fmt == "c" else "cintToPyUnicode"),
                          "(%s v=%d, w=%d, pad=%r, %s)%s: model %s impl %s" % (key, v, w, pad, fmt, tag, cap(mo, 60), cap(io, 60)), rpd)
        if io != orc:
            key_ = "cfield-c-range-check" if (fmt == "c" and v >= 2 ** 21 and not ord_fixed and (mo == io or mo.startswith("ub "))) \
                else "raw-%s-unclassified" % fmt
            ctx.violation(key_, "__Pyx_PyUnicode_From_%s(%d, %d, %r, %r)%s = %s, format(%d, %r) = %s"
                          % (key, v, w, pad, fmt, tag, cap(io, 60), v, py_spec(pad, w, fmt), cap(orc, 60)), rpd)

    _tick(ctx, "raw-compare" + tag)
    # ================= f-string fields and joins on C variables
    fcases = []                                                  # (key, k, v)
    jcases = []                                                  # (key, k, v, s)
    for key in field_keys:
        lo, hi = type_range(info, key)
        vals = [v for v in FIELD_VALUES if lo <= v <= hi] + [lo, hi] + [rng.randint(lo, hi) for _ in range(ctx.n(3, 20))]
        for k in range(len(FIELD_SPECS)):
            for v in vals:
                fcases.append((key, k, v))
        jv = [v for v in (0x41, 0xe9, 0x20ac, 0x1f600, 0x110000, -3, 7, 2 ** 32 + 65) if lo <= v <= hi]
        for k in range(len(JOIN_BODIES)):
            for v in jv:
                for s in (JOIN_STRS if v in (0x41, 0x20ac) else JOIN_STRS[:2]):
                    jcases.append((key, k, v, s))
    if rp and rp.get("kind") == "field":
        fcases = [(rp["type"], rp["k"], rp["v"])]
        jcases = jcases[:5]
    elif rp and rp.get("kind") == "join":
        jcases = [(rp["type"], rp["k"], rp["v"], rp["s"])]
        fcases = fcases[:5]
    elif rp:
        fcases, jcases = fcases[:50], jcases[:5]
    # switches: conversion awareness (f"{v!r:5}" on int 42), join kind (f"a{v:5c}b" on int 0x20ac)
    conv_aware, kind_fixed = False, False
    so = sos.get("c18f_int")
    if so is not None:
        w1, w2 = cybuild.run_cases(ctx, so, [("f_%d" % FIELD_SPECS.index(("r", "5")), "(42,)"), ("j_0", "(8364, '')")])
        conv_aware = w1 == "ok str:'42   '"
        kind_fixed = w2 == "ok str:" + repr("a    €b")
        if w1 not in ("ok str:'42   '", "ok str:'   42'"):
            ctx.tie_break("conversion-char witness", "f\"{v!r:5}\" on int 42 = %s matches neither variant" % cap(w1, 60),
                          {"kind": "field", "type": "int", "k": FIELD_SPECS.index(("r", "5")), "v": 42})
        if w2 not in ("ok str:" + repr("a    €b"), "ok str:" + repr("a    \xacb")):
            ctx.tie_break("join kind witness", "f\"a{v:5c}b\" on int 0x20ac = %s matches neither variant" % cap(w2, 60),
                          {"kind": "join", "type": "int", "k": 0, "v": 8364, "s": ""})
    fout, jout = {}, {}

    def risky_c(spec, v):
        # the unrepaired range check lets values >= 2^21 reach the 'c' code: possible crash, run those alone
        return (not ord_fixed) and spec.endswith("c") and v >= 2 ** 21
    jobs = []
    for key in field_keys:
        so = sos.get("c18f_" + key)
        if so is None:
            continue
        sub = [(i, c) for i, c in enumerate(fcases) if c[0] == key]
        subj = [(i, c) for i, c in enumerate(jcases) if c[0] == key]
        jobs.append((so, sub, subj,
                     [("f_%d" % c[1], "(%d,)" % c[2]) for _, c in sub] + [("j_%d" % c[1], "(%d, %r)" % (c[2], c[3])) for _, c in subj],
                     [risky_c(FIELD_SPECS[c[1]][1], c[2]) for _, c in sub] +
                     [any(p[0] == "F" and risky_c(p[2], c[2]) for p in JOIN_PIECES[c[1]]) for _, c in subj]))
    for (so, sub, subj, _, _), outs in zip(jobs, par_run(ctx, [(j[0], j[3], j[4]) for j in jobs])):
        for (i, _), o in zip(sub, outs[:len(sub)]):
            if o is not None:
                fout[i] = o
        for (i, _), o in zip(subj, outs[len(sub):]):
            if o is not None:
                jout[i] = o
    svb = (rej_sign_c, rej_gt0, ord_fixed, conv_aware)
    sv = bits(*svb)
    ctx.notes["switches" + tag] = {"parse.rejectSignC": rej_sign_c, "parse.rejectGtZero": rej_gt0, "ordinal.rangeCheckFixed": ord_fixed,
                                   "field.convAware": conv_aware, "join.kindFixed": kind_fixed, "build.flags": bv_flags,
                                   "build.strictText": bv_strict}
    _tick(ctx, "field-run" + tag)
    fl = []
    for key, k, v in fcases:
        n, sg = info[key]
        conv, spec = FIELD_SPECS[k]
        fl.append("C18 field %s c:%d:%d:%d %s %s" % (sv, n, sg, v, conv or "-", enc(spec)))
    ul = ["C18 usesc %s %s %s" % (sv, conv or "-", enc(spec)) for conv, spec in FIELD_SPECS]
    mall = ctx.drv.batch(fl + ul)
    mf, mu = mall[:len(fl)], mall[len(fl):]
    mapped = [u != "ok none" for u in mu]
    for i, ((key, k, v), mo) in enumerate(zip(fcases, mf)):
        if i not in fout:
            continue
        io = fout[i]
        conv, spec = FIELD_SPECS[k]
        orc = outcome(lambda: eval(field_expr(conv, spec), {"v": v}))
        mo = canon_model(mo)
        ctx.count("field/%s/%s%s" % (key, "c-path" if mapped[k] else "generic", tag))
        ctx.seen(("field", key, k, v, opt), nontrivial=mapped[k])
        if i % 1499 == 0:
            ctx.sample({"op": "field", "type": key, "expr": field_expr(conv, spec), "v": cap(v, 30), "impl": cap(io, 60), "model": cap(mo, 60), "oracle": cap(orc, 60)})
        rpd = {"kind": "field", "type": key, "k": k, "v": v, "expr": field_expr(conv, spec), "opt": opt}
        if mo != "unmodelled" and mo != io and not mo.startswith("ub "):
            ctx.tie_break("D-c %s on %s vs CyVerif.C18.evalFieldCInt" % (field_expr(conv, spec), key),
                          "v=%d%s: model %s impl %s" % (v, tag, cap(mo, 60), cap(io, 60)), rpd)
        if io != orc:
            key_ = classify_field(conv, spec, v, mapped[k], svb) if (mo == io or mo.startswith("ub ")) else None
            ctx.violation(key_ or "cfield-unclassified", "%s with %s v=%d%s gives %s, CPython %s"
                          % (field_expr(conv, spec), key, v, tag, cap(io, 60), cap(orc, 60)), rpd)
    _tick(ctx, "raw+fields" + tag)
    join_check(ctx, info, jcases, jout, sv, svb, kind_fixed, tag, opt)
    _tick(ctx, "joins" + tag)
    pct_check(ctx, info, sos, chunks, henv, bv, bv_flags, bv_strict, sv, svb, rp, tag, opt)
    _tick(ctx, "percent" + tag)
    misc_check(ctx, sos, henv, conv_aware, rp, tag, opt)
    _tick(ctx, "misc" + tag)
    rkeys = [t[0] for t in REP_TYPES]
    for ri in range(0, len(rkeys), 4):
        so = sos.get("c18rep%d" % (ri // 4))
        if so is not None:
            rep_check(ctx, so, {k: ctx._c18_rep_plan[k] for k in rkeys[ri:ri + 4]}, henv, info, sv, rp, tag, opt)
    _tick(ctx, "repeated" + tag)


def join_check(ctx, info, jcases, jout, sv, svb, kind_fixed, tag, opt):
    """f-strings with >= 3 parts: `__Pyx_PyUnicode_Join` with the compiler's length/kind bookkeeping."""
    uniq = sorted({(c, s) for ps in JOIN_PIECES for p in ps if p[0] == "F" for c, s in [(p[1], p[2])]})
    uo = ctx.drv.batch(["C18 usesc %s %s %s" % (sv, c or "-", enc(s)) for c, s in uniq] +
                       ["C18 asciispec %d %s" % (kind_fixed, enc(s or "d")) for c, s in uniq])
    usesc = {cs: o != "ok none" for cs, o in zip(uniq, uo[:len(uniq)])}
    ascii_ = {cs: o == "ok 1" for cs, o in zip(uniq, uo[len(uniq):])}
    lines, where = [], []
    for ci, (key, k, v, s) in enumerate(jcases):
        n, sg = info[key]
        for pi, p in enumerate(JOIN_PIECES[k]):
            if p[0] == "F":
                lines.append("C18 field %s c:%d:%d:%d %s %s" % (sv, n, sg, v, p[1] or "-", enc(p[2])))
                where.append((ci, pi))
    fo = dict(zip(where, ctx.drv.batch(lines))) if lines else {}
    jl, jidx, early = [], [], {}
    for ci, (key, k, v, s) in enumerate(jcases):
        toks, err = [], None
        for pi, p in enumerate(JOIN_PIECES[k]):
            if p[0] == "L":
                toks.append("L:" + enc(p[1]))
            elif p[0] == "S":
                x = {"": s, "s": str(s), "r": repr(s), "a": ascii(s)}[p[1]]
                toks.append("V:" + enc(format(x, p[2])))
            else:
                o = fo[(ci, pi)]
                if o == "unmodelled":
                    err = "unmodelled"
                    break
                if not o.startswith("ok "):
                    err = o
                    break
                cs = (p[1], p[2])
                toks.append(("A:" if usesc[cs] and ascii_[cs] else "V:") + o[3:])
        if err is not None:
            early[ci] = err
        else:
            jl.append("C18 join " + " ".join(toks))
            jidx.append(ci)
    jo = dict(zip(jidx, ctx.drv.batch(jl))) if jl else {}
    for ci, (key, k, v, s) in enumerate(jcases):
        if ci not in jout:
            continue
        io = jout[ci]
        mo = canon_model(early.get(ci, jo.get(ci, "unmodelled")))
        orc = outcome(lambda: eval(JOIN_BODIES[k], {"v": v, "s": s}))
        ctx.count("join/%s%s" % (key, tag))
        ctx.seen(("join", key, k, v, s, opt))
        rpd = {"kind": "join", "type": key, "k": k, "v": v, "s": s, "expr": cap(JOIN_BODIES[k], 80), "opt": opt}
        if mo != "unmodelled" and mo != io:
            ctx.tie_break("D-c %s on %s vs CyVerif.C18.pyxJoin" % (cap(JOIN_BODIES[k], 40), key),
                          "v=%d s=%r%s: model %s impl %s" % (v, cap(s, 20), tag, cap(mo, 60), cap(io, 60)), rpd)
        if io != orc:
            key_ = None
            if mo == io:
                for p in JOIN_PIECES[k]:
                    if p[0] == "F":
                        key_ = key_ or classify_field(p[1], p[2], v, usesc[(p[1], p[2])], svb)
                if key_ is None and not kind_fixed and any(p[0] == "F" and p[2].endswith("c") and p[2] != "c" for p in JOIN_PIECES[k]):
                    key_ = "join-padded-c-kind"
            ctx.violation(key_ or "join-unclassified", "%s with %s v=%d s=%r%s gives %s, CPython %s"
                          % (cap(JOIN_BODIES[k], 60), key, v, cap(s, 20), tag, cap(io, 60), cap(orc, 60)), rpd)


def pct_check(ctx, info, sos, chunks, henv, bv, bv_flags, bv_strict, sv, svb, rp, tag, opt):
    """compiled `"literal" % (args…)` with object arguments and with C int/long arguments."""
    rng = ctx.rng
    for ci, ch in enumerate(chunks):
        so = sos.get("c18p%d" % ci)
        if so is None:
            continue
        cases = []                                  # (k, typed, [arg sources])
        for k, (t, n) in enumerate(ch):
            if rp and rp.get("kind") == "pct":
                cases.append((k, rp["typed"], rp["args"]))
                continue
            tuples = [["42"] * n, ["-5"] * n, ["'ab'"] * n, ["'h\\u20acllo'"] * n]
            for _ in range(ctx.n(6, 25)):
                tuples.append([rng.choice(PCT_OBJ_VALUES) for _ in range(n)])
            for a in (tuples if n else [[]]):
                cases.append((k, False, a))
            if n:
                for _ in range(ctx.n(4, 12)):
                    cases.append((k, True, [str(rng.choice(PCT_INT_VALUES)) for _ in range(n)]))
        outs = run_many(ctx, so, [("pc_%d" % k if typed else "p_%d" % k, "(" + "".join(a + ", " for a in args) + ")")
                                  for k, typed, args in cases])
        lines, idx = [], []
        evald = []
        for i, (k, typed, args) in enumerate(cases):
            t = ch[k][0]
            vals = [eval(a, dict(henv)) for a in args]
            evald.append(vals)
            if typed:
                toks = ["c:%d:1:%d" % (CTYPES_FOR_PCT[j % 2][1], v) for j, v in enumerate(vals)]
            else:
                toks = [obj_token(v) for v in vals]
            if all(x is not None for x in toks):
                lines.append("C18 evalbuildx %s %s %s %s" % (bv, sv, enc(t), " ".join(toks)))
                idx.append(i)
        mo_by = dict(zip(idx, ctx.drv.batch(lines))) if lines else {}
        for i, ((k, typed, args), io) in enumerate(zip(cases, outs)):
            if io is None:
                continue
            t = ch[k][0]
            vals = evald[i]
            orc = outcome(lambda: t % tuple(vals))
            mo = mo_by.get(i)
            ctx.count("percent/%s%s" % ("c-typed" if typed else "objects", tag))
            ctx.seen(("pct", t, typed, tuple(args), opt), nontrivial=(mo is not None and mo != "ok none"))
            if i % 499 == 0:
                ctx.sample({"op": "%", "template": cap(t, 40), "args": cap(args, 60), "typed": typed, "impl": cap(io, 60), "oracle": cap(orc, 60)})
            rpd = {"kind": "pct", "template": t, "nargs": ch[k][1], "typed": typed, "args": args, "opt": opt}
            explained = False
            if mo is not None and mo not in ("ok none", "unmodelled"):
                mo = canon_model(mo)
                explained = mo == io
                if not explained:
                    ctx.tie_break("D-c compiled %r %% args vs CyVerif.C18.evalPiecesA" % cap(t, 40),
                                  "args %s typed=%s%s: model %s impl %s" % (cap(args, 60), typed, tag, cap(mo, 60), cap(io, 60)), rpd)
            if io != orc:
                key_ = classify_pct(t, vals, bv_flags, bv_strict) if (explained or mo is None or mo == "unmodelled") else None
                ctx.violation(key_ or "percent-unclassified", "%r %% (%s)%s%s gives %s, CPython %s"
                              % (cap(t, 40), cap(", ".join(args), 60), " [C int/long args]" if typed else "", tag, cap(io, 60), cap(orc, 60)), rpd)


def misc_check(ctx, sos, henv, conv_aware, rp, tag, opt):
    so = sos.get("c18misc")
    if so is None:
        return
    cases = misc_cases(ctx)
    if rp and rp.get("kind") == "misc":
        cases = [(rp["fn"], rp["args"])]
    elif rp:
        cases = cases[:20]
    outs = run_many(ctx, so, cases)
    for (fn, args), io in zip(cases, outs):
        if io is None:
            continue
        vals = eval(args, dict(henv))
        orc = outcome(lambda: MISC_ORACLES[fn](*vals))
        ctx.count("differential-only/%s%s" % (fn.split("_")[0], tag))
        ctx.seen(("misc", fn, args, opt))
        if io != orc:
            key_ = "cfield-conversion-char-ignored" if (fn == "d_rspec" and not conv_aware and io.startswith("ok str:")) else "misc-%s" % fn
            ctx.violation(key_, "%s%s%s gives %s, CPython %s" % (fn, cap(args, 60), tag, cap(io, 60), cap(orc, 60)),
                          {"kind": "misc", "fn": fn, "args": args, "opt": opt})


# ---------------------------------------------------------------------------------------------------------------
# repeated placeholders: the same local name 2-4 times in one f-string (FinalOptimizePhase.visit_JoinedStrNode
# replaces a placeholder whose key (name, c_format_spec, format_spec, conversion or 's') was seen by a CloneNode)

# key, declaration prefix of the argument, value sources (texts that tell str/repr/ascii apart), spec usable without conversion
REP_TYPES = [
    ("obj", "", ["'h\\u20acllo\\'q\"'", "IntSub(9)", "StrSub('z\\xe9')", "-42", "1.5", "['\\xe9', \"q'\"]"], ">9"),
    ("str", "str ", ["'h\\u20acllo\\'q\"'", "'ab'", "'\\xe9'"], ">9"),
    ("uni", "unicode ", ["'\\xe9\"'"], "<7"),
    ("bytes", "bytes ", ["b\"a'\\xe9\"", "b'q'"], None),
    ("cint", "int ", ["-42", "65"], "5"),
    ("clong", "long ", ["-4200000000", "7"], "05"),
    ("dbl", "double ", ["1.5", "1e16", "-0.0"], ".2f"),
    ("list", "list ", ["['\\xe9', \"q'\"]", "[]"], None),
    ("dict", "dict ", ["{'k\\xe9': '\\u20ac'}"], None),
    ("tuple", "tuple ", ["('\\xe9', 1)"], None),
]
REP_CONVS = ["", "!r", "!s", "!a", "="]
REP_PCT = ["%r is %s!", "%s|%r|%a", "%s%s%r", "%a~%s~%s", "<%s %s %r %r>", "%r%r %s"]
REP_PCT_INT = ["%d and %s and %r", "%s%d%s", "%x|%s|%r"]


def _ph(conv, spec):
    if conv == "=":
        return "{s=%s}" % (":" + spec if spec else "")
    return "{s%s%s}" % (conv, ":" + spec if spec else "")


def rep_bodies(rng, tkey, plain_spec, n_extra):
    """[(body source of an f-string, pieces)] for one variable type; pieces: ("L", text) | ("F", conv) when spec-free"""
    out = []
    seps = [" is ", "|", "", "\xe9~"]

    def make(convs, specs, sep, lead, tail):
        parts, pieces = [], []
        if lead:
            parts.append(lead)
            pieces.append(("L", lead))
        for i, (c, sp) in enumerate(zip(convs, specs)):
            if i:
                parts.append(sep)
                if sep:
                    pieces.append(("L", sep))
            parts.append(_ph(c, sp))
            if c == "=":
                pieces.append(("L", "s="))
            pieces.append(("F", "r" if c == "=" else c[1:], sp))
        if tail:
            parts.append(tail)
            pieces.append(("L", tail))
        return 'f"' + "".join(parts).replace("\xe9", "\\xe9") + '"', pieces
    # every ordered pair of conversions, no spec (the merged case), two layouts
    for a in REP_CONVS:
        for b in REP_CONVS:
            out.append(make([a, b], ["", ""], " is ", "", "!"))
            out.append(make([a, b], ["", ""], "", "<", ""))
    # spec: same / different; a spec without conversion only where the type takes it
    str_specs = [">9", "<8", "^7", ".3"]
    for a in REP_CONVS:
        for b in REP_CONVS:
            if rng.random() < 0.5:
                continue
            sa = rng.choice(str_specs) if a in ("!r", "!s", "!a", "=") else (plain_spec or "")
            for sb in ({sa, rng.choice(str_specs)} if b in ("!r", "!s", "!a", "=") else {plain_spec or ""}):
                out.append(make([a, b], [sa, sb], "|", "", "."))
    # 3 and 4 occurrences
    for _ in range(n_extra):
        n = rng.choice((3, 3, 4))
        convs = [rng.choice(REP_CONVS) for _ in range(n)]
        specs = ["" if rng.random() < 0.75 else (rng.choice(str_specs) if c else (plain_spec or "")) for c in convs]
        out.append(make(convs, specs, rng.choice(seps), rng.choice(("", "[")), rng.choice(("", "]", "!"))))
    return out


def rep_module_source(plan):
    """plan: {tkey: [(body, pieces)]} -> module with functions returning lists of 20 f-strings each"""
    src = HELPERS + "\n"
    by = {t[0]: t for t in REP_TYPES}
    for tkey, bodies in plan.items():
        decl = by[tkey][1]
        for fi in range(0, len(bodies), 20):
            src += "def rep_%s_%d(%ss): return [%s]\n" % (tkey, fi // 20, decl, ", ".join(b for b, _ in bodies[fi:fi + 20]))
        pcts = REP_PCT + (REP_PCT_INT if tkey in ("cint", "clong", "obj") else [])
        for pi, t in enumerate(pcts):
            n = len(pct_directives(t))
            src += "def reppct_%s_%d(%ss): return %r %% (%s)\n" % (tkey, pi, decl, t, "s, " * n)
    return src + MANY_SRC


def rep_check(ctx, so, plan, henv, info, sv, rp, tag, opt):
    by = {t[0]: t for t in REP_TYPES}
    cases, meta = [], []
    for tkey, bodies in plan.items():
        for vsrc in by[tkey][2]:
            for fi in range(0, len(bodies), 20):
                cases.append(("rep_%s_%d" % (tkey, fi // 20), "(%s,)" % vsrc))
                meta.append(("f", tkey, vsrc, fi))
            pcts = REP_PCT + (REP_PCT_INT if tkey in ("cint", "clong", "obj") else [])
            for pi, t in enumerate(pcts):
                cases.append(("reppct_%s_%d" % (tkey, pi), "(%s,)" % vsrc))
                meta.append(("p", tkey, vsrc, t))
    if rp and rp.get("kind") == "rep":
        keep = [i for i, m in enumerate(meta) if m[1] == rp["type"] and m[2] == rp["value"]]
        cases, meta = [cases[i] for i in keep], [meta[i] for i in keep]
    elif rp:
        cases, meta = cases[:4], meta[:4]
    outs = run_many(ctx, so, cases)
    # the switch: does the key of the de-duplication contain the conversion character?  witness f"{s!r} is {s}!" on str 'ab'
    key_conv = getattr(ctx, "_c18_keyconv" + tag, True)
    if "str" in plan:
        idx = next((i for i, (b, _) in enumerate(plan["str"][:20]) if b == 'f"{s!r} is {s}!"'), None)
        wso = run_many(ctx, so, [("rep_str_0", "('ab',)")])[0]
        if idx is not None and wso is not None and wso.startswith("ok list:"):
            try:
                key_conv = ast.literal_eval(wso[8:])[idx] != "'ab' is 'ab'!"
            except (ValueError, SyntaxError, IndexError):
                pass
    if "str" in plan:
        setattr(ctx, "_c18_keyconv" + tag, key_conv)
        ctx.notes["switches" + tag] = dict(ctx.notes.get("switches" + tag, {}), **{"dedup.keyHasConversion": key_conv})
    lines, where = [], []
    results = []
    for (kind, tkey, vsrc, x), io in zip(meta, outs):
        if io is None:
            continue
        v = eval(vsrc, dict(henv))
        if kind == "p":
            n = len(pct_directives(x))
            orc = outcome(lambda: x % ((v,) * n))
            ctx.count("repeated/percent/%s%s" % (tkey, tag))
            ctx.seen(("rep%", tkey, vsrc, x, opt))
            if io != orc:
                key_ = classify_pct(x, [v] * n, True, True)
                ctx.violation(key_ or "repeated-placeholder-percent", "%r %% (s,)*%d with %s s = %s%s gives %s, CPython %s"
                              % (x, n, by[tkey][1].strip() or "object", cap(vsrc, 30), tag, cap(io, 70), cap(orc, 70)),
                              {"kind": "rep", "type": tkey, "value": vsrc, "template": x, "opt": opt})
            continue
        bodies = plan[tkey][x:x + 20]
        exp_items = [outcome(lambda b=b: eval(b, {"s": v})) for b, _ in bodies]
        # the list is built left to right: the first item that raises decides the outcome
        exp = "ok list:" + repr([ast.literal_eval(e[7:]) for e in exp_items]) if all(e.startswith("ok str:") for e in exp_items) \
            else next(e for e in exp_items if not e.startswith("ok str:"))
        ctx.count("repeated/fstring/%s%s" % (tkey, tag), len(bodies))
        for b, _ in bodies:
            ctx.seen(("rep", tkey, vsrc, b, opt))
        results.append((tkey, vsrc, x, io, exp, exp_items, v))
        # model leg (Lean `evalPiecesD`): spec-free bodies on modelled argument classes
        if tkey in ("cint", "clong"):
            tok = "c:%d:1:%d" % (info["int" if tkey == "cint" else "long"][0], v)
        elif tkey in ("str", "uni", "obj") and type(v) in (str, int):
            tok = obj_token(v)
        else:
            tok = None
        if tok is not None:
            for bi, (b, pieces) in enumerate(bodies):
                if all(p[0] == "L" or not p[2] for p in pieces):
                    # (an untyped object is never merged: its key does not matter)
                    lines.append("C18 rep %d %s %s %s" % (key_conv or tkey == "obj", sv, tok, " ".join(
                        ("L:" + enc(p[1])) if p[0] == "L" else ("F:" + (p[1] or "-")) for p in pieces)))
                    where.append((len(results) - 1, bi))
    mout = dict(zip(where, ctx.drv.batch(lines))) if lines else {}
    for ri, (tkey, vsrc, x, io, exp, exp_items, v) in enumerate(results):
        bodies = plan[tkey][x:x + 20]
        if io == exp:
            if not io.startswith("ok list:"):
                continue
            # the compiled list equals CPython's: check the model on the individual items
            for bi, (b, _) in enumerate(bodies):
                mo = mout.get((ri, bi))
                if mo is not None and mo != "unmodelled" and canon_model(mo) != exp_items[bi]:
                    ctx.tie_break("D-c repeated placeholders %s vs CyVerif.C18.evalPiecesD" % cap(b, 40),
                                  "%s s=%s%s: model %s impl %s" % (tkey, cap(vsrc, 30), tag, cap(canon_model(mo), 60), cap(exp_items[bi], 60)),
                                  {"kind": "rep", "type": tkey, "value": vsrc, "opt": opt})
            continue
        # find the first differing item (the child returns canon() of a list: items joined by ';')
        bad = None
        if io.startswith("ok list:") and exp.startswith("ok list:"):
            try:
                got = ast.literal_eval(io[8:])
                bad = next((bi for bi, e in enumerate(exp_items) if bi >= len(got) or "ok str:" + repr(got[bi]) != e), None)
            except (ValueError, SyntaxError):
                bad = None
        b = bodies[bad][0] if bad is not None else "<one of %d f-strings>" % len(bodies)
        mo = mout.get((ri, bad)) if bad is not None else None
        explained = mo is not None and not key_conv and canon_model(mo) != exp_items[bad]
        ctx.violation("repeated-placeholder-dedup-key-without-conversion" if explained else "repeated-placeholder",
                      "%s with %s s = %s%s: compiled list %s, CPython item %s" % (cap(b, 60), by[tkey][1].strip() or "object",
                      cap(vsrc, 30), tag, cap(io, 90), cap(exp_items[bad] if bad is not None else exp, 70)),
                      {"kind": "rep", "type": tkey, "value": vsrc, "fstring": b, "opt": opt})

"""C33 — Python <-> C/C++ value conversions round-trip or raise.

Implementation: C++ / C modules compiled with the STAGED compiler, one `def rt_k(x): cdef T c = x; return c` per
type T of the grammar (fixed list + seeded random types, nesting depth <= 3), i.e. the instantiated templates of
CppConvert.pyx / CConvert.pyx / TypeConversion.c as selected by PyrexTypes.  Model: CyVerif.C33 `roundTrip` (cydrv).
Oracle: c33_types.spec (the property stated on the value tree, written without reference to the templates).
"""
import ast
import os
import subprocess

import sys

import cybuild
import lib

sys.path.insert(0, os.path.dirname(os.path.abspath(__file__)))
import c33_enc  # noqa: E402
from c33_types import (Int, DBL, BOOL, STR, CSTR, CPLX, Pair, Vec, Lst, Set, USet, Map, UMap, Struct, Union, CArr, CTup,
                       cy_type, cy_decl, tok_type, show, canon, spec, oracle_same, BAD, gen_good, bad_sources, nodes,
                       replace, shape_variants, src, needs_cpp, has_kind, TYPEDEFS)

HERE = os.path.dirname(os.path.abspath(__file__))
ENC_SRC = open(os.path.join(HERE, "c33_enc.py")).read()

INNER = Struct("Inner", ("a", Int()), ("b", DBL))
OUTER = Struct("Outer", ("inner", INNER), ("arr", CArr(Int(), 3)), ("u", Int(8, False)))
GRID = Struct("Grid", ("g", CArr(CArr(Int(16), 2), 2)), ("flag", BOOL), ("w", Int(64, False)))
UN2 = Union("Un2", ("i", Int()), ("d", DBL))
UN1 = Union("Un1", ("only", Int(16)))
WITHU = Struct("WithU", ("u", UN1), ("k", Int()))

CPP_FIXED = [
    [Vec(Int()), Vec(Pair(Int(), STR)), Map(STR, Vec(DBL)), Set(Int()), USet(Int()), Lst(Int()), STR,
     UMap(Int(), Int()), Map(Int(), Int()), Vec(Int(8, False)), Pair(Int(), DBL)],
    [CPLX, Vec(BOOL), Vec(Vec(Int())), Pair(STR, Pair(Int(16), BOOL)), Set(STR), Set(Pair(Int(), STR)),
     Map(Pair(Int(), Int()), STR), UMap(STR, Lst(Int(64))), Vec(CPLX), Lst(Set(Int(8))), Vec(Int(64, False))],
    [Vec(INNER), Map(Int(), INNER), Pair(INNER, Vec(Int())), Vec(Map(Int(), Int(8))), USet(STR),
     Map(STR, Map(Int(), DBL)), Lst(Pair(DBL, DBL)), Set(Vec(Int())), Map(Vec(Int()), Int()), UMap(Int(8, False), Set(STR))],
]
C_FIXED = [INNER, OUTER, GRID, CArr(Int(), 3), CArr(CArr(Int(), 2), 2), CArr(INNER, 2), CTup(Int(), DBL),
           CTup(Int(), CTup(DBL, Int(8, False)), INNER), UN2, UN1, WITHU, CSTR, Int(8, True), Int(8, False),
           Int(64, False), Int(64, True), DBL, BOOL, CArr(DBL, 1), CTup(BOOL), CArr(Int(64, False), 4)]
STRMODE_FIXED = [STR, Vec(STR), Map(STR, Int()), Pair(STR, STR), Set(STR), CSTR, UMap(STR, Vec(STR))]

CPP_HEADER = """# distutils: language = c++
from libcpp.vector cimport vector
from libcpp.list cimport list as cpplist
from libcpp.set cimport set as cppset
from libcpp.unordered_set cimport unordered_set
from libcpp.map cimport map as cppmap
from libcpp.unordered_map cimport unordered_map
from libcpp.pair cimport pair
from libcpp.string cimport string
from libcpp.complex cimport complex as cppcomplex
"""


def random_type(rng, cpp, depth=0, key=False, inner=False):
    """seeded type of nesting depth <= 3 over the grammar (only combinations the compiler supports)"""
    leaf = [Int(rng.choice((8, 16, 32, 64)), rng.random() < 0.6), STR if cpp else Int(16)]
    if key:
        if key != 'u' and depth < 2 and rng.random() < 0.3:      # no std::hash for pair
            return Pair(random_type(rng, cpp, depth + 1, True), random_type(rng, cpp, depth + 1, True))
        return rng.choice(leaf)
    leaf += [DBL, BOOL] + ([CPLX] if cpp else [])
    if depth >= 3 or (depth > 0 and rng.random() < 0.25):
        return rng.choice(leaf)
    if cpp:
        c = rng.choice(("pair", "vec", "lst", "set", "uset", "map", "umap", "vec", "map"))
        if c == "pair":
            return Pair(random_type(rng, cpp, depth + 1), random_type(rng, cpp, depth + 1))
        if c in ("vec", "lst"):
            return (c, random_type(rng, cpp, depth + 1))
        if c in ("set", "uset"):
            return (c, random_type(rng, cpp, depth + 1, 'u' if c == 'uset' else True))
        return (c, random_type(rng, cpp, depth + 1, 'u' if c == 'umap' else True), random_type(rng, cpp, depth + 1))
    c = rng.choice(("carray", "ctuple", "carray") if depth == 0 else ("ctuple",))
    if c == "carray":
        t = rng.choice((Int(rng.choice((16, 32, 64)), rng.random() < 0.5), DBL,   # char arrays are C strings, not arrays
                        INNER, CArr(Int(16), rng.choice((1, 2, 3)))))
        return CArr(t, rng.choice((1, 2, 3, 5)))
    return CTup(*[random_type(rng, cpp, depth + 1) if rng.random() < 0.5 else rng.choice(leaf + [INNER])
                  for _ in range(rng.choice((1, 2, 3)))])


def module_source(types, cpp):
    decls = {}
    body = []
    for i, T in enumerate(types):
        if T[0] == "carray":
            base, dims = cy_decl(T, decls)
            d = "%s%s c" % (base, dims)
        else:
            d = "%s c" % cy_type(T, decls)
        body.append("def rt_%d(x):\n    cdef %s = x\n    return c\n" % (i, d))
    text = (CPP_HEADER if cpp else "") + "import c33_enc\n" + TYPEDEFS + "".join(decls.values()) + "\n" + "\n".join(body)
    text += "\n_F = {%s}\n" % ", ".join("%d: rt_%d" % (i, i) for i in range(len(types)))
    text += "def call(k, x):\n    return c33_enc.enc(_F[k](x), True)\n"
    return text


def ctuple_sigs(T, out=None):
    """struct names the compiler derives for the ctuple sub-types of T, with `bint` spelled like `int` (as
    type_identifier does): two different ctuple types with the same signature share ONE C struct and ONE pair of
    conversion functions in a module (finding ctuple-int-bint-cname-collision)"""
    from c33_types import children
    out = {} if out is None else out

    def name(t):
        if t[0] == "ctuple":
            return "(" + ",".join(name(c) for c in t[1]) + ")"
        return "int" if t in (BOOL, Int(32, True)) else repr(t)
    if T[0] == "ctuple":
        out.setdefault(name(T), set()).add(repr(T))
    for c in children(T):
        ctuple_sigs(c, out)
    return out


def collides(T, sigs):
    mine = ctuple_sigs(T)
    return any(len(v | sigs.get(k, set())) > 1 for k, v in mine.items())


def add_sigs(T, sigs):
    for k, v in ctuple_sigs(T).items():
        sigs.setdefault(k, set()).update(v)


COLLISION_PROBE = [CTup(BOOL, BOOL), CTup(Int(), BOOL)]      # declared in this order in one module


def plan_modules(ctx):
    """-> list of dict(name, types, cpp, mode)"""
    rng = ctx.rng
    mods = []
    for i, ts in enumerate(CPP_FIXED):
        mods.append(dict(name="c33cpp%d" % i, types=list(ts), cpp=True, mode="bytes"))
    mods.append(dict(name="c33c0", types=list(C_FIXED), cpp=False, mode="bytes"))
    for mode in ("ascii", "utf8"):
        mods.append(dict(name="c33s_" + mode, types=list(STRMODE_FIXED), cpp=True, mode=mode))
    nr = ctx.n(10, 60)
    seen = set(map(repr, sum(CPP_FIXED, []) + C_FIXED))
    rts = []
    tries = 0
    while len(rts) < nr and tries < 50 * nr:
        tries += 1
        T = random_type(rng, True)
        if repr(T) not in seen and T[0] not in ("int", "dbl", "bool"):
            seen.add(repr(T))
            rts.append(T)
    for j in range(0, len(rts), 10):
        mods.append(dict(name="c33rnd%d" % (j // 10), types=rts[j:j + 10], cpp=True, mode="bytes"))
    crs = []
    sigs = {}
    tries = 0
    while len(crs) < ctx.n(6, 30) and tries < 2000:
        tries += 1
        T = random_type(rng, False)
        if repr(T) not in seen and not collides(T, sigs):
            seen.add(repr(T))
            add_sigs(T, sigs)
            crs.append(T)
    mods.append(dict(name="c33crnd", types=crs, cpp=False, mode="bytes"))
    mods.append(dict(name="c33coll", types=list(COLLISION_PROBE), cpp=False, mode="bytes", probe=True))
    return mods


def tup(x):
    return tuple(tup(y) for y in x) if isinstance(x, list) else x


def node_at(node, path):
    for h in path:
        node = (node[2][h[1]][0 if h[0] == "k" else 1]) if isinstance(h, tuple) else node[2][h]
    return node


def gen_cases(ctx, T, mode):
    """sources: well-typed values, one bad node at every position, wrong shapes, wrong container kinds"""
    rng = ctx.rng
    out = []
    ngood = ctx.n(6, 25)
    trees = [gen_good(T, rng, mode) for _ in range(ngood)]
    for tr in trees:
        out.append(("good", src(tr)))
    for tr in trees[:ctx.n(3, 10)]:
        pos = list(nodes(tr))
        if len(pos) > ctx.n(14, 60):
            pos = [pos[0]] + rng.sample(pos[1:], ctx.n(13, 59))
        for path, nd in pos:
            bs = bad_sources(nd[0], mode)
            if path and node_at(tr, path[:-1])[1] in ("set", "fset"):
                # identity-hashed objects have no reproducible position in a Python set
                bs = [b for b in bs if b not in ("object()", "nan")]
            if bs:
                picks = bs if not path else rng.sample(bs, min(len(bs), ctx.n(3, 6)))
                for b in picks:
                    out.append(("bad-leaf" if nd[1] == "leaf" else "bad-node", src(replace(tr, path, [nd[0], "leaf", b]))))
            for v in shape_variants(nd, rng)[:ctx.n(4, 12)]:
                out.append(("shape", src(replace(tr, path, v))))
    # two bad positions (first error wins)
    for tr in trees[:ctx.n(2, 6)]:
        pos = [(p, nd) for p, nd in nodes(tr) if p and bad_sources(nd[0], mode)]
        if len(pos) >= 2:
            (p1, n1), (p2, n2) = rng.sample(pos, 2)
            if p1[:len(p2)] != p2 and p2[:len(p1)] != p1 and not any(
                    node_at(tr, p[:i])[1] in ("set", "fset") for p in (p1, p2) for i in range(len(p))):
                t2 = replace(replace(tr, p1, [n1[0], "leaf", rng.choice(bad_sources(n1[0], mode))]), p2,
                             [n2[0], "leaf", rng.choice(bad_sources(n2[0], mode))])
                out.append(("two-bad", src(t2)))
    seen = set()
    res = []
    for cls, s in out:
        if s not in seen:
            seen.add(s)
            res.append((cls, s))
    return res


CORPUS = [  # (type, mode, source): boundary cases seen while modelling
    (Map(Int(), Int()), "bytes", "{1: 2, 1.5: 3}"), (Map(Int(), Int()), "bytes", "{1.5: 3, 1: 2}"),
    (Map(STR, Int()), "utf8", "{b'a': 1, 'a': 2}"), (Map(STR, Int()), "utf8", "{'a': 2, b'a': 1}"),
    (Set(Int()), "bytes", "[3, 1, 3, 2, True]"), (Vec(Int()), "bytes", "''"), (Vec(Int()), "bytes", "{1: 'x', 2: 'y'}"),
    (CArr(Int(), 3), "bytes", "iter([])"), (CArr(Int(), 3), "bytes", "iter([1, 2, 3, 'x'])"),
    (CArr(Int(), 3), "bytes", "iter([1, 'x'])"), (CArr(Int(), 3), "bytes", "['x', 2]"), (CArr(Int(), 3), "bytes", "b'abc'"),
    (CTup(Int(), DBL), "bytes", "b'ab'"), (CTup(Int(), DBL), "bytes", "bytearray(b'ab')"), (CTup(Int(), DBL), "bytes", "'ab'"),
    (INNER, "bytes", "{'a': 'x'}"), (INNER, "bytes", "{b'a': 1, 'b': 2.0}"), (OUTER, "bytes", "{'inner': {'a': 'x', 'b': 2.5}, 'arr': (1, 2)}"),
    (UN2, "bytes", "{'i': 5}"), (UN2, "bytes", "{'i': 1, 'zz': 2}"), (UN2, "bytes", "['i']"), (UN2, "bytes", "'i'"), (UN2, "bytes", "b'i'"),
    (UN2, "bytes", "{'d': 'x', 'i': 1}"), (UN1, "bytes", "{'only': 5}"), (CSTR, "bytes", "b'a\\x00b'"), (STR, "bytes", "b'a\\x00b'"),
    (Pair(Int(), DBL), "bytes", "{1: 2, 3: 4}"), (Map(STR, Vec(DBL)), "bytes", "[(b'a', [1.0])]"), (Vec(Int()), "bytes", "[1.5]"),
    (Set(Vec(Int())), "bytes", "[[1, 2]]"), (STR, "ascii", "b'\\xff'"), (Map(Int(), Int()), "bytes", "[]"), (CArr(Int(), 3), "bytes", "[1, 2]"), (Map(Vec(Int()), Int()), "bytes", "{(1, 2): 3}"), (Set(Vec(Int())), "bytes", "[]"),
]


def encode_inputs(ctx, sources):
    """token encoding of every source value, evaluated in a child with the SAME hash seed as the implementation run"""
    helper = os.path.join(ctx.scratch, "c33_enc.py")
    if not os.path.exists(helper):
        with open(helper, "w") as f:
            f.write(ENC_SRC)
    env = lib._clean_env({"PYTHONHASHSEED": "0"})
    p = subprocess.run([lib.PYTHON, helper], input="\n".join(sources) + "\n", stdout=subprocess.PIPE, stderr=subprocess.PIPE,
                       text=True, env=env, timeout=600)
    out = p.stdout.split("\n")
    if out and out[-1] == "":
        out.pop()
    if p.returncode != 0 or len(out) != len(sources):
        raise lib.Infra("input encoder failed: rc=%s got %d of %d: %s" % (p.returncode, len(out), len(sources), p.stderr[-400:]))
    return out


def impl_outcome(raw):
    """run_cases line -> ('ok', tokens) | ('err', name) | ('crash', text)"""
    if raw.startswith("ok str:"):
        return "ok", ast.literal_eval(raw[len("ok str:"):])
    if raw.startswith("err "):
        return "err", raw[4:]
    return "crash", raw


def violation_key(T, probs, kind, cls, multi_union):
    kinds = [k for k, _ in probs]
    if kind == "accepted":
        return "accepted:" + kinds[0]
    if kind == "errclass":
        if cls == "AttributeError" and "map-nonmapping" in kinds:
            return "errclass:map-nonmapping->AttributeError"
        if cls == "IndexError" and "carray-length" in kinds:
            return "errclass:carray-length->IndexError"
        if cls in ("ValueError", "OverflowError") and "int-type:float" in kinds:
            return "errclass:int-type:float->" + cls
        return "errclass:%s->%s" % (kinds[0], cls)
    if kind == "roundtrip":
        return "union-to-py-reads-all-members" if multi_union else "roundtrip:" + T[0]
    if kind == "rejected":
        return "rejected:%s->%s" % (T[0], cls)
    return "crash:" + T[0]


def multi_member_union(T):
    from c33_types import children
    return (T[0] == "union" and len(T[2]) > 1) or any(multi_member_union(c) for c in children(T))


def match_other(a, b):
    """structural equality of decoded values where the model's `Other` (unknown union storage) matches anything"""
    if isinstance(a, c33_enc.Other):
        return True
    if isinstance(a, c33_enc.DictList):
        return (isinstance(b, c33_enc.DictList) and len(a) == len(b)
                and all(match_other(x[0], y[0]) and match_other(x[1], y[1]) for x, y in zip(a, b)))
    if isinstance(a, (list, tuple)):
        return type(a) is type(b) and len(a) == len(b) and all(match_other(x, y) for x, y in zip(a, b))
    return c33_enc.enc(a) == c33_enc.enc(b)


def build_all(ctx, mods):
    specs = []
    for m in mods:
        d = {"c_string_type": "str", "c_string_encoding": m["mode"]} if m["mode"] != "bytes" else {}
        m["source"] = module_source(m["types"], m["cpp"])
        specs.append(dict(name=m["name"], source=m["source"], cplus=m["cpp"], directives=d,
                          extra_files={"c33_enc.py": ENC_SRC}))
    res = cybuild.build_many(ctx, specs)
    for m, r in zip(mods, res):
        if isinstance(r, cybuild.BuildError):
            m["so"] = None
            ctx.tie_break("D-c build of %s (%s)" % (m["name"], r.stage), r.log[-300:],
                          {"module": m["source"][:4000], "types": [show(T) for T in m["types"]]})
        else:
            m["so"] = r


def map_from_py_repaired(ctx):
    """which model variant the CURRENT source is: `map.from_py` with the unchecked `o.items()` (pinned: a
    non-mapping raises AttributeError) or with a TypeError guard in front of it (repaired)"""
    v = ctx.notes.get("map_from_py_variant")
    if v is None:
        import re
        txt = open(os.path.join(ctx.stage, "Cython", "Utility", "CppConvert.pyx")).read()
        m = re.search(r"#+ map\.from_py #+(.*?)(?=\n#{10,} )", txt, re.S)
        sec = m.group(1) if m else ""
        v = "repaired" if re.search(r"raise\s+TypeError|RaiseUnexpectedTypeError", sec) else "pinned"
        ctx.notes["map_from_py_variant"] = v
    return v == "repaired"


def evaluate(ctx, mods, cases, oracle_only=False):
    """cases: list of (module index, k, T, mode, cls, src).  Three-way comparison of every case."""
    toks = encode_inputs(ctx, [c[5] for c in cases])
    live = [(c, t) for c, t in zip(cases, toks) if not t.startswith("!!")]
    op = "rtf" if map_from_py_repaired(ctx) else "rt"
    mout = ctx.drv.batch(["C33 %s %s %s | %s" % (op, c[3], tok_type(c[2]), t) for c, t in live])
    by_mod = {}
    for i, (c, t) in enumerate(live):
        by_mod.setdefault(c[0], []).append(i)
    iout = [None] * len(live)
    for mi, idxs in by_mod.items():
        so = mods[mi]["so"]
        if so is None:
            continue
        outs = cybuild.run_cases(ctx, so, [("call", "(%d, %s)" % (live[i][0][1], live[i][0][5])) for i in idxs],
                                 env_extra={"PYTHONHASHSEED": "0", "PYTHONPATH": ctx.stage + os.pathsep + os.path.dirname(so)})
        for i, o in zip(idxs, outs):
            iout[i] = o
    bad_types = set()
    for i, ((mi, k, T, mode, cls, s), tin) in enumerate(live):
        if iout[i] is None:
            continue
        kind, val = impl_outcome(iout[i])
        rep = {"T": T, "mode": mode, "src": s[:2000], "type": show(T), "impl": iout[i][:300]}
        inp = c33_enc.dec(tin)
        probs = []
        want = spec(T, inp, mode, probs)
        real = [p for p in probs if p[1] is not None]
        got = c33_enc.dec(val) if kind == "ok" else None
        mu = multi_member_union(T)
        # --- model vs implementation
        model = mout[i]
        probe = mods[mi].get("probe")
        if not oracle_only and not probe:
            if kind == "ok":
                agree = model.startswith("ok ")
                if agree:
                    try:
                        agree = (match_other(c33_enc.dec(model[3:]), got) if mu
                                 else canon(T, c33_enc.dec(model[3:])) == canon(T, got))
                    except ValueError:
                        agree = False
            elif kind == "err":
                agree = model == "err " + val
            else:
                agree = False
            if not agree:
                bad_types.add((mi, k))
                ctx.tie_break("D-c %s vs CyVerif.C33.roundTrip" % T[0],
                              "%s <- %s [%s]: model %s impl %s" % (show(T), s[:120], mode, model[:100], iout[i][:100]), rep)
        # --- implementation vs oracle (the property)
        outcome = "ok" if kind == "ok" else ("err:" + val if kind == "err" else "crash")
        ctx.count("%s/%s/%s" % (cls, T[0], outcome))
        ctx.seen((repr(T), mode, s), nontrivial=(cls != "good" or len(tin) > 12))
        ctx.sample({"type": show(T), "mode": mode, "input": s[:100], "impl": iout[i][:100], "model": model[:100],
                    "oracle": ("ok" if not real else "err " + "|".join(sorted(set().union(*[p[1] for p in real]))))})
        if probe:
            # two ctuple types that differ only by int/bint in ONE module (the model speaks about one type at a time)
            bad_here = (kind != "ok" or not oracle_same(T, want, got)) if not real else (kind == "ok")
            if bad_here:
                ctx.violation("ctuple-int-bint-cname-collision",
                              "module declaring (bint, bint) then (int, bint): %s <- %s gives %s" % (show(T), s[:100], iout[i][:100]),
                              dict(rep, module_types=[show(t) for t in mods[mi]["types"]]))
            continue
        if kind == "crash":
            ctx.violation(violation_key(T, probs, "crash", val, mu), "%s <- %s: %s" % (show(T), s[:150], val), rep)
            continue
        if any(p[0] == "dup-keys" for p in probs):
            ctx.count("oracle-skipped/dup-keys-after-conversion", 0)
            continue
        if kind == "err" and val == "TypeError" and real and all(p[0] == "unhashable-to-py" for p in real):
            ctx.violation("to-py-unhashable-element", "%s <- %s: converts, but to_py raises TypeError (unhashable list/dict "
                          "as set element / dict key)" % (show(T), s[:150]), rep)
            continue
        if not real:
            if kind == "err":
                ctx.violation(violation_key(T, probs, "rejected", val, mu),
                              "%s <- %s [%s]: well-typed value rejected with %s" % (show(T), s[:150], mode, val), rep)
            elif not oracle_same(T, want, got):
                ctx.violation(violation_key(T, probs, "roundtrip", None, mu),
                              "%s <- %s [%s]: round trip gives %s" % (show(T), s[:150], mode, val[:150]), rep)
        else:
            allowed = set().union(*[p[1] for p in real])
            if "ValueError" in allowed:
                allowed |= {"UnicodeEncodeError", "UnicodeDecodeError"}
            if kind == "ok":
                ctx.violation(violation_key(T, real, "accepted", None, mu),
                              "%s <- %s [%s]: %s yet converted to %s" % (show(T), s[:150], mode, real[0][0], val[:100]), rep)
            elif val not in allowed:
                ctx.violation(violation_key(T, real, "errclass", val, mu),
                              "%s <- %s [%s]: %s raises %s, not one of %s" % (show(T), s[:150], mode, real[0][0], val, sorted(allowed)), rep)
    return bad_types


def run(ctx):
    ctx.rule = ("per type T of the grammar (fixed list incl. vector[pair[int,string]], map[string,vector[double]], structs "
                "with nested structs/arrays, int[3], int[2][2], (int,double) ctuples, unions, std::complex, char*, plus seeded "
                "random types of depth<=3) seeded value trees: well-typed values in varying container kinds (list/tuple/"
                "iterator/set/frozenset/dict/bytes), one ill-typed or out-of-range value substituted at EVERY node position, "
                "wrong lengths, missing/extra keys, wrong container kinds (dict for vector, str, iterator, None, object()), two "
                "bad positions; c_string_type/encoding = default | str+ascii | str+utf8.  Non-trivial = everything except "
                "short well-typed leaves; distinct by (type, mode, source).")
    ctx.explanation = ("Theorems cover the conversion COMBINATORS over abstract leaves (round trip, all-or-nothing, error "
                       "classes, first-error) for every nesting depth.  Not covered by a theorem: the leaf conversions "
                       "themselves (C integer: C05; double/complex IEEE rounding; UTF-8 decode∘encode is imported from C10, "
                       "encode∘decode is a stated hypothesis), reference counting/memory of the generated code, the "
                       "selection logic in PyrexTypes (which template is instantiated for which type) — these are carried "
                       "by the differential leg only.  Objects with custom __iter__/__len__/items()/__index__ are not generated.")
    ctx.rule += ("  Composition leg: per group of types with coinciding C declarations, combined modules in both declaration "
                 "orders vs modules with a single type, all helper families, ~25 element values at each position.")
    ctx.explanation += ("  The theorems speak about one type at a time: that helpers generated for different element types do "
                        "not share a name inside a module is only searched (composition leg + helper-name obligation).")
    ctx.assumptions = ["Python set/dict iteration order seen by the implementation equals the order computed by the input "
                       "encoder (both children run with PYTHONHASHSEED=0)",
                       "unordered_set/unordered_map iteration order is not observable after to_py (results canonicalised)"]
    rc = getattr(ctx, "replay_case", None)
    import c33_compose
    if rc and "case" in rc and "compose_group" in rc["case"]:
        c33_compose.run_leg(ctx, only_group=rc["case"]["compose_group"])
        return
    if rc and "case" in rc and "T" in rc["case"]:
        c = rc["case"]
        T = tup(c["T"])
        mods = [dict(name="c33replay", types=[T], cpp=needs_cpp(T), mode=c["mode"])]
        build_all(ctx, mods)
        evaluate(ctx, mods, [(0, 0, T, c["mode"], "replay", c["src"])])
        return
    mods = plan_modules(ctx)
    build_all(ctx, mods)
    index = {}
    for mi, m in enumerate(mods):
        for k, T in enumerate(m["types"]):
            index.setdefault((repr(T), m["mode"]), (mi, k))
    cases = []
    for T, mode, s in CORPUS:
        if (repr(T), mode) in index:
            mi, k = index[(repr(T), mode)]
            cases.append((mi, k, T, mode, "corpus", s))
    for mi, m in enumerate(mods):
        if m.get("probe") and m["so"] is not None:
            for k, s in ((1, "(40, True)"), (1, "('x', 1)"), (1, "(2, False)"), (1, "(2**40, 0)"), (0, "(40, True)"), (0, "('x', [])")):
                cases.append((mi, k, m["types"][k], m["mode"], "collision-probe", s))
    for mi, m in enumerate(mods):
        if m["so"] is None or m.get("probe"):
            continue
        for k, T in enumerate(m["types"]):
            for cls, s in gen_cases(ctx, T, m["mode"]):
                cases.append((mi, k, T, m["mode"], cls, s))
    ctx.notes["modules"] = {m["name"]: [show(T) for T in m["types"]] for m in mods}
    bad = evaluate(ctx, mods, cases)
    if (bad or ctx.tie_breaks) and not ctx.violations:
        # broken correspondence: search harder (implementation vs oracle) around the disagreeing types
        ctx.budget_scale = 5.0
        more = []
        targets = bad or {(mi, k) for mi, m in enumerate(mods) if m["so"] for k in range(len(m["types"]))}
        for mi, k in sorted(targets):
            T = mods[mi]["types"][k]
            for cls, s in gen_cases(ctx, T, mods[mi]["mode"]):
                more.append((mi, k, T, mods[mi]["mode"], cls, s))
        evaluate(ctx, mods, more, oracle_only=True)
    c33_compose.run_leg(ctx)

"""C43 (partial) — the compiler never crashes and accepts all valid Python.

PROVED part: the LAYOUT layer of PyrexScanner (indentation stack, bracket nesting, INDENT/DEDENT/NEWLINE/EOF
production, tab/space rules, continuation lines, blank/comment lines) as a Lean model over abstract physical
lines, with a reference model of CPython's tokenizer.  Tie, three-way on every case: the REAL staged
PyrexScanner (in-process) / the Lean models (cydrv) / CPython's own tokenizer (`tokenize` + `compile()`).
SEARCHED part (no theorem): everything else of the property -> harness/props/c43_search.py.
"""
import io
import itertools
import os
import re
import tokenize
import warnings

import lib

WS = {"s": " ", "t": "\t", "f": "\f"}
OTHERS = ["x", "y1", "42", "+", ",", ":", "=", "a.b", "lambda", "if", "0x1f", "...", "->", "@", "**", "None",
          "1.5e3", "été", "else", "1_0"]
COMMENTS = ["", " c", " ( [ {", " ) ] }", " '\"", " tab\there", " back\\", "\f", " é"]
SEPS = [" ", " ", " ", "  ", "\t", " \f "]
KINDS = {"INDENT": "I", "DEDENT": "D", "NEWLINE": "N", "EOF": "E"}
CY_MSG = {"Mixed use of tabs and spaces": "Mixed", "Inconsistent indentation": "Inconsistent",
          "Unrecognized character": "Unrecognized"}


def collapse(s):
    return re.sub("o+", "o", s)


def cap(s, n=300):
    s = str(s)
    return s if len(s) <= n else s[:n] + "..."


def proto(lines):
    return " ".join("%s/%s/%s" % l for l in lines)


def truncate(lines):
    out = []
    for l in lines:
        out.append(l)
        if l[2] == "E":
            break
    return out


def render(lines, rng, eol="\n", strip_final=False):
    """abstract physical lines -> concrete source text (the abstraction of the result is `lines` again)"""
    out = []
    for ws, body, fin in lines:
        s = "".join(WS[c] for c in ws)
        toks = [rng.choice(OTHERS) if ch == "o" else ch for ch in body]
        for i, t in enumerate(toks):
            s += (rng.choice(SEPS) if i else "") + t
        if toks and rng.random() < 0.2:
            s += rng.choice((" ", "\t", "  "))
        if fin == "n":
            s += eol
        elif fin == "c":
            s += "#" + rng.choice(COMMENTS) + eol
        elif fin == "b":
            s += "\\" + eol
        else:
            s += "\\"
        out.append(s)
    text = "".join(out)
    # dropping the final newline keeps the abstraction only if the last line has visible content (an EMPTY last
    # line would simply disappear, which matters after a backslash-newline)
    last = lines[-1] if lines else None
    visible = last and (last[1] != "" or last[2] == "c" or (last[0] != "" and (len(lines) < 2 or lines[-2][2] != "b")))
    if strip_final and visible and last[2] in "nc" and text.endswith(eol):
        text = text[:-len(eol)]
    return text


class Real:
    """the staged PyrexScanner / parser, in-process"""

    def __init__(self, ctx):
        from Cython.Compiler import Main, Errors, Parsing, Scanning
        for m in (Main, Parsing, Scanning):
            if not (m.__file__.endswith(".py") and m.__file__.startswith(ctx.stage)):
                raise lib.Infra("not the staged pure-Python module: %s" % m.__file__)
        self.E, self.P, self.S = Errors, Parsing, Scanning
        self.cctx = Main.Context.from_options(Main.CompilationOptions(language_level=3))
        self.dir = os.path.join(ctx.scratch, "c43src")
        os.makedirs(self.dir, exist_ok=True)
        self.nfile = 0

        class Scope:
            included_files = []
        self.Scope = Scope

    def scanner(self, text, via_file=None, parse_comments=False):
        self.E.init_thread()
        self.E.open_listing_file(None, echo_to_stderr=False)
        if via_file is not None:
            from Cython import Utils
            self.nfile += 1
            path = os.path.join(self.dir, "m%d.py" % self.nfile)
            with open(path, "wb") as f:
                f.write(via_file)
            desc = self.S.FileSourceDescriptor(path)
            stream = Utils.open_source_file(path)
        else:
            desc = self.S.StringSourceDescriptor("c43.py", text)
            desc.set_file_type_from_name("c43.py")
            stream = io.StringIO(text)
        return self.S.PyrexScanner(stream, desc, source_encoding="UTF-8", context=self.cctx, scope=self.Scope(),
                                   parse_comments=parse_comments)

    def scan(self, text, via_file=None):
        out = []
        try:
            sc = self.scanner(text, via_file)
            n = 0
            while True:
                sy = sc.sy
                out.append(KINDS.get(sy) or (sy if sy in "()[]{}" and len(sy) == 1 else "o"))
                if sy == "EOF":
                    break
                n += 1
                if n > 200000:
                    return "exc NoProgress"
                sc.next()
            return "ok %s %d [%s]" % (collapse("".join(out)), sc.bracket_nesting_level,
                                      ",".join(map(str, sc.indentation_stack)))
        except self.E.CompileError as e:
            msg = CY_MSG.get(e.message_only, "Other:" + cap(e.message_only, 60))
            return "err %d %s" % (e.position[1], msg)
        except Exception as e:   # internal exception of the scanner: a violation of the property itself
            return "exc %s" % type(e).__name__

    def parse(self, text):
        try:
            sc = self.scanner(text)
            self.P.p_module(sc, 0, "c43m")
            n = self.E.get_errors_count()
            return "ok" if n == 0 else "err 0 %d non-fatal errors" % n
        except self.E.CompileError as e:
            return "err %d %s" % (e.position[1], cap(e.message_only, 80))
        except Exception as e:
            return "exc %s" % type(e).__name__


# ---------------------------------------------------------------------------------------------
# oracle: CPython's own C tokenizer, driven without the parser through `tokenize._generate_tokens_from_c_tokenizer`
# (`extra_tokens=False`, i.e. exactly what compile() runs: indentation, TabError, bracket and EOF errors, in order).

BRACKET_ERRS = (("unmatched '", "Unmatched"), ("does not match opening parenthesis", "Mismatch"),
                ("too many nested parentheses", "TooManyParens"))


def cpy_compile(src):
    with warnings.catch_warnings():
        warnings.simplefilter("ignore")
        try:
            compile(src, "<c43>", "exec")
            return None
        except SyntaxError as e:
            return e
        except (ValueError, RecursionError, MemoryError) as e:
            return e


def oracle(text, data=None):
    """CPython's C tokenizer itself, run without the parser (`extra_tokens=False`: bracket checks active)"""
    import token
    out = []
    brk = {token.LPAR: "(", token.RPAR: ")", token.LSQB: "[", token.RSQB: "]", token.LBRACE: "{", token.RBRACE: "}"}
    kinds = {token.INDENT: "I", token.DEDENT: "D", token.NEWLINE: "N", token.ENDMARKER: "E"}
    try:
        for t in tokenize._generate_tokens_from_c_tokenizer(io.StringIO(text).readline, extra_tokens=False):
            out.append(brk.get(t.type) or kinds.get(t.type, "o"))
        return "ok " + collapse("".join(out))
    except IndentationError as e:     # includes TabError
        if isinstance(e, TabError):
            return "err %d TabError" % e.lineno
        if "unindent does not match" in e.msg:
            return "err %d DedentMismatch" % e.lineno
        if "too many levels of indentation" in e.msg:
            return "err %d TooDeep" % e.lineno
        return "err %d Other:%s" % (e.lineno or 0, cap(e.msg, 60))
    except tokenize.TokenError as e:
        msg, line = str(e.args[0]), e.args[1][0]
        if "EOF in multi-line" in msg:
            return "err 0 EofInMulti"
        for pat, cls in BRACKET_ERRS:
            if pat in msg:
                return "err %d %s" % (line, cls)
        return "err %d Other:%s" % (line, cap(msg, 60))
    except SyntaxError as e:
        return "err %d Other:%s" % (e.lineno or 0, cap(e.msg, 60))


def norm_py(model_line):
    """model `py` output with the line number dropped where CPython's own position is not the line of the cause"""
    m = re.match(r"err (\d+) (\w+)$", model_line)
    if m and m.group(2) == "EofInMulti":
        return "err 0 EofInMulti"
    if model_line.startswith("ok "):
        return "ok " + collapse(model_line[3:])
    return model_line


def norm_cy(model_line):
    if model_line.startswith("ok "):
        p = model_line.split(" ")
        return "ok %s %s %s" % (collapse(p[1]), p[2], p[3])
    return model_line


# ---------------------------------------------------------------------------------------------
# the domain of the proved acceptance theorem (Props/C43.lean: `Uniform c` and `NoBareCont`)

def in_domain(lines):
    chars = set()
    for ws, body, fin in lines:
        chars |= set(ws)
        if body == "" and fin in "bE":
            return False
    return chars <= {"s"} or chars <= {"t"}


def features(lines):
    """which deliberately different layout feature an input uses (keys of the known findings)"""
    f = []
    inds = [ws for ws, body, fin in lines if not (body == "" and fin in "nc")]
    if any("f" in ws for ws in inds):
        f.append("formfeed-in-indentation")
    if any(body == "" and fin in "bE" for ws, body, fin in lines):
        f.append("leading-continuation-line")
    cs = set("".join(inds)) - {"f"}
    if len(cs) > 1:
        f.append("tabs-and-spaces")
    return f


# ---------------------------------------------------------------------------------------------
# three-way comparison of one batch of (kind, abstract lines, text, file-bytes-or-None)

def three_way(ctx, real, cases):
    req = []
    for kind, lines, text, data in cases:
        p = proto(lines)
        req.append("C43 cy " + p)
        req.append("C43 py " + p)
    out = ctx.drv.batch(req)
    for i, (kind, lines, text, data) in enumerate(cases):
        m_cy, m_py = norm_cy(out[2 * i]), norm_py(out[2 * i + 1])
        impl = real.scan(text, via_file=data)
        orc = oracle(text.replace("\r\n", "\n").replace("\r", "\n"), data)
        dom = in_domain(lines)
        ctx.count("%s/%s/%s" % (kind, "dom" if dom else "out", impl.split(" ")[0] + "-" + orc.split(" ")[0]))
        ctx.seen((kind, proto(lines), text), nontrivial=len(lines) > 1 or lines[0][1] != "")
        rep = {"leg": "layout", "kind": kind, "lines": [list(l) for l in lines], "text": text[:4000],
               "data_hex": data.hex()[:8000] if data else None}
        if kind in ("corpus", "program"):
            ctx.sample({"kind": kind, "text": cap(text, 120), "impl": cap(impl, 80), "model_cy": cap(m_cy, 80),
                        "cpython": cap(orc, 80), "model_py": cap(m_py, 80)})
        if impl.startswith("exc "):
            ctx.violation("scanner-internal-" + impl[4:], "PyrexScanner raised %s (not CompileError) on %r" % (impl[4:], cap(text, 200)), rep)
        if m_cy != impl:
            ctx.tie_break("D-py PyrexScanner layout vs CyVerif.C43.cyScan", "%r: model %s impl %s" % (cap(text, 120), cap(m_cy, 100), cap(impl, 100)), rep)
        if "INTERNAL" in m_cy:
            ctx.tie_break("model reached its internal-failure state", cap(text, 200), rep)
        if m_py != orc:
            ctx.tie_break("CPython tokenizer vs reference model CyVerif.C43.pyScan", "%r: model %s cpython %s" % (cap(text, 120), cap(m_py, 100), cap(orc, 100)), rep)
        if orc.startswith("ok "):
            sk = impl.split(" ")[1] if impl.startswith("ok ") else None
            if sk != orc[3:]:
                if dom:   # inside the domain of `acceptance_partial` the theorem says this cannot happen
                    ctx.violation("layout-skeleton-in-proved-domain", "CPython tokenizes %r as %s, PyrexScanner gives %s" % (cap(text, 150), cap(orc, 80), cap(impl, 80)), rep)
                else:
                    ctx.count("expected-difference/" + "+".join(features(lines)))


WITNESSES = [
    # (finding key, valid Python text that Cython's layout layer rejects or lays out differently)
    ("accept-layout-tabs-and-spaces", "x = 0\nif x:\n\tx = 1\nif x:\n        x = 2\n"),
    ("accept-layout-formfeed-in-indentation", "x = 0\nif x:\n\f    x = 1\n"),
    ("accept-layout-leading-continuation-line", "x = 0\n   \\\n\nx = 1\n"),
]


def acceptance(ctx, real, kind, lines, text):
    """full-parser acceptance: CPython compile() accepts => the staged parser accepts"""
    e = cpy_compile(text)
    if e is not None:
        ctx.count("program/cpython-rejects")
        return
    got = real.parse(text)
    ctx.count("program/" + got.split(" ")[0])
    if got == "ok":
        return
    # classify by the cause: the scanner's own message and the excluded feature that is present; a rejection whose
    # token skeleton equals CPython's is not a layout difference at all -> key `other` (never a listed finding)
    fs = features(lines)
    impl, orc = real.scan(text), oracle(text)
    same = impl.startswith("ok ") and orc.startswith("ok ") and impl.split(" ")[1] == orc[3:]
    if same:
        fs = ["other-same-skeleton"]
    elif "Mixed use" in got:
        fs = ["tabs-and-spaces"] if "tabs-and-spaces" in fs else ["other-mixed"]
    else:
        fs = [f for f in fs if f != "tabs-and-spaces"] or ["other"]
    rep ={"leg": "layout", "kind": "program", "lines": [list(l) for l in lines], "text": text[:4000], "data_hex": None}
    if got.startswith("exc "):
        ctx.violation("parser-internal-" + got[4:], "parser raised %s on %r" % (got[4:], cap(text, 200)), rep)
    else:
        ctx.violation("accept-layout-" + fs[0], "CPython compiles %r; Cython: %s" % (cap(text, 200), cap(got, 120)), rep)


def variant_cases(rng, kind, lines):
    """the same abstract stream as LF text, and sometimes as a CRLF / CR file or without the final newline"""
    lines = truncate(lines)
    r = rng.random()
    if r < 0.12:
        eol = rng.choice(("\r\n", "\r"))
        text = render(lines, rng, eol=eol, strip_final=rng.random() < 0.3)
        return (kind + "-file", lines, text, text.encode("utf-8"))
    return (kind, lines, render(lines, rng, strip_final=rng.random() < 0.15), None)


def run(ctx):
    from props import c43_gen as G
    from props import c43_search
    real = Real(ctx)
    rng = ctx.rng
    ctx.rule = ("abstract physical-line streams (leading run of space/tab/form-feed; body of open/close brackets of 3 kinds and "
                "other tokens; end = newline | comment | backslash-newline | backslash-EOF): hand corpus, depth-limit cases, "
                "ALL 2-line streams over a 96-letter line alphabet, seeded random streams that follow a plausible indentation "
                "stack, program-shaped streams rendered as valid Python; each rendered to concrete text (LF, CRLF/CR via a "
                "real file, with/without final newline). non-trivial = more than one line or a non-empty body; distinct by "
                "(stream, text)")
    ctx.explanation = ("Theorems cover ONLY the layout layer of the scanner (indentation stack, bracket nesting, "
                       "INDENT/DEDENT/NEWLINE/EOF, tab/space rules, continuation and blank/comment lines): totality without "
                       "internal failure, INDENT/DEDENT balance, and acceptance of everything CPython's tokenizer accepts "
                       "(same token skeleton) for uniformly indented input. Everything else of C43 (parser, transforms, code "
                       "generation, C compiler acceptance, literals, strings, f-strings) has NO theorem: it is searched by "
                       "grammar-generated / mutated / literal-focused programs compiled in child processes.")
    ctx.assumptions = ["Plex (the scanner generator) delivers the Lexicon.py rules as written (property C50)",
                       "strings / f-strings / numbers are opaque 'other' tokens in the layout model"]
    case = (ctx.replay_case or {}).get("case") if ctx.replay_case else None
    if case and case.get("leg") == "search":
        return c43_search.run_search(ctx)
    if case and case.get("leg") == "layout":
        lines = [tuple(l) for l in case["lines"]]
        data = bytes.fromhex(case["data_hex"]) if case.get("data_hex") else None
        if lines:
            three_way(ctx, real, [(case.get("kind", "replay"), lines, case["text"], data)])
        if case.get("kind") in ("program", "witness"):
            acceptance(ctx, real, "program", lines, case["text"])
        return
    # 1. corpus, limits
    cases = []
    for name, lines in G.CORPUS + G.deep_cases():
        cases.append(("corpus", truncate(lines), render(truncate(lines), rng), None))
        t = render(truncate(lines), rng, eol="\r\n")
        cases.append(("corpus-file", truncate(lines), t, t.encode()))
    three_way(ctx, real, cases)
    # 2. exhaustive small streams
    # (quick tier: a seeded third of them; thorough: all, also behind a block header)
    allx = [truncate(l) for l in G.exhaustive(2, header=False)]
    if ctx.quick:
        allx = rng.sample(allx, 2500)
    cases = [("exh2", l, render(l, rng), None) for l in allx]
    if not ctx.quick:
        cases += [("exh2h", truncate(l), render(truncate(l), rng), None) for l in G.exhaustive(2, header=True)]
    three_way(ctx, real, cases)
    # 3. random streams
    cases = [variant_cases(rng, "soup", G.soup(rng)) for _ in range(ctx.n(2500, 60000))]
    three_way(ctx, real, cases)
    # 4. program-shaped streams: token level + full-parser acceptance against compile()
    cases = []
    progs = []
    for i in range(ctx.n(300, 8000)):
        pl = G.program(rng, exotic=(i % 3 == 0))
        text = G.program_text(pl, strip_final=rng.random() < 0.1)
        al = G.program_abstract(pl)
        cases.append(("program", al, text, None))
        progs.append((al, text))
    three_way(ctx, real, cases)
    for al, text in progs:
        acceptance(ctx, real, "program", al, text)
    # 5. the witnesses of the counterexample theorems, through the COMPLETE compiler in a child process
    witnesses(ctx, real)
    # 5b. string-literal PREFIX table (search only, no theorem): every prefix over rRbBuUfFtTcC up to length 2 (3 in the
    # thorough tier) x three quote forms; whatever CPython's compile() accepts the staged parser must accept.
    for k in range(0, 3 if ctx.quick else 4):
        for p in itertools.product("rRbBuUfFtTcC", repeat=k):
            p = "".join(p)
            for q in ("''", '"a"', "'''a\nb'''"):
                text = "x = %s%s\n" % (p, q)
                cp = cpy_compile(text) is None
                cy = real.parse(text)
                ctx.count("prefix/%s-%s" % ("cpy-ok" if cp else "cpy-rej", cy.split(" ")[0]))
                ctx.seen(("prefix", text))
                if cy.startswith("exc ") or (cp and cy != "ok"):
                    ctx.violation("string-prefix-" + (p.lower() or "none"), "CPython %s %r; Cython parser: %s" % ("accepts" if cp else "rejects", text, cap(cy, 100)),
                                  {"leg": "layout", "kind": "program", "lines": [], "text": text, "data_hex": None})
    # 6. search leg for the rest of the property (no theorem).  VERIF_C43_LEGS=layout is a development aid only
    # (mutation tests of Scanning.py on an overloaded machine); the evidence says so when it is used.
    if os.environ.get("VERIF_C43_LEGS", "all") == "layout":
        ctx.notes["search-leg"] = "SKIPPED by VERIF_C43_LEGS=layout (development aid; not a full check)"
        return
    # corpus first: minimised past failures of the search leg, each re-run through the complete compiler
    import glob
    import json
    for fn in sorted(glob.glob(os.path.join(lib.VERIF, "corpus", "C43", "*.json"))):
        rc = json.load(open(fn))
        if rc.get("case", {}).get("leg") == "search":
            ctx.replay_case = rc
            try:
                c43_search.run_search(ctx)
            finally:
                ctx.replay_case = None
            ctx.count("corpus/" + os.path.basename(fn))
    if os.environ.get("VERIF_C43_SEARCH_BUDGET"):      # seconds; default 75 (quick) / 600 (thorough)
        ctx.notes["search_budget_s"] = float(os.environ["VERIF_C43_SEARCH_BUDGET"])
    if ctx.quick and not os.environ.get("VERIF_C43_SEARCH_BUDGET"):
        # Quick tier: the search leg is a FIXED regression corpus - the generators are driven by a fixed seed and the wall
        # budget is generous, so the same programs are judged on every run whatever VERIF_SEED and the machine load are
        # (an open-ended random search whose result depends on the seed cannot be a per-change check: every new seed
        # finds further unsupported constructs).  The seed-dependent search is the thorough tier.
        import random
        saved = ctx.rng
        ctx.rng = random.Random(4343)
        ctx.notes["search_budget_s"] = 900.0
        ctx.notes["search_leg_seed"] = "fixed (4343) in the quick tier; VERIF_SEED drives it in the thorough tier"
        try:
            c43_search.run_search(ctx)
        finally:
            ctx.rng = saved
        return
    c43_search.run_search(ctx)


def witnesses(ctx, real):
    import cybuild
    specs = [{"name": "c43w%d" % i, "source": text, "ext": ".py"} for i, (key, text) in enumerate(WITNESSES)]
    res = cybuild.build_many(ctx, specs)
    for (key, text), r in zip(WITNESSES, res):
        cp = cpy_compile(text)
        ctx.count("witness/" + key)
        rep = {"leg": "layout", "kind": "witness", "text": text, "data_hex": None,
               "lines": [list(l) for l in text_abstract(text)]}
        if cp is not None:
            ctx.tie_break("witness no longer valid Python", "%r: %s" % (text, cap(cp, 100)), rep)
        elif isinstance(r, cybuild.BuildError):
            if r.stage != "cython":
                ctx.violation("witness-cc-" + key, "generated C rejected for %r: %s" % (text, cap(r.log[-200:], 200)), rep)
            else:
                msg = [l for l in r.log.splitlines() if re.match(r".*:\d+:\d+: ", l)]
                ctx.violation(key, "CPython compiles %r; Cython: %s" % (text, cap(msg[0] if msg else r.log[-150:], 160)), rep)
        else:
            ctx.notes["witness-fixed/" + key] = "witness no longer reproduces (defect fixed): %r compiles" % text


def text_abstract(text):
    out = []
    inv = {" ": "s", "\t": "t", "\f": "f"}
    for ln in text.split("\n")[:-1]:
        m = re.match(r"[ \t\f]*", ln)
        rest = ln[m.end():]
        fin = "n"
        if rest.endswith("\\"):
            fin, rest = "b", rest[:-1]
        body = "".join(t if t in "()[]{}" else "o" for t in re.findall(r"[()\[\]{}]|[^()\[\]{}\s]+", rest))
        out.append(("".join(inv[c] for c in m.group()), collapse(body), fin))
    return out

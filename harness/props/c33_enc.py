"""C33 token encoding of Python values (shared by harness, input-encoding helper child and the built modules).

enc(obj, sort_sets) -> token string; dec(tokens) -> Python object (iterators become `Gen`, object() becomes `Other`).
Run as a script (PYTHONHASHSEED=0): reads Python expressions from stdin, prints the token encoding of each value
with sets/dicts in their REAL iteration order (the order the implementation will see in a child with the same seed).
"""
import struct
import sys

_ITER_TYPES = (type(iter([])), type(iter(())), type(x for x in ()))


class Gen(list):
    """decoded stand-in for an iterator without len"""


class Other:
    def __repr__(self):
        return "object()"

    def __eq__(self, o):
        return isinstance(o, Other)

    def __hash__(self):
        return 7


def fbits(x):
    return struct.unpack("<Q", struct.pack("<d", x))[0]


def bits2f(b):
    return struct.unpack("<d", struct.pack("<Q", b))[0]


def _hex(b):
    return bytes(b).hex() if len(b) else "-"


def _sorted(xs):
    try:
        return sorted(xs)
    except TypeError:
        return sorted(xs, key=lambda v: enc(v, True))


def enc(o, sort_sets=False):
    out = []
    _enc(o, sort_sets, out)
    return " ".join(out)


def _enc(o, ss, out):
    t = type(o)
    if t is bool:
        out.append("T" if o else "F")
    elif t is int:
        out.append("i%d" % o)
    elif t is float:
        out.append("f%d" % fbits(o))
    elif t is complex:
        out.append("c%d,%d" % (fbits(o.real), fbits(o.imag)))
    elif t is bytes:
        out.append("y" + _hex(o))
    elif t is bytearray:
        out.append("Y" + _hex(o))
    elif t is str:
        out.append("u" + ".".join(str(ord(c)) for c in o))
    elif t is list or t is tuple or t is Gen:
        out.append(("g" if t is Gen else "l" if t is list else "t") + str(len(o)))
        for x in o:
            _enc(x, ss, out)
    elif t is set or t is frozenset:
        xs = _sorted(o) if ss else list(o)
        out.append(("s" if t is set else "z") + str(len(xs)))
        for x in xs:
            _enc(x, ss, out)
    elif t is dict:
        out.append("d%d" % len(o))
        for k, v in o.items():
            _enc(k, ss, out)
            _enc(v, ss, out)
    elif o is None:
        out.append("n")
    elif t in _ITER_TYPES:
        xs = list(o)
        out.append("g%d" % len(xs))
        for x in xs:
            _enc(x, ss, out)
    else:
        out.append("o")


def dec(s):
    toks = s.split()
    v, i = _dec(toks, 0)
    if i != len(toks):
        raise ValueError("trailing tokens in %r" % s[:80])
    return v


def _dec(toks, i):
    tok = toks[i]
    h, a = tok[0], tok[1:]
    i += 1
    if h == "i":
        return int(a), i
    if h == "T":
        return True, i
    if h == "F":
        return False, i
    if h == "n":
        return None, i
    if h == "o":
        return Other(), i
    if h == "f":
        return bits2f(int(a)), i
    if h == "c":
        re, im = a.split(",")
        return complex(bits2f(int(re)), bits2f(int(im))), i
    if h in "yY":
        b = b"" if a == "-" else bytes.fromhex(a)
        return (b if h == "y" else bytearray(b)), i
    if h == "u":
        return "".join(chr(int(c)) for c in a.split(".")) if a else "", i
    if h in "ltszg":
        xs = []
        for _ in range(int(a)):
            v, i = _dec(toks, i)
            xs.append(v)
        if h == "l":
            return xs, i
        if h == "t":
            return tuple(xs), i
        if h == "g":
            return Gen(xs), i
        return (SetList(xs, h == "z")), i
    if h == "d":
        kv = []
        for _ in range(int(a)):
            k, i = _dec(toks, i)
            v, i = _dec(toks, i)
            kv.append((k, v))
        return DictList(kv), i
    raise ValueError("bad token %r" % tok)


class SetList(list):
    """decoded set: element list in encoded order (elements may be unhashable stand-ins)"""
    def __init__(self, xs, frozen=False):
        super().__init__(xs)
        self.frozen = frozen


class DictList(list):
    """decoded dict: list of (key, value) in encoded order"""


if __name__ == "__main__":
    env = {"inf": float("inf"), "nan": float("nan")}
    for line in sys.stdin:
        line = line.rstrip("\n")
        if not line:
            continue
        try:
            sys.stdout.write(enc(eval(line, env), False) + "\n")
        except BaseException as e:  # noqa
            sys.stdout.write("!! %s\n" % type(e).__name__)
    sys.stdout.flush()

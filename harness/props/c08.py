"""C08 — C complex arithmetic (Complex.c, CComplexType, DivNode on complex) vs Python complex.

Three legs on every case: implementation = modules compiled by the staged compiler + gcc
(-DCYTHON_CCOMPLEX=0 and =1, cdivision on/off), model = the Lean expression trees evaluated by cydrv on
hardware doubles (bit for bit where no libm call is involved), oracle = CPython's complex arithmetic in this
process.  For CYTHON_CCOMPLEX=1 there is no Lean model (gcc's __muldc3/__divdc3, libm cabs/cpow): the second
leg is a C transcription of the macros of Complex.c compiled directly by gcc.
"""
import ctypes
import json
import math
import os
import struct
import subprocess
import sys

import cybuild
import lib

inf = float("inf")
nan = float("nan")
TINY = 5e-324
SMALL = 1e-300
HUGE = 1e308
REPS = [nan, inf, -inf, 0.0, -0.0, TINY, -TINY, 1.0, -1.0, 1.5, -1.5, HUGE, -HUGE]
REPS_X = REPS + [SMALL, -SMALL, 3.0, -2.0, 1e154, -1e200, 0.1, 1.7976931348623157e308]
# exponent components for `**`
EXP_RE = [0.0, -0.0, 1.0, 2.0, 3.0, 4.0, 5.0, 6.0, 100.0, 101.0, -1.0, -2.0, -3.0, -4.0, -5.0, -100.0, -101.0, 0.5, -0.5,
          2.5, 1.5, -1.5, 1e10, 2147483648.0, -2147483648.0, 2147483647.0, 4294967296.0, 1e308, -1e308, TINY, -TINY,
          nan, inf, -inf]
EXP_IM = [0.0, -0.0, 1.0, -1.5, TINY, nan, inf, -inf, HUGE]


def bits(x):
    return "nan" if x != x else struct.pack(">d", x).hex()


def unbits(h):
    return nan if h == "nan" else struct.unpack(">d", bytes.fromhex(h))[0]


def f32ok(x):
    if x != x or x in (inf, -inf):
        return True
    try:
        return struct.unpack(">f", struct.pack(">f", x))[0] == x
    except OverflowError:
        return False


def bits32(x):
    if x != x:
        return "nan"
    try:
        if struct.unpack(">f", struct.pack(">f", x))[0] != x:
            return "wide:" + bits(x)
        return struct.pack(">f", x).hex()
    except OverflowError:
        return "wide:" + bits(x)


def unbits32(h):
    return nan if h == "nan" else struct.unpack(">f", bytes.fromhex(h))[0]


MODULE = r'''
# cython: language_level=3
def d_sum(double complex a, double complex b): return a + b
def d_diff(double complex a, double complex b): return a - b
def d_prod(double complex a, double complex b): return a * b
def d_div(double complex a, double complex b): return a / b
def d_pow(double complex a, double complex b): return a ** b
def d_eq(double complex a, double complex b): return a == b
def d_ne(double complex a, double complex b): return a != b
def d_abs(double complex a): return abs(a)
def d_conj(double complex a): return a.conjugate()
def d_neg(double complex a): return -a
def d_id(double complex a): return a
def d_parts(double complex a): return (a.real, a.imag)
def d_mk(double x, double y):
    cdef double complex z
    z.real = x
    z.imag = y
    return z
def d_bool(double complex a): return bool(a)
def d_divr(double complex a, double b): return a / b
def d_rdiv(double a, double complex b): return a / b
def d_powi(double complex a, int n): return a ** n
def d_pow2(double complex a): return a ** 2
def d_idiv(double complex a, double complex b):
    a /= b
    return a
def d_conv(object o):
    cdef double complex z = o
    return z
def f_sum(float complex a, float complex b): return a + b
def f_diff(float complex a, float complex b): return a - b
def f_prod(float complex a, float complex b): return a * b
def f_div(float complex a, float complex b): return a / b
def f_pow(float complex a, float complex b): return a ** b
def f_eq(float complex a, float complex b): return a == b
def f_abs(float complex a): return abs(a)
def f_conj(float complex a): return a.conjugate()
def f_neg(float complex a): return -a
def f_id(float complex a): return a
def f_conv(object o):
    cdef float complex z = o
    return z
def soft_pow(double a, double b): return a ** b
def soft_pow_d(double a, double b):
    cdef double r = a ** b
    return r
'''

RUNNER = r'''
import sys, struct, importlib.util
so, modname = sys.argv[1], sys.argv[2]
spec = importlib.util.spec_from_file_location(modname, so)
mod = importlib.util.module_from_spec(spec); sys.modules[modname] = mod; spec.loader.exec_module(mod)
nan = float("nan")
def ub(h):
    return nan if h == "nan" else struct.unpack(">d", bytes.fromhex(h))[0]
def b(x):
    return "nan" if x != x else struct.pack(">d", x).hex()
def canon(r):
    if isinstance(r, bool): return "ok %d" % r
    if isinstance(r, complex): return "ok %s %s" % (b(r.real), b(r.imag))
    if isinstance(r, float): return "ok %s" % b(r)
    if isinstance(r, tuple): return "ok " + " ".join(b(x) for x in r)
    return "ok ?" + type(r).__name__
out = []
for line in sys.stdin:
    p = line.split()
    if not p: continue
    f = getattr(mod, p[0]); k = p[1]; v = [ub(h) for h in p[2:]]
    try:
        if k == "cc": r = f(complex(v[0], v[1]), complex(v[2], v[3]))
        elif k == "c": r = f(complex(v[0], v[1]))
        elif k == "cr": r = f(complex(v[0], v[1]), v[2])
        elif k == "rc": r = f(v[0], complex(v[1], v[2]))
        elif k == "ci": r = f(complex(v[0], v[1]), int(v[2]))
        elif k == "rr": r = f(v[0], v[1])
        else: r = None
        out.append(canon(r))
    except BaseException as e:
        out.append("err " + type(e).__name__)
sys.stdout.write("\n".join(out) + "\n")
'''

# C transcription of the CYTHON_CCOMPLEX=1 macros of Complex.c (Declarations: from_parts; Arithmetic.proto)
CREF = r'''
#include <complex.h>
#include <math.h>
typedef double _Complex dc;
static dc from_parts(double x, double y) { return FROM_PARTS; }
void ref_batch(int op, int n, const double *in, double *out) {
  for (int i = 0; i < n; i++) {
    dc a = from_parts(in[4*i], in[4*i+1]), b = from_parts(in[4*i+2], in[4*i+3]), z = 0;
    switch (op) {
      case 0: z = a + b; break;
      case 1: z = a - b; break;
      case 2: z = a * b; break;
      case 3: z = a / b; break;
      case 4: z = cpow(a, b); break;
      case 5: z = (a == b); break;
      case 6: z = cabs(a); break;
      case 7: z = conj(a); break;
      case 8: z = -a; break;
      case 9: z = a; break;
      case 10: z = (a == 0); break;
    }
    out[2*i] = __real__(z); out[2*i+1] = __imag__(z);
  }
}
'''
REF_OPS = {"sum": 0, "diff": 1, "prod": 2, "div": 3, "pow": 4, "eq": 5, "abs": 6, "conj": 7, "neg": 8, "id": 9, "iszero": 10}


def build_cref(ctx, from_parts_expr, opt="-O0"):
    d = os.path.join(ctx.scratch, "cref" + opt)
    os.makedirs(d, exist_ok=True)
    src = os.path.join(d, "cref.c")
    with open(src, "w") as f:
        f.write(CREF.replace("FROM_PARTS", from_parts_expr))
    so = os.path.join(d, "cref.so")
    p = subprocess.run(["gcc", opt, "-shared", "-fPIC", "-w", src, "-o", so, "-lm"], stdout=subprocess.PIPE,
                       stderr=subprocess.STDOUT, text=True)
    if p.returncode != 0:
        raise lib.Infra("cref build failed: " + p.stdout[-500:])
    L = ctypes.CDLL(so)
    L.ref_batch.argtypes = [ctypes.c_int, ctypes.c_int, ctypes.POINTER(ctypes.c_double), ctypes.POINTER(ctypes.c_double)]
    L.ref_batch.restype = None
    return L


def cref_run(L, op, cases):
    n = len(cases)
    flat = []
    for c in cases:
        c = tuple(c) + (0.0, 0.0)
        flat.extend(c[:4])
    inp = (ctypes.c_double * (4 * n))(*flat)
    out = (ctypes.c_double * (2 * n))()
    L.ref_batch(REF_OPS[op], n, inp, out)
    return [(out[2 * i], out[2 * i + 1]) for i in range(n)]


def run_impl(ctx, so, lines):
    """lines: 'func kind hex...' -> outcome strings"""
    runner = os.path.join(ctx.scratch, "c08runner.py")
    if not os.path.exists(runner):
        with open(runner, "w") as f:
            f.write(RUNNER)
    modname = os.path.basename(so).split(".")[0]
    p = subprocess.run([lib.PYTHON, runner, so, modname], input="\n".join(lines) + "\n", stdout=subprocess.PIPE,
                       stderr=subprocess.PIPE, text=True, env=lib._clean_env({"PYTHONPATH": ctx.stage}), timeout=1200)
    out = p.stdout.split("\n")
    if out and out[-1] == "":
        out.pop()
    if p.returncode != 0 or len(out) != len(lines):
        return None, "rc=%s %s" % (p.returncode, p.stderr[-300:])
    return out, ""


# ---------------------------------------------------------------- oracle: CPython complex arithmetic

def oracle(op, a, b=None):
    try:
        if op == "sum": r = a + b
        elif op == "diff": r = a - b
        elif op == "prod": r = a * b
        elif op in ("div", "idiv"): r = a / b
        elif op == "pow": r = a ** b
        elif op == "eq": r = a == b
        elif op == "ne": r = a != b
        elif op == "abs":
            # _Py_c_abs returns NaN WITHOUT touching errno when a part is NaN and none is infinite, and complex_abs reads
            # errno afterwards: CPython's own outcome depends on a stale errno there; the defined outcome is NaN
            if (a.real != a.real or a.imag != a.imag) and abs(a.real) != inf and abs(a.imag) != inf:
                return "ok nan"
            r = abs(a)
        elif op == "conj": r = a.conjugate()
        elif op == "neg": r = -a
        elif op == "id": r = a
        elif op == "bool": r = bool(a)
        else: raise KeyError(op)
    except (ZeroDivisionError, OverflowError) as e:
        return "err " + type(e).__name__
    return canon(r)


def canon(r):
    if isinstance(r, bool):
        return "ok %d" % r
    if isinstance(r, complex):
        return "ok %s %s" % (bits(r.real), bits(r.imag))
    if isinstance(r, float):
        return "ok " + bits(r)
    if isinstance(r, tuple):
        return "ok " + " ".join(bits(x) for x in r)
    return "ok ?" + type(r).__name__


def vals(outcome):
    """'ok h h' -> list of floats (None for err)"""
    if not outcome.startswith("ok "):
        return None
    try:
        return [unbits(h) if (h == "nan" or len(h) == 16) else float(int(h)) for h in outcome.split()[1:]]
    except ValueError:
        return None


def kind_of(impl, orc):
    """classify a difference between two outcome strings"""
    if orc.startswith("err "):
        return (orc[4:] + "-not-raised") if impl.startswith("ok") else ("raises-" + impl[4:] + "-want-" + orc[4:])
    if not impl.startswith("ok"):
        return "spurious-" + impl.split()[-1]
    x, y = vals(impl), vals(orc)
    if x is None or y is None or len(x) != len(y):
        return "shape"
    sev = 0
    scale = max([abs(v) for v in y if v == v and abs(v) != inf] + [0.0])
    for u, v in zip(x, y):
        if bits(u) == bits(v):
            continue
        if (u != u) != (v != v):
            sev = max(sev, 4)
        elif (abs(u) == inf) != (abs(v) == inf) or (abs(u) == inf and u != v):
            sev = max(sev, 3)
        elif u == v:                       # +0 / -0
            sev = max(sev, 1)
        elif abs(u - v) <= 1e-12 * max(scale, abs(v)):
            sev = max(sev, 2)
        else:
            sev = max(sev, 5)
    return {0: "same", 1: "zerosign", 2: "rounding", 3: "inf", 4: "nan", 5: "value"}[sev]


def close(o1, o2, rel=1e-9):
    if o1 == o2:
        return True
    x, y = vals(o1), vals(o2)
    if x is None or y is None or len(x) != len(y):
        return False
    scale = max([abs(v) for v in y if v == v and abs(v) != inf] + [0.0])
    for u, v in zip(x, y):
        if bits(u) == bits(v) or (u == v):
            continue
        if u != u or v != v or abs(u) == inf or abs(v) == inf:
            return False
        if abs(u - v) > rel * max(scale, abs(v)) + 1e-322:
            return False
    return True


# ---------------------------------------------------------------- case generation

def rnd_component(rng):
    r = rng.random()
    if r < 0.3:
        return rng.choice(REPS_X)
    if r < 0.7:
        return math.ldexp(rng.uniform(1.0, 2.0), rng.randint(-12, 12)) * rng.choice((1, -1))
    if r < 0.85:
        return struct.unpack(">d", struct.pack(">Q", rng.getrandbits(64)))[0]
    return float(rng.randint(-6, 6))


def binary_cases(ctx, nrand):
    cases = [(a, b, c, d) for a in REPS for b in REPS for c in REPS for d in REPS]
    for _ in range(nrand):
        cases.append(tuple(rnd_component(ctx.rng) for _ in range(4)))
    return cases


def pow_cases(ctx, nrand):
    cases = [(a, b, c, d) for a in REPS for b in REPS for c in EXP_RE for d in EXP_IM]
    for _ in range(nrand):
        a, b = rnd_component(ctx.rng), rnd_component(ctx.rng)
        r = ctx.rng.random()
        if r < 0.5:
            c, d = float(ctx.rng.randint(-8, 8)), ctx.rng.choice((0.0, -0.0))
        elif r < 0.8:
            c, d = rnd_component(ctx.rng), ctx.rng.choice((0.0, 0.0, 1.0, -0.5))
        else:
            c, d = rnd_component(ctx.rng), rnd_component(ctx.rng)
        cases.append((a, b, c, d))
    return cases


def unary_cases(ctx, nrand):
    cases = [(a, b) for a in REPS_X for b in REPS_X]
    for _ in range(nrand):
        cases.append((rnd_component(ctx.rng), rnd_component(ctx.rng)))
    return cases


def quot_branch(c):
    br, bi = c[2], c[3]
    if bi == 0:
        return "bimag0"
    if abs(br) >= abs(bi):
        return "brealge"
    if br != br or bi != bi:
        return "bnan"
    return "bimaggt"


def moderate(c):
    return all(v == 0 or (v == v and 1e-6 <= abs(v) <= 1e6) for v in c)


LIBM_PATHS = ("polar", "realpow")

# op -> (impl function, arg kind, model cy op (None: no model), oracle op)
BIN_OPS = {
    "sum": ("d_sum", "cc", "cy_sum", "sum"), "diff": ("d_diff", "cc", "cy_diff", "diff"),
    "prod": ("d_prod", "cc", "cy_prod", "prod"), "div": ("d_div", "cc", "cy_div", "div"),
    "idiv": ("d_idiv", "cc", "cy_div", "div"), "pow": ("d_pow", "cc", "cy_pow_h", "pow"),
    "eq": ("d_eq", "cc", "cy_eq", "eq"),
}
UN_OPS = {
    "abs": ("d_abs", "c", "cy_abs_h", "abs"), "conj": ("d_conj", "c", "cy_conj", "conj"),
    "neg": ("d_neg", "c", "cy_neg", "neg"), "id": ("d_id", "c", None, "id"),
}


def strip_path(m):
    """'ok polar h h' -> ('polar', 'ok h h')"""
    p = m.split()
    if len(p) == 4 and p[0] == "ok":
        return p[1], "ok %s %s" % (p[2], p[3])
    return "", m


class Cfg:
    def __init__(self, name, cc, cdiv, so):
        self.name, self.cc, self.cdiv, self.so = name, cc, cdiv, so
        self.key = "cc%d" % cc
        self.soft = not cdiv        # the cdivision builds also set cpow=True


def hexargs(c):
    return " ".join("7ff8000000000000" if v != v else bits(v) for v in c)


def soften(o):
    """__pyx_Py_FromSoftComplex: 'ok re im' -> 'ok re' when the imaginary part is (+-)0"""
    p = o.split()
    if len(p) == 3 and p[0] == "ok" and p[2] in ("0000000000000000", "8000000000000000"):
        return "ok " + p[1]
    return o


def harden(impl, orc):
    """a float returned where Python returns a complex: compare as complex(x, <oracle's zero or +0>)"""
    p, q = impl.split(), orc.split()
    if len(p) == 2 and p[0] == "ok":
        im = q[2] if (len(q) == 3 and q[2] in ("0000000000000000", "8000000000000000")) else "0000000000000000"
        return "ok %s %s" % (p[1], im)
    return impl


def extract_from_parts(ctx):
    import re
    txt = open(os.path.join(ctx.stage, "Cython", "Utility", "Complex.c")).read()
    m = re.search(r"/{5,} Declarations /{5,}\n(.*?)\n/{5,}", txt, re.S)
    if not m:
        return None
    m2 = re.search(r"#else\s*\n\s*static CYTHON_INLINE [^\n]*_from_parts\([^\n]*\{\s*return ([^;]*);", m.group(1))
    if not m2:
        return None
    return m2.group(1).replace("{{type}}", "dc").replace("{{real_type}}", "double")


def evaluate(ctx, cfg, op, table, cases, impl_out, model_out, ref_out, st, mshow_op=""):
    """three-way comparison of one operator on one configuration"""
    func, kind, mop, oop = table[op]
    only_tie = False
    for i, c in enumerate(cases):
        impl = impl_out[i]
        a = complex(c[0], c[1])
        b = complex(c[2], c[3]) if len(c) == 4 else None
        ctx.count("%s:%s" % (cfg.name, op))
        sub = ""
        zero_div = oop == "div" and c[2] == 0 and c[3] == 0
        orc = oracle(oop, a, b)
        # --- second leg
        modelled = True
        mshow = ""
        if cfg.cc == 0 and model_out is not None:
            m = model_out[i]
            path, m2 = strip_path(m) if oop == "pow" else ("", m)
            if oop == "pow" and cfg.soft:
                m2 = soften(m2)
            sub = path
            mshow = m
            if oop == "abs" and "abs_s" in mshow_op:
                modelled = (m2 == impl)
                st["exact"] += 1
            elif oop == "abs":
                modelled = close(m2, impl)
                st["approx"] += 1
            elif oop == "pow" and path in LIBM_PATHS:
                if moderate(c):
                    modelled = close(m2, impl)
                    st["approx"] += 1
                else:
                    modelled = (m2 == impl) or close(m2, impl) or None     # None: not tied (extreme input through libm)
                    st["untied"] += modelled is None
            else:
                modelled = (m2 == impl)
                st["exact"] += 1
        elif cfg.cc == 1 and ref_out is not None:
            r = ref_out[i]
            if oop in ("eq",):
                m2 = "ok %d" % int(r[0])
            elif oop == "abs":
                m2 = "ok " + bits(r[0])
            else:
                m2 = "ok %s %s" % (bits(r[0]), bits(r[1]))
            if oop == "div" and zero_div and not cfg.cdiv:
                m2 = "err ZeroDivisionError"
            if oop == "pow" and cfg.soft:
                m2 = soften(m2)
            mshow = m2
            modelled = (m2 == impl)
            st["exact"] += 1
        if oop == "div":
            sub = quot_branch(c)
        ctx.seen((cfg.name, op, tuple(bits(v) for v in c)), nontrivial=True)
        rep = {"cfg": cfg.name, "op": op, "args": [bits(v) for v in c], "impl": impl, "oracle": orc, "second_leg": mshow[:80]}
        if modelled is False:
            ctx.tie_break("%s-%s" % (op, cfg.name), "%s %s: impl %s, model/ref %s" % (func, [repr(v) for v in c], impl, mshow[:80]), rep)
        # --- oracle leg
        if zero_div and cfg.cdiv:
            continue                      # cdivision=True: no Python semantics demanded for a zero divisor
        if oop == "pow" and cfg.soft and len(impl.split()) == 2 and impl.startswith("ok") and len(orc.split()) == 3:
            ctx.violation("pow-%s-returns-float" % ("UNMODELLED" if modelled is False else "softcomplex"),
                          "%s%s on %s (cpow=False): compiled code returns the Python float %s where Python returns the complex %s "
                          "(PowNode types complex ** complex as soft complex)" % (func, tuple(c), cfg.name, impl, orc), rep)
            impl = harden(impl, orc)
        if impl != orc:
            kd = kind_of(impl, orc)
            if kd == "same":
                continue
            tag = "UNMODELLED-" if modelled is False else ""
            key = "-".join(x for x in (oop, cfg.key, tag + sub, kd) if x)
            ctx.violation(key, "%s%s on %s (CYTHON_CCOMPLEX=%d%s): compiled %s, Python %s" % (
                func, tuple(c), cfg.name, cfg.cc, ", cdivision" if cfg.cdiv else "", impl, orc), rep)
            st["diff"] += 1
        else:
            st["agree"] += 1
    if len(ctx.samples) < 8 and cases:
        ctx.sample({"cfg": cfg.name, "op": op, "args": [repr(v) for v in cases[len(cases) // 2]], "impl": impl_out[len(cases) // 2]})


def model_lines(mop, cases, cfg, variant):
    if mop == "cy_div":
        mop = "cy_div_%s_%d" % (variant["quot"], 1 if cfg.cdiv else 0)
    elif mop in ("cy_abs_h", "cy_pow_h"):
        mop = mop[:-1] + variant["abs"]
    return ["C08 d %s %s" % (mop, hexargs(c)) for c in cases]


def detect_variant(ctx, so):
    """which `__Pyx_c_quot` text the current source has, measured on the compiled code"""
    probe = [(1.0, 0.0, 3.0, 1.0), (-0.0, 1.0, 1.0, 0.0), (inf, inf, 1.0, 0.0), (1.0, 2.0, 1.0, 3.0), (7.0, 1.0, 10.0, 3.0),
             (1.0, 1.0, nan, 1.0), (0.1, 0.7, 0.3, -0.9), (2.0, 3.0, 3.0, 0.0)]
    out, err = run_impl(ctx, so, ["d_div cc " + hexargs(c) for c in probe])
    if out is None:
        raise lib.Infra("probe run failed: " + err)
    score = {}
    for v in ("pinned", "ported"):
        m = ctx.drv.batch(["C08 d cy_quot_%s %s" % (v, hexargs(c)) for c in probe])
        score[v] = sum(1 for x, y in zip(m, out) if x == y)
    best = max(score, key=lambda v: score[v])
    # __Pyx_c_abs: hypot() or the sqrt formula (the #if on HAVE_HYPOT is decided by pyconfig.h)
    aprobe = [(0.0, 1e-300), (3e200, 4e200), (inf, nan), (3.0, 4.0), (0.1, 1.5)]
    aout, err = run_impl(ctx, so, ["d_abs c " + hexargs(c) for c in aprobe])
    if aout is None:
        raise lib.Infra("probe run failed: " + err)
    ascore = {}
    for v in ("h", "s"):
        m = ctx.drv.batch(["C08 d cy_abs_%s %s" % (v, hexargs(c)) for c in aprobe])
        ascore[v] = sum(1 for x, y in zip(m, aout) if close(x, y))
    abest = max(ascore, key=lambda v: ascore[v])
    return {"quot": best, "abs": abest}, {"quot": score, "abs": ascore}


def detect_from_parts(ctx, so):
    """does the CYTHON_CCOMPLEX=1 <T>_from_parts keep (-0.0, 0.0) and (1.0, inf)?"""
    out, err = run_impl(ctx, so, ["d_id c " + hexargs(c) for c in [(-0.0, 0.0), (1.0, inf), (inf, nan)]])
    if out is None:
        raise lib.Infra("probe run failed: " + err)
    exact = out == ["ok 8000000000000000 0000000000000000", "ok 3ff0000000000000 7ff0000000000000", "ok 7ff0000000000000 nan"]
    return "exact" if exact else "sum"


def run(ctx):
    ctx.rule = ("operand pairs: the full grid REPS^4 over {nan, ±inf, ±0.0, ±5e-324, ±1, ±1.5, ±1e308} for + - * / ==, "
                "REPS^2 x (34 exponent real parts x 9 imaginary parts) for **, REPS_X^2 for unary operators, plus seeded random "
                "operands (representatives, moderate values, random bit patterns, small integers); every case is distinct input "
                "to a compiled function of one build configuration; all count as non-trivial")
    ctx.explanation = ("No theorem covers: CYTHON_CCOMPLEX=1 (the C compiler's _Complex operators, __muldc3/__divdc3, libm cabs/cpow) — "
                       "differential only against a C transcription of the macros and against Python; the rounded values of libm "
                       "functions (hypot, atan2, log, exp, sin, cos, pow) inside the polar branch of __Pyx_c_pow and inside abs(); "
                       "float complex and long double complex against Python (Python has no such type; float complex is tied to the "
                       "model only); the Limited-API / PyPy branches of FromPy; C++ std::complex.")
    ctx.assumptions = ["the abstract float operations are interpreted in IEEE-754 binary64 (binary32) with NaNs identified; the laws "
                       "named as hypotheses of the theorems are IEEE-754 facts, not proved about any implementation",
                       "x86-64 SSE2 arithmetic without FMA contraction; (int)x of an out-of-range double gives INT_MIN (cvttsd2si)"]
    ctx.extra_trusted = ["glibc libm (hypot, pow, atan2, log, exp, sin, cos, cabs, cpow), libgcc __muldc3/__divdc3",
                         "Lean's compiled Float primitives (C double operators) used by cydrv"]
    quick = ctx.quick
    rp = ctx.replay_case.get("case") if ctx.replay_case else None
    if rp is not None and not (isinstance(rp.get("args"), list) and all(isinstance(h, str) and (h == "nan" or len(h) == 16) for h in rp["args"])):
        rp = None             # replay of a conversion / soft-complex case: rerun everything
    specs = [
        dict(name="c08_cc0", source=MODULE, directives={"cdivision": False, "cpow": False}, cflags=["-DCYTHON_CCOMPLEX=0"]),
        dict(name="c08_cc0c", source=MODULE, directives={"cdivision": True, "cpow": True}, cflags=["-DCYTHON_CCOMPLEX=0"]),
        dict(name="c08_cc1", source=MODULE, directives={"cdivision": False, "cpow": False}, cflags=["-DCYTHON_CCOMPLEX=1"], ldflags=["-lm"]),
        dict(name="c08_cc1c", source=MODULE, directives={"cdivision": True, "cpow": True}, cflags=["-DCYTHON_CCOMPLEX=1"], ldflags=["-lm"]),
    ]
    if not quick:
        specs += [dict(name="c08_cc0o2", source=MODULE, directives={"cdivision": False, "cpow": False}, cflags=["-DCYTHON_CCOMPLEX=0"], opt="-O2"),
                  dict(name="c08_cc1o2", source=MODULE, directives={"cdivision": False, "cpow": False}, cflags=["-DCYTHON_CCOMPLEX=1"], opt="-O2", ldflags=["-lm"])]
    sos = cybuild.build_many(ctx, specs)
    cfgs = []
    for sp, so in zip(specs, sos):
        if isinstance(so, cybuild.BuildError):
            ctx.violation("build-" + sp["name"], "module with double complex / float complex arithmetic does not build (%s): %s" % (so.stage, so.log[-300:]),
                          {"cfg": sp["name"], "stage": so.stage})
            continue
        cfgs.append(Cfg(sp["name"], 1 if "cc1" in sp["name"] else 0, sp["directives"]["cdivision"], so))
    if not cfgs:
        return
    cc0 = [c for c in cfgs if c.cc == 0]
    cc1 = [c for c in cfgs if c.cc == 1]
    fpv = detect_from_parts(ctx, cc1[0].so) if cc1 else "sum"
    fp = extract_from_parts(ctx)
    fexpr = "__builtin_complex(x, y)" if fpv == "exact" else (fp or "x + y*(dc)_Complex_I")
    cref = {"-O0": build_cref(ctx, fexpr, "-O0")}
    if not quick:
        cref["-O2"] = build_cref(ctx, fexpr, "-O2")
    variant, score = detect_variant(ctx, cc0[0].so) if cc0 else ({"quot": "pinned", "abs": "s"}, {})
    ctx.notes["variants"] = {"detected": variant, "probe_agreement": score, "from_parts_cc1": fpv, "from_parts_text": str(fp)[:80]}
    ctx.obligation("quot-variant-identified", (not cc0) or score["quot"].get(variant["quot"], 0) == 8,
                   "compiled __Pyx_c_quot agrees with model variant %s on all probe points %s" % (variant["quot"], score.get("quot")))
    ctx.obligation("abs-variant-identified", (not cc0) or score["abs"].get(variant["abs"], 0) == 5,
                   "compiled __Pyx_c_abs agrees with model variant %s (h: hypot, s: sqrt formula) on all probe points %s" % (variant["abs"], score.get("abs")))

    nr = int((800 if quick else 60000) * ctx.budget_scale)
    bcases = binary_cases(ctx, nr)
    pcases = pow_cases(ctx, nr)
    ucases = unary_cases(ctx, nr)
    if rp:
        arg = tuple(unbits(h) for h in rp["args"])
        bcases = [arg] if len(arg) == 4 else []
        pcases = [arg] if len(arg) == 4 else []
        ucases = [arg] if len(arg) == 2 else []
    st = {"exact": 0, "approx": 0, "untied": 0, "diff": 0, "agree": 0}
    import concurrent.futures as cf

    def impl_job(cfg):
        lines, index = [], []
        ops = dict(BIN_OPS) if not cfg.cdiv else {k: BIN_OPS[k] for k in ("div", "idiv", "pow")}
        for op, (func, kind, mop, oop) in ops.items():
            cs = pcases if oop == "pow" else bcases
            if op in ("idiv",) and not rp:
                cs = cs[::5]
            elif quick and not rp and (op in ("sum", "diff", "eq") or cfg.cdiv):
                cs = cs[::5]
            index.append((op, BIN_OPS, cs, len(lines)))
            lines += ["%s %s %s" % (func, kind, hexargs(c)) for c in cs]
        if not cfg.cdiv:
            for op, (func, kind, mop, oop) in UN_OPS.items():
                index.append((op, UN_OPS, ucases, len(lines)))
                lines += ["%s %s %s" % (func, kind, hexargs(c)) for c in ucases]
        out, err = run_impl(ctx, cfg.so, lines)
        return cfg, index, out, err

    with cf.ThreadPoolExecutor(max_workers=6) as ex:
        results = list(ex.map(impl_job, cfgs))
    for cfg, index, out, err in results:
        if out is None:
            ctx.violation("run-" + cfg.name, "compiled module died while evaluating complex arithmetic: " + err[:200], {"cfg": cfg.name})
            continue
        opt = "-O2" if cfg.name.endswith("o2") else "-O0"
        for op, table, cs, off in index:
            func, kind, mop, oop = table[op]
            impl_out = out[off:off + len(cs)]
            model_out = ref_out = None
            if cfg.cc == 0 and mop:
                model_out = ctx.drv.batch(model_lines(mop, cs, cfg, variant)) if cs else []
            elif cfg.cc == 1 and oop in REF_OPS:
                ref_out = cref_run(cref[opt], oop, cs) if cs else []
            evaluate(ctx, cfg, op, table, cs, impl_out, model_out, ref_out, st,
                     mshow_op=("abs_" + variant["abs"]) if oop == "abs" else "")
    ctx.notes["tie"] = st
    pyspec_leg(ctx, bcases, pcases, ucases)
    if not rp:
        extra_legs(ctx, cfgs, variant)


def pyspec_leg(ctx, bcases, pcases, ucases):
    """the Lean transcription of CPython's complexobject.c against CPython itself"""
    bad = 0
    n = 0
    for mop, oop, cs in (("py_sum", "sum", bcases), ("py_diff", "diff", bcases), ("py_prod", "prod", bcases), ("py_div", "div", bcases),
                         ("py_eq", "eq", bcases), ("py_pow", "pow", pcases), ("py_neg", "neg", ucases), ("py_conj", "conj", ucases),
                         ("py_abs", "abs", ucases)):
        if not cs:
            continue
        outs = ctx.drv.batch(["C08 d %s %s" % (mop, hexargs(c)) for c in cs])
        for c, m in zip(cs, outs):
            a = complex(c[0], c[1])
            b = complex(c[2], c[3]) if len(c) == 4 else None
            orc = oracle(oop, a, b)
            n += 1
            ctx.count("pyspec:" + oop)
            if oop == "pow":
                route, m = strip_path(m)
                ok = (m == orc) if route == "int" else (m == orc or close(m, orc) or not moderate(c))
                if route == "gen" and not moderate(c) and m.startswith("err") != orc.startswith("err") and not any(v != v for v in c):
                    ok = ok and False if all(abs(v) < 1e3 for v in c) else ok
            elif oop == "abs":
                ok = close(m, orc)
            else:
                ok = (m == orc)
            if not ok:
                bad += 1
                ctx.tie_break("pyspec-" + oop, "Lean model of CPython's %s on %s gives %s, CPython gives %s" % (oop, [repr(v) for v in c], m[:60], orc),
                              {"op": oop, "args": [bits(v) for v in c], "model": m, "oracle": orc})
    ctx.notes["pyspec"] = {"cases": n, "disagreements": bad}


CONV_RUNNER = r"""
import sys, json, ctypes, warnings, importlib.util, itertools
warnings.simplefilter('ignore')
so, modname = sys.argv[1], sys.argv[2]
spec = importlib.util.spec_from_file_location(modname, so)
mod = importlib.util.module_from_spec(spec); sys.modules[modname] = mod; spec.loader.exec_module(mod)
class Pyc(ctypes.Structure):
    _fields_ = [('real', ctypes.c_double), ('imag', ctypes.c_double)]
AsC = ctypes.pythonapi.PyComplex_AsCComplex
AsC.restype = Pyc; AsC.argtypes = [ctypes.py_object]
class CSub(complex): pass
class FSub(float): pass
class ISub(int): pass
def meth(kind, good, sub, bad, big=None):
    if kind == 'absent': return None
    if kind == 'exact': return lambda self: good
    if kind == 'subclass': return lambda self: sub
    if kind == 'wrongType': return lambda self: bad
    if kind == 'overflow': return lambda self: big
    def r(self): raise KeyError('x')
    return r
def build(base, mc, mf, mi):
    ns = {}
    f = meth(mc, 11+12j, CSub(11, 12), 1.0)
    if f: ns['__complex__'] = f
    f = meth(mf, 21.0, FSub(21.0), 'x')
    if f: ns['__float__'] = f
    f = meth(mi, 31, ISub(31), 1.5, 10**400)
    if f: ns['__index__'] = f
    bases = {'object': (object,), 'complex': (complex,), 'float': (float,)}[base]
    T = type('T', bases, ns)
    return T(41, 42) if base == 'complex' else (T(51.0) if base == 'float' else T())
def outcome(f, o):
    try:
        r = f(o)
        if isinstance(r, Pyc): r = complex(r.real, r.imag)
        return 'ok %r' % (r,)
    except BaseException as e:
        return 'err ' + type(e).__name__
res = []
K = ['absent', 'exact', 'subclass', 'wrongType', 'raises']
for base in ('object', 'complex', 'float'):
    for mc in K:
        for mf in K:
            for mi in K + ['overflow']:
                o = build(base, mc, mf, mi)
                res.append({'desc': [base, mc, mf, mi], 'd': outcome(mod.d_conv, o), 'f': outcome(mod.f_conv, o), 'api': outcome(AsC, o)})
from fractions import Fraction
from decimal import Decimal
for name, o in [('complex', 1.5-2j), ('float', 2.5), ('int', 7), ('bool', True), ('bigint', 10**400), ('str', '1+2j'), ('bytes', b'1'),
                ('None', None), ('Fraction', Fraction(1, 2)), ('Decimal', Decimal('1.5')), ('negzero', complex(-0.0, -0.0)),
                ('infnan', complex(float('inf'), float('nan'))), ('list', [1])]:
    res.append({'desc': ['builtin', name], 'd': outcome(mod.d_conv, o), 'f': outcome(mod.f_conv, o), 'api': outcome(AsC, o)})
print(json.dumps(res))
"""

SRC_VALUE = {"cval": "(41+42j)", "complexMeth": "(11+12j)", "floatVal": "(51+0j)", "floatMeth": "(21+0j)", "indexMeth": "(31+0j)"}


def conv_leg(ctx, cfg):
    """objects -> C complex: compiled conversion vs the Lean decision model vs PyComplex_AsCComplex called through ctypes"""
    runner = os.path.join(ctx.scratch, "c08conv.py")
    with open(runner, "w") as f:
        f.write(CONV_RUNNER)
    modname = os.path.basename(cfg.so).split(".")[0]
    p = subprocess.run([lib.PYTHON, runner, cfg.so, modname], stdout=subprocess.PIPE, stderr=subprocess.PIPE, text=True,
                       env=lib._clean_env({"PYTHONPATH": ctx.stage}), timeout=600)
    if p.returncode != 0:
        ctx.violation("conv-run-" + cfg.key, "conversion runner died: " + p.stderr[-300:], {"cfg": cfg.name})
        return
    res = json.loads(p.stdout)
    lines, idx = [], []
    for r in res:
        d = r["desc"]
        if d[0] == "builtin":
            continue
        base, mc, mf, mi = d
        ec, cs, isf = 0, int(base == "complex"), int(base == "float")
        if base == "complex" and mc == "absent":
            pass
        if base == "float" and mf == "absent":
            mf = "exact"          # inherited float.__float__ (never reached: PyFloat_Check comes first)
        if base == "complex" and mc == "absent":
            mc = "exact"          # inherited complex.__complex__ (never reached: PyComplex_Check comes first)
        for which in ("cy", "py"):
            lines.append("C08 conv %s %d %d %s %d %s %s" % (which, ec, cs, mc, isf, mf, mi))
        idx.append(r)
    outs = ctx.drv.batch(lines)
    for k, r in enumerate(idx):
        mcy, mpy = outs[2 * k], outs[2 * k + 1]
        def expect(m):
            if m.startswith("ok "):
                return "ok " + SRC_VALUE[m[3:]]
            return "err " + {"Raised": "KeyError"}.get(m[4:], m[4:])
        ctx.count("conv:" + cfg.key)
        ctx.seen(("conv", cfg.key, tuple(r["desc"])))
        rep = {"cfg": cfg.name, "object": r["desc"], "compiled": r["d"], "PyComplex_AsCComplex": r["api"], "model": mcy}
        if r["d"] != r["api"]:
            ctx.violation("conv-%s-%s" % (cfg.key, "UNMODELLED" if expect(mcy) != r["d"] else "order"),
                          "object %s -> double complex: compiled %s, PyComplex_AsCComplex %s" % (r["desc"], r["d"], r["api"]), rep)
        if expect(mcy) != r["d"]:
            ctx.tie_break("conv-model", "object %s: compiled %s, model %s" % (r["desc"], r["d"], mcy), rep)
        if expect(mpy) != r["api"]:
            ctx.tie_break("pyspec-conv", "object %s: PyComplex_AsCComplex %s, model %s" % (r["desc"], r["api"], mpy), rep)
        if r["f"] != r["d"]:
            ctx.violation("conv-%s-float-complex" % cfg.key, "object %s: float complex %s, double complex %s" % (r["desc"], r["f"], r["d"]), rep)
    for r in res:
        if r["desc"][0] != "builtin":
            continue
        ctx.count("conv-builtin:" + cfg.key)
        ctx.seen(("convb", cfg.key, r["desc"][1]))
        if r["d"] != r["api"]:
            tag = r["desc"][1]
            ctx.violation("conv-%s-builtin-%s" % (cfg.key, tag), "%s -> double complex: compiled %s, PyComplex_AsCComplex %s" % (r["desc"], r["d"], r["api"]),
                          {"cfg": cfg.name, "object": r["desc"], "compiled": r["d"], "api": r["api"]})
    ctx.sample({"conv": res[7]})


def mixed_leg(ctx, cfg, variant):
    """complex / double, double / complex, complex ** int, complex ** 2, bool(), .real/.imag, struct assignment"""
    reps = REPS
    cr = [(a, b, c) for a in reps for b in reps for c in reps]
    ci = [(a, b, float(n)) for a in REPS_X for b in REPS_X[:13] for n in (-5, -4, -3, -2, -1, 0, 1, 2, 3, 4, 5, 100, 101, -2147483648, 2147483647)]
    cu = [(a, b) for a in REPS_X for b in REPS_X]
    lines = (["d_divr cr " + hexargs(c) for c in cr] + ["d_rdiv rc " + hexargs(c) for c in cr] + ["d_powi ci " + hexargs(c) for c in ci]
             + ["d_pow2 c " + hexargs(c) for c in cu] + ["d_bool c " + hexargs(c) for c in cu] + ["d_parts c " + hexargs(c) for c in cu]
             + ["d_mk rr " + hexargs(c) for c in cu])
    out, err = run_impl(ctx, cfg.so, lines)
    if out is None:
        ctx.violation("run-mixed-" + cfg.name, "compiled module died: " + err[:200], {"cfg": cfg.name})
        return
    st = {"exact": 0, "approx": 0, "untied": 0, "diff": 0, "agree": 0}
    off = 0
    table = {"div": ("d_divr", "cr", "cy_div", "div"), "rdiv": ("d_rdiv", "rc", "cy_div", "div"),
             "pow": ("d_powi", "ci", "cy_pow_h", "pow"), "pow2": ("d_pow2", "c", "cy_pow_h", "pow")}
    L = None
    for op, cases4 in (("div", [(a, b, c, 0.0) for a, b, c in cr]), ("rdiv", [(a, 0.0, b, c) for a, b, c in cr]),
                       ("pow", [(a, b, n, 0.0) for a, b, n in ci]), ("pow2", [(a, b, 2.0, 0.0) for a, b in cu])):
        impl_out = out[off:off + len(cases4)]
        off += len(cases4)
        model_out = ref_out = None
        mop = table[op][2]
        if cfg.cc == 0:
            model_out = ctx.drv.batch(model_lines(mop, cases4, cfg, variant))
        else:
            continue        # CYTHON_CCOMPLEX=1 mixed operands: real * complex is again compiler arithmetic; covered by the cc pairs
        # d_powi / d_pow2: an integer exponent never makes a real complex: PowNode keeps the complex type (no soft complex)
        soft_save = cfg.soft
        if op in ("pow", "pow2"):
            cfg.soft = False
        evaluate(ctx, cfg, op, table, cases4, impl_out, model_out, ref_out, st)
        cfg.soft = soft_save
    for name, fn in (("bool", lambda a: "ok %d" % bool(a)), ("parts", lambda a: "ok %s %s" % (bits(a.real), bits(a.imag))),
                     ("mk", lambda a: "ok %s %s" % (bits(a.real), bits(a.imag)))):
        impl_out = out[off:off + len(cu)]
        off += len(cu)
        for c, im in zip(cu, impl_out):
            ctx.count("%s:%s" % (cfg.name, name))
            want = fn(complex(c[0], c[1]))
            if im != want:
                ctx.violation("%s-%s-%s" % (name, cfg.key, kind_of(im, want)), "d_%s%s on %s: compiled %s, Python %s" % (name, c, cfg.name, im, want),
                              {"cfg": cfg.name, "op": name, "args": [bits(v) for v in c], "impl": im, "oracle": want})
    ctx.notes["tie_mixed_" + cfg.name] = st


REPS32 = [nan, inf, -inf, 0.0, -0.0, 1.401298464324817e-45, -1.401298464324817e-45, 1.0, -1.0, 1.5, -1.5, 1.7014118346046923e38,
          -1.7014118346046923e38, 3.0, 0.75]


def hex32(c):
    return " ".join("7fc00000" if v != v else bits32(v) for v in c)


def f32_leg(ctx, cfg, variant):
    """float complex: compiled binary32 arithmetic against the model instantiated with Float32 (no Python oracle exists)"""
    cases = [(a, b, c, d) for a in REPS32 for b in REPS32 for c in REPS32 for d in REPS32]
    if ctx.quick:
        cases = cases[::7]
    bad = n = 0
    for op, func, mop in (("sum", "f_sum", "cy_sum"), ("diff", "f_diff", "cy_diff"), ("prod", "f_prod", "cy_prod"),
                          ("div", "f_div", "cy_div_%s_0" % variant["quot"]), ("eq", "f_eq", "cy_eq")):
        out, err = run_impl(ctx, cfg.so, ["%s cc %s" % (func, hexargs(c)) for c in cases])
        if out is None:
            ctx.violation("run-f32-" + cfg.name, "compiled module died: " + err[:200], {"cfg": cfg.name})
            return
        if op == "div":
            # DivNode.compute_c_result_type widens float complex / float complex to double complex (true division)
            mod = ctx.drv.batch(["C08 d %s %s" % (mop, hexargs(c)) for c in cases])
        else:
            mod = ctx.drv.batch(["C08 f %s %s" % (mop, hex32(c)) for c in cases])
        for c, im, m in zip(cases, out, mod):
            n += 1
            ctx.count("f32:" + op)
            p = im.split()
            if p[0] == "ok" and len(p) == 3 and op != "div":
                im = "ok %s %s" % tuple("nan" if h == "nan" else bits32(unbits(h)) for h in p[1:])
            if im != m:
                bad += 1
                ctx.tie_break("f32-" + op, "%s%s: compiled %s, Float32 model %s" % (func, c, im, m), {"cfg": cfg.name, "op": func, "args": [repr(v) for v in c]})
            if op == "div" and c[2] == 0 and c[3] == 0 and im != "err ZeroDivisionError":
                ctx.violation("f32-div-zero-not-raised", "%s%s: %s" % (func, c, im), {"cfg": cfg.name, "args": [repr(v) for v in c]})
    ctx.notes["f32_tie"] = {"cases": n, "disagreements": bad}


def soft_leg(ctx, cfg):
    """double ** double with cpow=False (soft complex): __pyx_Py_FromSoftComplex / __Pyx_SoftComplexToDouble decisions"""
    vals_ = [-8.0, -2.0, -1.0, -0.5, -0.0, 0.0, 0.5, 1.0, 2.0, 3.0, inf, -inf, nan, 1e300, -1e300, 1 / 3.0, -1 / 3.0]
    cases = [(a, b) for a in vals_ for b in vals_]
    out, err = run_impl(ctx, cfg.so, ["soft_pow rr " + hexargs(c) for c in cases] + ["soft_pow_d rr " + hexargs(c) for c in cases])
    if out is None:
        ctx.violation("run-soft-" + cfg.name, "compiled module died: " + err[:200], {"cfg": cfg.name})
        return
    o1, o2 = out[:len(cases)], out[len(cases):]
    dec = ctx.drv.batch(["C08 conv soft_py 1", "C08 conv soft_py 0", "C08 conv soft_double 1", "C08 conv soft_double 0"])
    if dec != ["ok complex", "ok float", "err TypeError", "ok real"]:
        ctx.tie_break("soft-model", "soft complex decision model: %s" % dec, {})
    for c, a, b in zip(cases, o1, o2):
        ctx.count("soft:" + cfg.key)
        ctx.seen(("soft", cfg.key, c))
        is_complex = a.startswith("ok") and len(a.split()) == 3
        # model: complex result <=> imaginary part truthy <=> coercion to double raises TypeError
        if a.startswith("ok") and ((b == "err TypeError") != is_complex or (not is_complex and b != a)):
            ctx.tie_break("soft-decision", "soft_pow%s -> %s but soft_pow_d -> %s" % (c, a, b), {"cfg": cfg.name, "args": [repr(v) for v in c]})
        try:
            r = c[0] ** c[1]
            want = canon(r)
        except (ZeroDivisionError, OverflowError) as e:
            want = "err " + type(e).__name__
        if a != want:
            kd = kind_of(harden(a, want) if len(want.split()) == 3 else a, want)
            if len(a.split()) != len(want.split()) and a.startswith("ok") and want.startswith("ok"):
                kd = "type-" + kd
            ctx.violation("softpow-%s-%s" % (cfg.key, kd), "double ** double (cpow=False) %s: compiled %s, Python %s" % (c, a, want),
                          {"cfg": cfg.name, "args": [bits(v) for v in c], "impl": a, "oracle": want})


def extra_legs(ctx, cfgs, variant):
    for cfg in cfgs:
        if cfg.name in ("c08_cc0", "c08_cc1"):
            conv_leg(ctx, cfg)
            soft_leg(ctx, cfg)
        if cfg.name == "c08_cc0" or (cfg.name == "c08_cc0c" and not ctx.quick):
            mixed_leg(ctx, cfg, variant)
        if cfg.name == "c08_cc0":
            f32_leg(ctx, cfg, variant)

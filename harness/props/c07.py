"""C07 — power operator follows the documented cpow rules.

impl   = modules compiled by the staged compiler: (a) `b ** e` on every C integer type (cpow=True -> __Pyx_pow_T),
         (b) `2 ** n` on objects (__Pyx__PyNumber_PowerOf2), (c) typed operand combinations under cpow True/False
         whose Python-visible result type reveals PowNode.compute_c_result_type
model  = CyVerif.C07 (intPow, powerOf2, resultType)
oracle = (a) exact b**e when e >= 0 and the value fits the C type; (b) CPython 2**n; (c) docs/src/userguide/cpow_table.csv
"""
import csv
import os

import cybuild

INT_TYPES = [  # (cython type, tag, width, signed)
    ("signed char", "sc", 8, 1), ("unsigned char", "uc", 8, 0), ("short", "s", 16, 1), ("unsigned short", "us", 16, 0),
    ("int", "i", 32, 1), ("unsigned int", "ui", 32, 0), ("long", "l", 64, 1), ("unsigned long", "ul", 64, 0),
    ("long long", "q", 64, 1), ("unsigned long long", "uq", 64, 0), ("Py_ssize_t", "z", 64, 1), ("size_t", "uz", 64, 0),
]


def _canon(v):
    inf = float("inf")
    if isinstance(v, float):
        return 'float:' + (v.hex() if v == v and v not in (inf, -inf) else repr(v))
    if isinstance(v, complex):
        return 'complex:' + _canon(v.real) + ',' + _canon(v.imag)
    if isinstance(v, (tuple, list)):
        return type(v).__name__ + ':[' + ';'.join(_canon(x) for x in v) + ']'
    return type(v).__name__ + ':' + repr(v)


class _RP(int):
    def __rpow__(self, other, mod=None):
        return ('rpow', int(self), other)


class _Plain(int):
    pass


class _Refuses(int):
    def __rpow__(self, other, mod=None):
        raise ArithmeticError('no')


class _TwinNS:
    RP, Plain, Refuses = _RP, _Plain, _Refuses


_TWIN = _TwinNS


def ipow_module():
    out = ["# cython: language_level=3, cpow=True", "cimport cython"]
    for ct, tag, w, sg in INT_TYPES:
        out.append("def ipow_%s(%s b, %s e):\n    cdef %s r = b ** e\n    return r" % (tag, ct, ct, ct))
        out.append("def rt_%s(%s b, %s e):\n    return cython.typeof(b ** e)" % (tag, ct, ct))
    out.append("class RP(int):\n    def __rpow__(self, other, mod=None):\n        return ('rpow', int(self), other)")
    out.append("class Plain(int):\n    pass")
    out.append("class Refuses(int):\n    def __rpow__(self, other, mod=None):\n        raise ArithmeticError('no')")
    out.append("def p2(object n):\n    return 2 ** n")
    out.append("def p2i(object n):\n    x = 2\n    x **= n\n    return x")
    return "\n".join(out) + "\n"


# result-type probes: (t1 tag, t2 tag, declaration of a, declaration/expr of b)
T1 = {"is": ("int a", "a"), "iu": ("unsigned int a", "a"), "ic": (None, "3"), "f": ("double a", "a")}
T2 = {"cn": (None, "-2"), "cp": (None, "2"), "iu": ("unsigned int b", "b"), "is": ("int b", "b"), "f": ("double b", "b")}


def rtype_module(cpow):
    out = ["# cython: language_level=3, cpow=%s" % cpow, "cimport cython"]
    for k1, (d1, e1) in T1.items():
        for k2, (d2, e2) in T2.items():
            args = ", ".join(x for x in (d1, d2) if x)
            out.append("def rt_%s_%s(%s):\n    return cython.typeof(%s ** %s)" % (k1, k2, args, e1, e2))
            out.append("def val_%s_%s(%s):\n    return %s ** %s" % (k1, k2, args, e1, e2))
    return "\n".join(out) + "\n"


def classify_typeof(s):
    s = s.strip()
    if "complex" in s:
        return "softcomplex" if "soft" in s else "complex"
    if s in ("double", "float", "long double"):
        return "float"
    if s == "Python object":
        return "object"
    return "int"


def run(ctx):
    ctx.rule = ("(a) every C integer type x (boundary bases and exponents, random pairs, exponents 0..70 and negatives); non-trivial = exponent >= 4 (loop path) "
                "with a fitting result, or a wrapped result; (b) 2**n for n in [-5,140], bools, big ints, non-ints; (c) all 20 operand-class cells x cpow True/False")
    ctx.explanation = ("Theorems: IntPow exactness for every width/signedness/base/exponent when the result fits (and congruence mod 2^w otherwise); 2**n fast path exact; "
                       "result-type decision = documented table (finite, decided). Not covered by a theorem: values of floating-point and complex powers (libm pow/cpow), "
                       "object ** object (CPython's own slot), the soft-complex coercion rules.")
    rng = ctx.rng
    specs = [dict(name="c07ipow", source=ipow_module()), dict(name="c07rt1", source=rtype_module(True)),
             dict(name="c07rt0", source=rtype_module(False))]
    sos = cybuild.build_many(ctx, specs)
    for s, so in zip(specs, sos):
        if isinstance(so, cybuild.BuildError):
            ctx.tie_break("D-c build " + s["name"], so.stage + ": " + so.log[-600:], {"module": s["source"]})
    so_ipow, so_rt1, so_rt0 = sos
    # ---------------- (a) integer powers
    if not isinstance(so_ipow, cybuild.BuildError):
        cases = []
        # the C result type of T ** T (C integer promotion is Cython's, observed through cython.typeof)
        rts = cybuild.run_cases(ctx, so_ipow, [("rt_" + tag, "(1, 1)") for _, tag, _, _ in INT_TYPES])
        for ct, tag, w, sg in INT_TYPES:
            lo, hi = (-(1 << (w - 1)), (1 << (w - 1)) - 1) if sg else (0, (1 << w) - 1)
            bases = sorted(x for x in set([lo, lo + 1, -3, -2, -1, 0, 1, 2, 3, 5, 7, 10, 200, hi - 1, hi, 1 << (w // 2), (1 << (w // 2)) - 1]) if lo <= x <= hi)
            exps = [0, 1, 2, 3, 4, 5, 6, 7, 8, 15, 16, 31, 32, 33, 62, 63, 64, 70]
            if sg:
                exps += [-1, -2, -5]
            for b in bases:
                for e in exps:
                    if lo <= e <= hi:
                        cases.append((tag, w, sg, b, e))
            for _ in range(ctx.n(150, 4000)):
                e = rng.choice([4, 5, 6, 7, 9, 10, 12, 20, 31, 40, 63]) if rng.random() < 0.8 else rng.randint(max(lo, -5), min(hi, 200))
                mag = max(2, int(2 ** ((w - sg) / max(e, 1))) + 2) if e > 0 else 100
                b = rng.randint(max(lo, -mag), min(hi, mag))
                if lo <= e <= hi:
                    cases.append((tag, w, sg, b, e))
        if getattr(ctx, "replay_case", None) and "ipow" in ctx.replay_case.get("case", {}):
            cases = [tuple(ctx.replay_case["case"]["ipow"])]
        outs = cybuild.run_cases(ctx, so_ipow, [("ipow_" + c[0], "(%d, %d)" % (c[3], c[4])) for c in cases])
        # IntPow is instantiated for the C result type of the expression; the assignment `cdef T r = b ** e` truncates back to T
        mouts = ctx.drv.batch(["C07 ipow %d %d %d %d" % (max(w, 32), sg, b, e) for tag, w, sg, b, e in cases])
        for (tag, w, sg, b, e), got, mo in zip(cases, outs, mouts):
            lo, hi = (-(1 << (w - 1)), (1 << (w - 1)) - 1) if sg else (0, (1 << w) - 1)
            impl = int(got[len("ok int:"):]) if got.startswith("ok int:") else got
            mv = int(mo[3:])
            # truncation of the (possibly wider) computation type back to T
            mt = mv & ((1 << w) - 1)
            if sg and mt >> (w - 1):
                mt -= 1 << w
            fits = e >= 0 and lo <= b ** e <= hi
            ctx.count("ipow/%s/%s" % (tag, "neg" if e < 0 else ("small" if e <= 3 else ("fits" if fits else "wraps"))))
            ctx.seen(("ipow", tag, b, e), nontrivial=(e >= 4))
            rep = {"ipow": [tag, w, sg, b, e], "impl": impl}
            if fits and impl != b ** e:
                ctx.violation("intpow-%s" % tag, "(%s) %d ** %d = %r, exact value %d fits the type" % (tag, b, e, impl, b ** e), rep)
            if impl != mt:
                ctx.tie_break("D-c __Pyx_pow_T vs CyVerif.C07.intPow", "(%s) %d ** %d: model %d impl %r" % (tag, b, e, mt, impl), rep)
        ctx.sample({"ipow": cases[len(cases) // 2], "impl": outs[len(cases) // 2], "model": mouts[len(cases) // 2]})
        ctx.notes["c_result_types_of_T_pow_T"] = dict(zip([t[1] for t in INT_TYPES], rts))
        # ---------------- (b) 2 ** n
        ns = list(range(-5, 141)) + [True, False, 1000, 10 ** 4, 14000, -2 ** 31]
        srcs = [repr(n) for n in ns] + ["1.5", "'x'", "None", "-0.5", "2.0"]
        # int subclasses: CPython gives the right operand's __rpow__ priority; the 2**n fast path must not bypass it
        srcs += ["mod.RP(3)", "mod.RP(0)", "mod.RP(70)", "mod.RP(-2)", "mod.Plain(5)", "mod.Plain(64)", "mod.Plain(-1)", "mod.Refuses(4)"]
        outs = cybuild.run_cases(ctx, so_ipow, [("p2", "(%s,)" % s) for s in srcs] + [("p2i", "(%s,)" % s) for s in srcs])
        ints = [n for n in ns if not isinstance(n, bool) and abs(n) < 10 ** 5]
        mouts = dict(zip(ints, ctx.drv.batch(["C07 pow2 %d" % n for n in ints])))
        for k, (s, got) in enumerate(zip(srcs + srcs, outs)):
            try:
                v = 2 ** eval(s, {"mod": _TWIN})
                exp = "ok " + _canon(v)
            except Exception as ex:
                exp = "err " + type(ex).__name__
            ctx.count("pow2")
            ctx.seen(("pow2", k), nontrivial=True)
            if got != exp:
                ctx.violation("pow2-object", "2 ** %s compiled=%s CPython=%s" % (s, got, exp), {"pow2": s, "impl": got, "oracle": exp})
            n = eval(s, {"mod": _TWIN})
            if type(n) is int and not isinstance(n, bool) and n in mouts:
                m = mouts[n]
                if m != "ok fallback" and got != "ok int:" + m[3:]:
                    ctx.tie_break("D-c PowerOf2 vs CyVerif.C07.powerOf2", "2 ** %d: model %s impl %s" % (n, m, got), {"pow2": s})
    # ---------------- (c) result types
    doc = list(csv.reader(open(os.path.join(ctx.repo, "docs/src/userguide/cpow_table.csv"))))
    ctx.obligation("cpow_table.csv shape", len(doc) == 6 and doc[0][2].strip("`") == "cpow==True",
                   "documented table still has the 5 rows the Lean docTable transcribes: " + " | ".join(r[1][:30] for r in doc[1:]))
    DOC = {  # transcription of the csv rows (same as CyVerif.C07.docTable); None = the table leaves it open
        True: lambda t1, t2: ("float" if t1 == "f" or t2 == "f" else ("float" if t2 == "cn" else "int")),
        False: lambda t1, t2: ("softcomplex" if (t1 == "f" and t2 == "f") else "float" if t1 == "f" else None if t2 == "f"
                               else "float" if t2 in ("cn", "is") else "int"),
    }
    for cpow, so in ((True, so_rt1), (False, so_rt0)):
        if isinstance(so, cybuild.BuildError):
            continue
        cells = [(k1, k2) for k1 in T1 for k2 in T2]
        calls = []
        for k1, k2 in cells:
            args = [x for x, d in (("3", T1[k1][0]), ("2", T2[k2][0])) if d]
            calls.append(("rt_%s_%s" % (k1, k2), "(%s)" % "".join(a + "," for a in args)))
        outs = cybuild.run_cases(ctx, so, calls)
        mouts = ctx.drv.batch(["C07 rtype 1 %d %s %s" % (cpow, k1, k2) for k1, k2 in cells])
        for (k1, k2), got, mo in zip(cells, outs, mouts):
            impl = classify_typeof(eval(got[len("ok str:"):])) if got.startswith("ok str:") else got
            model = mo[3:]
            exp = DOC[cpow](k1, k2)
            ctx.count("rtype/cpow=%s" % cpow)
            ctx.seen(("rtype", cpow, k1, k2), nontrivial=True)
            rep = {"rtype": [cpow, k1, k2], "impl": impl, "doc": exp}
            if exp is not None and impl != exp:
                ctx.violation("cpow-table-%s-%s-%s" % (cpow, k1, k2),
                              "cpow=%s: (%s) ** (%s) has C result type class %s, documented %s" % (cpow, k1, k2, impl, exp), rep)
            if impl != model:
                ctx.tie_break("D-c compute_c_result_type vs CyVerif.C07.resultType", "cpow=%s %s**%s: model %s impl %s" % (cpow, k1, k2, model, impl), rep)
        ctx.sample({"rtype": [cpow, cells[0]], "impl": outs[0], "model": mouts[0]})

"""C43 search leg: totality and acceptance of the compiler front door.

run_search(ctx) feeds three families of program texts (grammar-generated valid
Python, mutated/truncated programs, literal/nesting-focused programs) to the
STAGED pure-Python compiler in child processes and to CPython's own compile()
(the oracle, also in a child process), and reports

  * any internal exception / "Compiler crash" / hang / death of the compiler,
  * any program CPython compiles that Cython rejects (apart from the three
    documented exemptions),
  * any generated C file gcc does not accept (sampled).

Everything random comes from ctx.rng.
"""
import concurrent.futures as cf
import json
import os
import re
import select
import subprocess
import time

import lib
import cybuild

MAX_WORKERS = 12
MINIMISE_MAX = 6        # violations minimised per run
MINIMISE_BUDGET = 40    # compiler re-runs per minimised violation (thorough; quick uses 16)
TEXT_CAP = 6000

# --------------------------------------------------------------------------
# child processes: one JSON line per program, flushed, so that a dying child
# identifies the program it was working on.

_CY_WORKER = r'''
import sys, os, json, signal, io, traceback, re, time
stage, wdir, jobs_path, per_timeout = sys.argv[1], sys.argv[2], sys.argv[3], int(sys.argv[4])
deadline = float(sys.argv[5])
cpu_used = []
proto = os.fdopen(os.dup(1), "w")
devnull = open(os.devnull, "w")
os.dup2(devnull.fileno(), 1)
def emit(obj):
    proto.write(json.dumps(obj) + "\n"); proto.flush()
import Cython.Compiler.Main as M
assert M.__file__.endswith(".py") and M.__file__.startswith(stage), M.__file__
import Cython.Compiler.Parsing as P, Cython.Compiler.Scanning as S, Cython.Compiler.Code as C
for mod in (P, S, C):
    assert mod.__file__.endswith(".py") and mod.__file__.startswith(stage), mod.__file__
from Cython.Compiler.Main import compile as cy_compile, CompilationOptions
from Cython.Compiler import Errors
cur = [None]
def on_alarm(sig, frm):
    emit({"d": cur[0], "o": "hang"})
    os._exit(17)
signal.signal(signal.SIGPROF, on_alarm)   # CPU-time limit: independent of machine load
cyroot = os.path.join(stage, "Cython") + os.sep
def cy_frames(tb):
    fr = []
    for f in traceback.extract_tb(tb):
        if f.filename.startswith(cyroot):
            fr.append((os.path.splitext(f.filename[len(cyroot):])[0].replace(os.sep, ".").replace("Compiler.", ""), f.name))
    return fr
POS = re.compile(r"^(?:[^\n:]*):(\d+):(\d+): (.*)$")
jobs = json.load(open(jobs_path))
emit({"ready": True})
for idx, text in jobs:
    if deadline and time.time() > deadline:
        emit({"d": idx, "o": "skipped"})
        continue
    cur[0] = idx
    emit({"s": idx})
    # CPU-time limit per program: max(per_timeout, 20 x median CPU time of the compiles of this worker so far)
    limit = per_timeout
    if len(cpu_used) >= 3:
        limit = max(per_timeout, 20 * sorted(cpu_used)[len(cpu_used) // 2])
    c0 = time.process_time()
    d = os.path.join(wdir, "p%d" % idx)
    os.makedirs(d, exist_ok=True)
    path = os.path.join(d, "mod%d.py" % idx)
    with open(path, "wb") as f:
        f.write(text.encode("utf-8", "surrogatepass"))
    err = io.StringIO()
    old_err, old_out = sys.stderr, sys.stdout
    sys.stderr, sys.stdout = err, io.StringIO()
    rec = {"d": idx}
    try:
        try:
            signal.setitimer(signal.ITIMER_PROF, limit)
            res = cy_compile(path, CompilationOptions(language_level=3))
            signal.setitimer(signal.ITIMER_PROF, 0)
            nerr = res.num_errors
            if nerr == 0 and res.c_file and os.path.exists(res.c_file) and os.path.getsize(res.c_file) > 1000:
                rec["o"] = "ok"; rec["c"] = res.c_file
            elif nerr == 0:
                rec["o"] = "internal"; rec["exc"] = "NoOutput"; rec["site"] = "Main.compile"; rec["msg"] = "num_errors == 0 but no C file"
            else:
                rec["o"] = "compile-error"; rec["n"] = nerr
        except BaseException as e:
            signal.setitimer(signal.ITIMER_PROF, 0)
            if isinstance(e, Errors.CompileError) and getattr(e, "position", None):
                rec["o"] = "compile-error"; rec["n"] = 1; rec["raised"] = True
                print(str(e), file=err)
            else:
                fr = cy_frames(e.__traceback__)
                rec["o"] = "internal"; rec["exc"] = type(e).__name__
                rec["msg"] = str(e)[:300]
                if isinstance(e, RecursionError):
                    mods = {}
                    for m_, f_ in fr[-200:]:
                        mods[m_] = mods.get(m_, 0) + 1
                    rec["site"] = max(sorted(mods), key=lambda k: mods[k]) if mods else "?"
                else:
                    rec["site"] = ("%s.%s" % fr[-1]) if fr else "?"
                rec["tb"] = ["%s.%s" % x for x in fr[-6:]]
    finally:
        sys.stderr, sys.stdout = old_err, old_out
    cpu_used.append(time.process_time() - c0)
    rec["cpu"] = round(cpu_used[-1], 2)
    txt = err.getvalue()
    msgs = []
    for line in txt.split("\n"):
        m = POS.match(line)
        if m:
            msgs.append([int(m.group(1)), int(m.group(2)), m.group(3)[:300]])
    rec["msgs"] = msgs[:5]
    if "Compiler crash" in txt:
        rec["o"] = "compiler-crash"
        m = re.search(r"Compiler crash in (\w+)", txt)
        rec["phase"] = m.group(1) if m else "?"
        fl = re.findall(r'File "[^"]*Cython/([\w/]+)\.py", line \d+, in (\S+)', txt)
        rec["site"] = ("%s.%s" % (fl[-1][0].replace("Compiler/", "").replace("/", "."), fl[-1][1])) if fl else "?"
        tail = [l for l in txt.strip().split("\n") if l.strip()]
        last = tail[-1] if tail else ""
        m = re.match(r"(\w+(?:\.\w+)*)(?::|$)", last)
        rec["exc"] = m.group(1).split(".")[-1] if m else "?"
        rec["msg"] = last[:300]
    if rec["o"] == "compile-error" and not msgs:
        rec["raw"] = txt[-300:]
    emit(rec)
emit({"end": True})
'''

_PY_ORACLE = r'''
import sys, os, json, warnings, time
warnings.simplefilter("ignore")
deadline = float(sys.argv[5])
proto = os.fdopen(os.dup(1), "w")
def emit(obj):
    proto.write(json.dumps(obj) + "\n"); proto.flush()
jobs = json.load(open(sys.argv[3]))
emit({"ready": True})
for idx, text in jobs:
    if deadline and time.time() > deadline:
        emit({"d": idx, "o": "skipped"})
        continue
    emit({"s": idx})
    try:
        compile(text.encode("utf-8", "surrogatepass"), "<gen>", "exec", dont_inherit=True)
        emit({"d": idx, "o": "accepts"})
    except (SyntaxError, ValueError, OverflowError, RecursionError, MemoryError, UnicodeError, SystemError) as e:
        emit({"d": idx, "o": "rejects: %s: %s" % (type(e).__name__, str(e)[:160])})
emit({"end": True})
'''


def _run_children(script, stage, wdir, jobs, per_timeout, deadline=None, env_extra=None):
    """jobs: list of (idx, text).  Returns {idx: record}.  A job that was started but never finished
    because the child died is recorded as outcome 'worker-died' (or 'hang' if the watchdog killed the
    child); the remaining jobs go to a fresh child."""
    os.makedirs(wdir, exist_ok=True)
    results = {}
    pending = list(jobs)
    rounds = 0
    nostart = 0
    while pending:
        if deadline and time.time() > deadline:
            for j in pending:
                results[j[0]] = {"d": j[0], "o": "skipped"}
            break
        rounds += 1
        jp = os.path.join(wdir, "jobs%d.json" % rounds)
        with open(jp, "w") as f:
            json.dump(pending, f)
        errp = os.path.join(wdir, "stderr%d.txt" % rounds)
        with open(errp, "wb") as ef:
            p = subprocess.Popen([lib.PYTHON, "-c", script, stage, wdir, jp, str(per_timeout), repr(float(deadline or 0))], stdout=subprocess.PIPE,
                                 stderr=ef, stdin=subprocess.DEVNULL, cwd=wdir,
                                 env=lib._clean_env(dict({"PYTHONPATH": stage}, **(env_extra or {}))))
            fd = p.stdout.fileno()
            buf = b""
            started = None
            killed = False
            expired = False
            ended = False
            ready = False
            last = time.time()
            while True:
                if deadline and time.time() > deadline + per_timeout:
                    # out of budget: the in-flight program is skipped, never judged
                    expired = True
                    p.kill()
                    break
                r, _, _ = select.select([fd], [], [], 1.0)
                if r:
                    chunk = os.read(fd, 65536)
                    if not chunk:
                        break
                    last = time.time()
                    buf += chunk
                    while b"\n" in buf:
                        line, buf = buf.split(b"\n", 1)
                        try:
                            o = json.loads(line)
                        except ValueError:
                            continue
                        if "s" in o:
                            started = o["s"]
                        elif "d" in o:
                            results[o["d"]] = o
                            started = None
                        elif o.get("end"):
                            ended = True
                        elif o.get("ready"):
                            ready = True
                elif time.time() - last > (per_timeout * 8 + 120 if ready else 1200):   # wall-clock backstop only
                    killed = True
                    p.kill()
                    break
            p.stdout.close()
            rc = p.wait()
        if expired:
            for j in pending:
                if j[0] not in results:
                    results[j[0]] = {"d": j[0], "o": "skipped"}
            break
        if started is not None and started not in results:
            tail = ""
            try:
                tail = open(errp, "rb").read()[-300:].decode("utf-8", "replace")
            except OSError:
                pass
            results[started] = {"d": started, "o": "hang" if killed else "worker-died", "rc": rc, "msg": tail}
        elif not ended and started is None and len([j for j in pending if j[0] not in results]) == len(pending):
            # the child could not even start: infrastructure problem
            tail = open(errp, "rb").read()[-500:].decode("utf-8", "replace")
            nostart += 1
            if nostart <= 2:
                time.sleep(1.0)
                continue
            raise lib.Infra("C43 search child failed to start (rc=%s): %s" % (rc, tail))
        pending = [j for j in pending if j[0] not in results]
        if rounds > len(jobs) + 6:
            raise lib.Infra("C43 search child keeps dying without progress")
    return results


def _parallel(script, stage, wroot, tag, jobs, per_timeout, workers=MAX_WORKERS, deadline=None):
    """Distribute (idx, text) jobs round-robin (in the given priority order) over up to `workers` children."""
    if not jobs:
        return {}
    order = list(jobs)
    nw = max(1, min(workers, len(jobs)))
    parts = [order[i::nw] for i in range(nw)]
    out = {}
    with cf.ThreadPoolExecutor(max_workers=nw) as ex:
        futs = [ex.submit(_run_children, script, stage, os.path.join(wroot, "%s_w%d" % (tag, i)), part, per_timeout, deadline)
                for i, part in enumerate(parts)]
        for f in futs:
            out.update(f.result())
    return out


# --------------------------------------------------------------------------
# (a) grammar-directed generator of valid Python 3.12 programs.
# Every name that is read is defined: module-level pool, parameters, per-function
# locals initialised at the top of the function, builtins.

_HEADER = ("a = b = c = d = 0\nxs = [1, 2, 3]\ndd = {'k': 1, 'j': 2}\nst = 'text'\n"
           "def deco(f): return f\ndef decf(*args, **kwargs): return deco\n"
           "class Pt:\n    __match_args__ = ('x', 'y')\n    x = y = 0\n"
           "class CM:\n    def __enter__(self): return self\n    def __exit__(self, *exc): return False\n"
           "    async def __aenter__(self): return self\n    async def __aexit__(self, *exc): return False\n"
           "    def __aiter__(self): return self\n    async def __anext__(self): raise StopAsyncIteration\n")
_BINOPS = ["+", "-", "*", "/", "//", "%", "**", "@", "<<", ">>", "&", "|", "^"]
_CMPOPS = ["<", ">", "<=", ">=", "==", "!=", "in", "not in", "is", "is not"]
_EXCS = ["ValueError", "TypeError", "KeyError", "Exception", "OSError", "(ValueError, TypeError)", "ZeroDivisionError"]
_CALLEES = ["print", "print", "dict", "deco", "decf", "Pt", "CM", "max"]   # callables that take any arguments (builtins with fixed C signatures are checked at compile time)
_IMPORTS = ["import os", "import os.path as osp", "from sys import path as sp, argv", "import json, re",
            "from collections import (OrderedDict,\n    defaultdict as ddict,)", "import xml.etree.ElementTree as ET",
            "from os.path import join", "import collections.abc"]
_ANNOTS = ["object", "'Pt'", "'Pt | None'", "'typing.Any'", "\"'Pt'\""]   # annotations that do not type the variable (annotation typing is documented behaviour)
T_TIGHT, T_BIN, T_CMP, T_BOOL, T_LOOSE = 0, 1, 2, 3, 4


class _Sc:
    def __init__(self, kind, reads, inner, writes, fdepth=0, is_async=False, can_yield=False, in_loop=False,
                 no_jump=False, walrus=True, in_func=False, ret_value=True, in_lambda=False):
        self.kind, self.reads, self.inner, self.writes = kind, reads, inner, writes
        self.fdepth, self.is_async, self.can_yield, self.in_loop = fdepth, is_async, can_yield, in_loop
        self.no_jump, self.walrus, self.in_func, self.ret_value, self.in_lambda = no_jump, walrus, in_func, ret_value, in_lambda

    def block(self, **kw):
        s = _Sc(self.kind, list(self.reads), list(self.inner), self.writes, self.fdepth, self.is_async, self.can_yield,
                self.in_loop, self.no_jump, self.walrus, self.in_func, self.ret_value, self.in_lambda)
        for k, v in kw.items():
            setattr(s, k, v)
        return s

    def add(self, name, inner=True):
        self.reads.append(name)
        if inner and self.kind != "class":
            self.inner.append(name)

    def nested(self, extra, **kw):
        """scope of a lambda / comprehension: sees the names nested functions see, plus its own."""
        s = _Sc("expr", list(self.inner) + list(extra), list(self.inner) + list(extra), [], self.fdepth, self.is_async,
                False, False, True, False, self.in_func, False, self.in_lambda)
        for k, v in kw.items():
            setattr(s, k, v)
        return s


class _Gen:
    def __init__(self, rng, pep=False):
        self.r = rng
        self.uid = 0
        self.fq = []          # quote characters of the enclosing f-strings
        self.pep701 = False
        self.pep = pep        # allow 3.12-only syntax (PEP 695 generics / type statements, PEP 701 quote reuse)
        self.units = ["    "]

    def pick(self, seq):
        return seq[self.r.randrange(len(seq))]

    def chance(self, p):
        return self.r.random() < p

    def nid(self):
        self.uid += 1
        return self.uid

    # ---------------- expressions
    def atom(self, sc):
        k = self.r.randrange(13)
        if k < 5:
            return self.pick(sc.reads)
        if k == 5:
            return str(self.r.randrange(100))
        if k == 6:
            return self.pick(["1.5", "0x1f", "0b101", "0o17", "1_000", "2j", "1e3", ".5", "5.", "0xFFFFFFFFFFFFFFFFFF", "1E-3", "0_0"])
        if k == 7:
            if self.fq and not self.pep701:
                return str(self.r.randrange(10))
            return self.pick(["'s'", '"q"', "b'by'", "r'\\d'", "'''t'''", "'a' 'b'", "u'u'", "'\\n\\x41\\u00e9'", "'%s-%r'", '"""q"""', "'\\N{BULLET}'", "Rb'\\x'"])
        if k == 8:
            return self.pick(["None", "True", "False", "...", "xs", "dd", "st", "Ellipsis", "NotImplemented", "__name__"])
        if k == 9:
            if self.fq and not self.pep701:
                return self.pick(["len(xs)", "st.upper()", "xs[0]", "xs[1:]", "xs[::2]", "st[-1]", "dd.get(st)"])
            return self.pick(["len(xs)", "st.upper()", "xs[0]", "dd['k']", "xs[1:]", "xs[::2]", "st[-1]", "dd.get('k', 0)", "st.join(['x'])"])
        if k == 10:
            return self.fstring(sc, 1)
        return self.pick(["()", "[]", "{}", "(1,)", "[a]", "{1, 2}", "(a, b)", "[1, 2][0]", "(  )", "{1: 2}"])

    def expr(self, sc, d):
        return self._e(sc, d)[0]

    def sub(self, sc, d, maxcls):
        t, c = self._e(sc, d)
        if c > maxcls or (c == T_BIN and self.chance(0.4)):
            return "(" + t + ")"
        return t

    def _e(self, sc, d):
        if d <= 0 or self.chance(0.2):
            return self.atom(sc), T_TIGHT
        k = self.r.randrange(26)
        if k == 0 or k == 1:
            op = self.pick(_BINOPS)
            return "%s %s %s" % (self.sub(sc, d - 1, T_BIN), op, self.sub(sc, d - 1, T_BIN)), T_BIN
        if k == 2:
            return self.pick(["-", "+", "~", "- ", "--", "-+~"]) + self.sub(sc, d - 1, T_BIN), T_BIN
        if k == 3 or k == 4:
            n = self.pick([1, 1, 2, 3])
            t = self.sub(sc, d - 1, T_BIN)
            for _ in range(n):
                t += " %s %s" % (self.pick(_CMPOPS), self.sub(sc, d - 1, T_BIN))
            return t, T_CMP
        if k == 5:
            op = self.pick([" and ", " or "])
            return op.join(self.sub(sc, d - 1, T_BOOL) for _ in range(self.pick([2, 2, 3]))), T_BOOL
        if k == 6:
            return "not " + self.sub(sc, d - 1, T_BOOL), T_BOOL
        if k == 7 or k == 8:
            return self.call(sc, d), T_TIGHT
        if k == 9:
            t = self.sub(sc, d - 1, T_TIGHT)
            if t[0].isdigit() or t[0] == ".":
                t = "(" + t + ")"
            return t + "." + self.pick(["real", "imag", "attr", "__class__", "upper", "x"]), T_TIGHT
        if k == 10 or k == 11:
            t = self.sub(sc, d - 1, T_TIGHT)
            e = lambda: self.sub(sc, d - 1, T_BOOL)
            sl = self.pick(["%s" % e(), "%s:%s" % (e(), e()), "::%s" % e(), ":", "%s:" % e(), "%s, %s:%s" % (e(), e(), e()),
                            "..., %s" % e(), "*xs, %s" % e(), "%s:%s:%s" % (e(), e(), e()), "(%s, %s)" % (e(), e()), "::"])
            return "%s[%s]" % (t, sl), T_TIGHT
        if k == 12:
            return "%s if %s else %s" % (self.sub(sc, d - 1, T_BOOL), self.sub(sc, d - 1, T_BOOL), self.expr(sc, d - 1)), T_LOOSE
        if k == 13:
            return self.lambda_(sc, d), T_LOOSE
        if k == 14 or k == 15:
            return self.display(sc, d), T_TIGHT
        if k == 16 or k == 17 or k == 18:
            return self.comprehension(sc, d), T_TIGHT
        if k == 19:
            return self.fstring(sc, d), T_TIGHT
        if k == 20 and sc.walrus and sc.writes:
            return "(%s := %s)" % (self.pick(sc.writes), self.expr(sc, d - 1)), T_TIGHT
        if k == 21 and sc.is_async and not sc.in_lambda:
            return "await " + self.sub(sc, d - 1, T_TIGHT), T_BIN
        if k == 22 and sc.can_yield:
            if sc.is_async or self.chance(0.6):
                return self.pick(["(yield %s)" % self.expr(sc, d - 1), "(yield)", "(yield %s, %s)" % (self.atom(sc), self.atom(sc))]), T_TIGHT
            return "(yield from %s)" % self.sub(sc, d - 1, T_BOOL), T_TIGHT
        if k == 23:
            return "'%%s %%r' %% (%s, %s)" % (self.sub(sc, d - 1, T_BOOL), self.sub(sc, d - 1, T_BOOL)), T_BIN
        if k == 24:
            return "(" + self.expr(sc, d - 1) + ")", T_TIGHT
        return self.atom(sc), T_TIGHT

    def call(self, sc, d):
        f = self.pick(_CALLEES) if self.chance(0.7) else self.sub(sc, d - 1, T_TIGHT)
        if f[0].isdigit() or f[0] == ".":
            f = "(" + f + ")"
        if self.chance(0.1):
            return "%s(%s for i in xs)" % (f, self.pick(["i", "i + 1", "(i, a)"]))
        args = [self.sub(sc, d - 1, T_LOOSE) for _ in range(self.r.randrange(3))]
        if self.chance(0.25):
            args.append("*xs")
        if self.chance(0.15):
            args.append("*" + self.sub(sc, d - 1, T_BIN))
        for kw in ("sep", "end", "key")[:self.r.randrange(3)]:
            args.append("%s=%s" % (kw, self.sub(sc, d - 1, T_LOOSE)))
        if self.chance(0.2):
            args.append("**dd")
        if self.chance(0.1):
            args.append("**{'file': None}")
        t = ", ".join(args)
        if args and self.chance(0.2):
            t += ","
        return "%s(%s)" % (f, t)

    def lambda_(self, sc, d):
        n = self.nid()
        forms = [("", []), ("l%d" % n, ["l%d" % n]), ("l%d, m%d=1" % (n, n), ["l%d" % n, "m%d" % n]),
                 ("*l%d, **m%d" % (n, n), ["l%d" % n, "m%d" % n]), ("l%d, /, m%d, *, n%d=%s" % (n, n, n, self.atom(sc)), ["l%d" % n, "m%d" % n, "n%d" % n]),
                 ("*, l%d" % n, ["l%d" % n])]
        ps, names = self.pick(forms)
        body = self.expr(sc.nested(names, in_lambda=True, is_async=False), d - 1)
        return "lambda%s: %s" % ((" " + ps) if ps else "", body)

    def display(self, sc, d):
        e = lambda: self.sub(sc, d - 1, T_LOOSE)
        k = self.r.randrange(8)
        if k == 0:
            return "[%s, %s]" % (e(), e())
        if k == 1:
            return "[*xs, %s, *%s]" % (e(), self.sub(sc, d - 1, T_BIN))
        if k == 2:
            return "(%s, %s, *xs)" % (e(), e())
        if k == 3:
            return "{%s, *xs}" % e()
        if k == 4:
            return "{%s: %s, **dd, 'z': %s}" % (self.sub(sc, d - 1, T_LOOSE), e(), e())
        if k == 5:
            return "{**dd, **{%s: %s}}" % (self.atom(sc), e())
        if k == 6:
            return "(%s,)" % e()
        return "[\n    %s,\n  %s,  # trailing\n]" % (e(), e())

    def comprehension(self, sc, d):
        n = self.nid()
        i, j = "i%d" % n, "j%d" % n
        kind = self.r.randrange(5)
        two = self.chance(0.35)
        isc = sc.nested([i, j] if two else [i])
        it1 = self.pick(["xs", "range(3)", "dd.items()", "st", "zip(xs, xs)"]) if self.chance(0.7) else self.sub(sc.nested([]), d - 1, T_BOOL)
        tgt1 = i
        if it1 in ("dd.items()", "zip(xs, xs)") and not two:
            tgt1 = self.pick(["%s, _" % i, "(%s, _)" % i, "%s, *_" % i, "[%s, _]" % i])
        a_ = "async " if (sc.is_async and not sc.in_lambda and self.chance(0.3)) else ""
        if a_:
            it1 = "CM()"
            tgt1 = i
        clauses = "%sfor %s in %s" % (a_, tgt1, it1)
        if two:
            clauses += " for %s in %s" % (j, self.pick(["xs", "range(%s)" % i, "[%s]" % i, self.sub(isc, d - 1, T_BOOL)]))
        for _ in range(self.pick([0, 0, 1, 2])):
            clauses += " if " + self.sub(isc, d - 1, T_BOOL)
        el = self.sub(isc, d - 1, T_LOOSE)
        if kind == 0:
            return "[%s %s]" % (el, clauses)
        if kind == 1:
            return "{%s %s}" % (el if not el.startswith("{") else "(" + el + ")", clauses)
        if kind == 2:
            return "{%s: %s %s}" % (self.sub(isc, d - 1, T_LOOSE), el, clauses)
        if kind == 3:
            return "(%s %s)" % (el, clauses)
        return "%s(%s %s)" % (self.pick(["list", "sum", "any", "sorted", "tuple"]), el, clauses)

    def fstring(self, sc, d):
        if len(self.fq) >= 2 and not self.pep701:
            return "'plain'"
        outer_pep = self.pep701
        if not self.fq and self.pep and self.chance(0.3):
            self.pep701 = True
        avail = [q for q in ['"', "'", '"""', "'''"] if self.pep701 or all(q[0] != u[0] for u in self.fq)]
        q = self.pick(avail)
        pre = self.pick(["f", "F", "rf", "fr", "Rf", "fR", "f", "f"])
        self.fq.append(q)
        try:
            parts = []
            for _ in range(self.r.randrange(1, 4)):
                k = self.r.randrange(9)
                ex = lambda dd_=d - 1: self._fexpr(sc, dd_)
                if k == 0:
                    parts.append(self.pick(["text ", "{{", "}}", " % ", "#", "it''s" if q[0] == '"' and len(q) == 3 else "-", ""]))
                elif k == 1:
                    parts.append("{%s}" % ex())
                elif k == 2:
                    parts.append("{%s!%s}" % (ex(), self.pick("rsa")))
                elif k == 3:
                    parts.append("{%s:%s}" % (ex(), self.pick([">10", "<5", "^8", "08.3f", "x", "#x", ",", "_", "%Y", ""])))
                elif k == 4:
                    parts.append("{%s:{%s}.{%s}}" % (ex(), self._fexpr(sc, 0), self._fexpr(sc, 0)))
                elif k == 5:
                    parts.append("{%s=}" % ex())
                elif k == 6:
                    parts.append("{%s = !r:>{%s}}" % (ex(), self._fexpr(sc, 0)))
                elif k == 7:
                    parts.append("{%s!r:^{%s}}" % (ex(), self._fexpr(sc, 0)))
                else:
                    parts.append("{ %s }" % ex())
            return pre + q + "".join(parts) + q
        finally:
            self.fq.pop()
            self.pep701 = outer_pep

    def _fexpr(self, sc, d):
        t = self.sub(sc.block(walrus=False), d, T_BOOL)
        if "\n" in t and len(self.fq[-1]) == 1 and not self.pep701:
            t = self.atom(sc.block())
            if "\n" in t:
                t = "a"
        if not self.pep701 and ("\\" in t or "#" in t or any(u[0] in t for u in self.fq)):
            t = self.pick(sc.reads)
        if t.startswith("{"):
            t = " " + t
        if "!=" in t or t.rstrip().endswith(("=", "!", ":")) or ":" in t and not t.startswith("("):
            t = "(" + t + ")"
        return t

    # ---------------- statements (each returns a list of lines without trailing newline)
    def ind(self, lines, unit=None):
        unit = unit or self.pick(self.units)
        return [unit + l for l in lines]

    def target(self, sc):
        w = sc.writes
        if not w or self.chance(0.15):
            return self.pick(["dd['k']", "xs[0]", "xs[1:2]", "deco.attr", "dd[a, b]"])
        k = self.r.randrange(10)
        if k < 6 or len(w) < 2:
            return self.pick(w)
        if k == 6:
            return "%s, %s" % (w[0], w[1])
        if k == 7:
            return "%s, *%s" % (w[0], w[1])
        if k == 8:
            return "[%s, (%s, xs[0])]" % (w[0], w[1])
        return "(%s, %s)" % (w[-1], w[0])

    def simple(self, sc):
        k = self.r.randrange(30)
        e = lambda d=2: self.expr(sc, d)
        w = sc.writes
        if k < 5:
            t = self.target(sc)
            rhs = e(3)
            if "," in t or t.startswith(("[", "(")):
                rhs = self.pick(["xs", "(1, 2)", "%s, %s" % (self.atom(sc), self.atom(sc)), "1, (2, 3)", "*xs,", "range(2)"])
            elif self.chance(0.15) and w:
                t = "%s = %s" % (self.pick(w), t)
            return ["%s = %s" % (t, rhs)]
        if k < 8:
            t = self.pick(w) if w and self.chance(0.8) else self.pick(["dd['k']", "xs[0]", "deco.attr"])
            return ["%s %s= %s" % (t, self.pick(_BINOPS), e())]
        if k == 8:
            n = self.nid()
            return [self.pick(["an%d: %s = %s" % (n, self.pick(_ANNOTS), e()), "an%d: %s" % (n, self.pick(_ANNOTS)),
                               "xs[0]: 'int' = %s" % e(), "(an%d): object = %s" % (n, e(1)), "deco.attr: 'int'"])]
        if k < 12:
            return [self.pick([self.call(sc, 2), e(3), "print(%s)" % e(), "..."])]
        if k == 12:
            return [self.pick(["pass", "pass  # nothing", "'''string statement'''", "0"])]
        if k == 13:
            n = self.nid()
            return ["zd%d = zz%d = %s" % (n, n, e(1)), self.pick(["del zd%d, zz%d" % (n, n), "del (zd%d), [zz%d]" % (n, n), "del zd%d; del zz%d" % (n, n)])]
        if k == 14:
            return [self.pick(["del dd['k']", "del xs[0], xs[1:2]", "del deco.attr", "del (xs[0])", "del xs[:]"])]
        if k == 15:
            return [self.pick(["assert %s" % e(), "assert %s, %s" % (e(), e(1)), "assert (%s), 'msg'" % e(1)])]
        if k == 16:
            ex = self.pick(["ValueError", "TypeError('x')", "KeyError(%s)" % e(1), "Exception"])
            return [self.pick(["raise %s" % ex, "raise %s from None" % ex, "raise %s from %s" % (ex, self.pick(["ValueError()", e(1)])), "raise"])]
        if k == 17 and sc.in_func and not sc.no_jump:
            if not sc.ret_value:
                return ["return"]
            return [self.pick(["return", "return %s" % e(), "return %s, %s" % (e(1), e(1)), "return (yield)" if sc.can_yield else "return None", "return *xs, %s" % e(1)])]
        if k == 18 and sc.in_loop and not sc.no_jump:
            return [self.pick(["break", "continue"])]
        if k == 19:
            imp = self.pick(_IMPORTS)
            if sc.kind == "module" and not sc.in_func and self.chance(0.1):
                imp = "from os.path import *"
            return imp.split("\n")
        if k == 20 and sc.can_yield:
            if sc.is_async or self.chance(0.5):
                return [self.pick(["yield", "yield %s" % e(), "yield %s, %s" % (e(1), e(1)), "%s = yield %s" % (self.pick(w), e(1)) if w else "yield"])]
            return ["yield from %s" % e()]
        if k == 21 and sc.is_async:
            return ["await %s" % self.sub(sc, 2, T_TIGHT)]
        if k == 22:
            a_, b_ = self.simple(sc), self.simple(sc)
            if len(a_) == 1 and len(b_) == 1 and "\n" not in a_[0] + b_[0] and "#" not in a_[0]:
                return ["%s; %s%s" % (a_[0].rstrip(" ;"), b_[0].rstrip(" ;"), self.pick(["", ";", " ;"]))]
            return a_ + b_
        if k == 23 and w:
            return ["%s = %s + \\" % (self.pick(w), self.sub(sc, 1, T_BIN)), "      %s" % self.sub(sc, 1, T_BIN)]
        if k == 24:
            return [self.pick(["# comment", "        # deep comment", "#", " # odd", "\t# tab comment", ""])]
        if k == 25 and self.pep and sc.kind != "expr":
            n = self.nid()
            return [self.pick(["type Al%d = int | None" % n, "type Al%d[T] = list[T]" % n, "type Al%d[T: int, *Ts, **P] = tuple[T, *Ts]" % n])]
        if k == 26 and w:
            return ["%s = (%s,\n    %s)" % (self.pick(w), e(1), e(1))]
        return ["%s = %s" % (self.pick(w), e(3))] if w else ["print(%s)" % e(3)]

    def body(self, sc, d, n=None):
        lines = []
        n = n if n is not None else self.r.randrange(1, 4)
        for _ in range(n):
            lines += self.stmt(sc, d)
        if not any(l.strip() and not l.lstrip().startswith("#") for l in lines):
            lines.append("pass")
        # a block must not START with a misplaced comment-only dedent problem: comments are free; fine
        return lines

    def suite(self, sc, d, **kw):
        return self.ind(self.body(sc.block(**kw), d))

    def stmt(self, sc, d):
        if d <= 0 or self.chance(0.45):
            return self.simple(sc)
        k = self.r.randrange(16)
        e = lambda dd_=2: self.expr(sc, dd_)
        w = sc.writes
        if k == 0 or k == 1:
            out = ["if %s:" % e()] + self.suite(sc, d - 1)
            for _ in range(self.pick([0, 0, 1, 2])):
                out += ["elif %s:" % e()] + self.suite(sc, d - 1)
            if self.chance(0.5):
                out += ["else:"] + self.suite(sc, d - 1)
            return out
        if k == 2 or k == 3:
            tgt = self.target(sc) if w else "dd['k']"
            it = self.pick(["xs", "range(3)", "dd", e()])
            if "," in tgt or tgt[0] in "[(":
                it = self.pick(["zip(xs, xs)", "dd.items()", "[(1, 2)]"])
            if "," not in tgt and self.chance(0.2):
                it = "*xs, %s" % self.atom(sc)
            out = ["for %s in %s:" % (tgt, it)] + self.suite(sc, d - 1, in_loop=True, no_jump=False)
            if self.chance(0.3):
                out += ["else:"] + self.suite(sc, d - 1)
            return out
        if k == 4:
            out = ["while %s:" % e()] + self.suite(sc, d - 1, in_loop=True, no_jump=False)
            if self.chance(0.3):
                out += ["else:"] + self.suite(sc, d - 1)
            return out
        if k == 5 or k == 6:
            return self.try_(sc, d)
        if k == 7:
            return self.with_(sc, d)
        if k == 8 or k == 9:
            return self.funcdef(sc, d)
        if k == 10:
            return self.classdef(sc, d)
        if k == 11 or k == 12:
            return self.match_(sc, d)
        if k == 13 and sc.is_async and not sc.in_lambda:
            if self.chance(0.5):
                tgt = self.pick(w) if w else "dd['k']"
                out = ["async for %s in CM():" % tgt] + self.suite(sc, d - 1, in_loop=True, no_jump=False)
                if self.chance(0.3):
                    out += ["else:"] + self.suite(sc, d - 1)
                return out
            return self.with_(sc, d, "async ")
        if k == 14:
            return self.funcdef(sc, d, force_async=True)
        return self.simple(sc)

    def try_(self, sc, d):
        out = ["try:"] + self.suite(sc, d - 1)
        form = self.r.randrange(5)
        if form == 4:
            return out + ["finally:"] + self.suite(sc, d - 1)
        star = form == 3
        for _ in range(self.pick([1, 1, 2, 3])):
            n = self.nid()
            exc = self.pick(_EXCS)
            if star:
                head = self.pick(["except* %s:" % exc, "except* %s as ex%d:" % (exc, n), "except *%s:" % exc])
            else:
                head = self.pick(["except %s:" % exc, "except %s as ex%d:" % (exc, n), "except %s as ex%d:" % (exc, n)])
            b = sc.block(no_jump=True) if star else sc.block()
            if " as " in head:
                b.add("ex%d" % n, inner=False)
            out += [head] + self.ind(self.body(b, d - 1))
        if not star and self.chance(0.25):
            out += ["except:"] + self.suite(sc, d - 1)
        if self.chance(0.3):
            out += ["else:"] + self.suite(sc, d - 1)
        if self.chance(0.3):
            out += ["finally:"] + self.suite(sc, d - 1)
        return out

    def with_(self, sc, d, pre=""):
        n = self.nid()
        b = sc.block()
        w = sc.writes
        items = []
        for i in range(self.pick([1, 1, 2, 3])):
            cm = self.pick(["CM()", "open(st)", self.call(sc, 1)])
            if self.chance(0.6):
                nm = "cm%d_%d" % (n, i)
                items.append("%s as %s" % (cm, self.pick([nm, nm, "(%s, *_)" % nm, "dd['k']", "deco.attr"])))
                b.add(nm, inner=False)
            else:
                items.append(cm)
        if self.chance(0.3):
            head = "%swith (%s%s):" % (pre, (",\n      ").join(items), self.pick(["", ","]))
        else:
            head = "%swith %s:" % (pre, ", ".join(items))
        return head.split("\n") + self.ind(self.body(b, d - 1))

    def params(self, sc, fd, method):
        names, parts = [], []
        ann = lambda: (": " + self.pick(_ANNOTS)) if self.chance(0.3) else ""
        dflt = lambda: self.atom(sc.block(walrus=False))
        if method:
            parts.append(self.pick(["self", "self", "cls"]))
            names.append(parts[0])
        if self.chance(0.3):
            parts += ["po%d%s" % (fd, ann()), "/"]
            names.append("po%d" % fd)
        if self.chance(0.7):
            parts.append("p%d%s" % (fd, ann()))
            names.append("p%d" % fd)
        if self.chance(0.5):
            a_ = ann()
            parts.append("q%d%s%s%s" % (fd, a_, " = " if a_ else "=", dflt()))
            names.append("q%d" % fd)
        star = False
        if self.chance(0.4):
            parts.append("*r%d%s" % (fd, ann()))
            names.append("r%d" % fd)
            star = True
        if self.chance(0.4):
            if not star:
                parts.append("*")
            parts.append("ko%d%s" % (fd, ann()))
            names.append("ko%d" % fd)
            if self.chance(0.5):
                parts.append("kd%d=%s" % (fd, dflt()))
                names.append("kd%d" % fd)
        if self.chance(0.4):
            parts.append("**kw%d%s" % (fd, ann()))
            names.append("kw%d" % fd)
        t = ", ".join(parts)
        if parts and not parts[-1].startswith("**") and self.chance(0.15):
            t += ","
        return t, names

    def decorators(self, sc):
        out = []
        for _ in range(self.pick([0, 0, 0, 1, 1, 2])):
            out.append("@" + self.pick(["deco", "decf(1, k=2)", "decf()", "(lambda f: f)", "xs[0].attr", "deco if a else decf()", "decf(*xs)(deco)"]))
        return out

    def funcdef(self, sc, d, method=False, force_async=None):
        n = self.nid()
        name = "f%d" % n
        fd = sc.fdepth + 1
        is_async = force_async if force_async is not None else self.chance(0.15)
        is_gen = self.chance(0.25)
        ps, pnames = self.params(sc, fd, method)
        locs = ["u%d" % fd, "v%d" % fd, "w%d" % fd]
        decl = []
        writes = list(locs) + [p for p in pnames if p[0] in "pq"]
        if self.chance(0.2):
            g = self.pick(["a", "b", "c", "d"])
            decl.append("global " + g)
            writes.append(g)
        if sc.in_func and sc.kind == "func" and self.chance(0.3):
            nl = "u%d" % sc.fdepth
            decl.append(self.pick(["nonlocal %s" % nl, "nonlocal %s, v%d" % (nl, sc.fdepth)]))
            writes.append(nl)
        reads = list(sc.inner) + pnames + locs
        fsc = _Sc("func", reads, list(reads), writes, fd, is_async, is_gen, False, False, True, True,
                  not (is_async and is_gen), False)
        tp = ""
        if self.pep and self.chance(0.15):
            tp = self.pick(["[T]", "[T: int]", "[T, *Ts, **P]", "[T: (int, str)]"])
        ret = (" -> " + self.pick(_ANNOTS)) if self.chance(0.25) else ""
        head = "%sdef %s%s(%s)%s:" % ("async " if is_async else "", name, tp, ps, ret)
        lines = []
        if self.chance(0.25):
            lines.append(self.pick(['"""Docstring."""', "'''Multi\n    line\n    docstring.'''", "r'raw \\d doc'", '"doc" "concat"']))
        lines += decl
        lines.append("%s = %s = %s = 0" % tuple(locs))
        lines += self.body(fsc, d - 1, self.r.randrange(1, 5))
        if is_gen:
            lines.append(self.pick(["yield", "yield u%d" % fd, "v%d = yield" % fd]))
        out = self.decorators(sc) + [head] + self.ind(lines)
        if self.chance(0.1) and not decl and not is_gen:
            out = self.decorators(sc) + ["%sdef %s(%s)%s: %s" % ("async " if is_async else "", name, ps, ret, self.pick(["pass", "return p%d" % fd if "p%d" % fd in pnames else "return", "...", "u = 1; return u"]))]
        sc.add(name)
        return out

    def classdef(self, sc, d):
        n = self.nid()
        name = "C%d" % n
        bases = self.pick(["", "", "()", "(object)", "(Pt)", "(Exception)", "(dict, metaclass=type)", "(Pt, CM)", "(*xs[:0])", "(metaclass=type, **{})"])
        tp = self.pick(["[T]", "[T, *Ts]"]) if (self.pep and self.chance(0.15)) else ""
        csc = _Sc("class", list(sc.reads), list(sc.inner), ["k%d" % n, "kk%d" % n], sc.fdepth, False, False, False, True, True,
                  False, False, False)
        lines = []
        if self.chance(0.3):
            lines.append('"""Class doc."""')
        if self.chance(0.2):
            lines.append(self.pick(["__slots__ = ()", "__slots__ = ('s1', 's2')"]))
        for _ in range(self.r.randrange(1, 4)):
            k = self.r.randrange(6)
            if k < 2:
                lines += self.funcdef(csc, d - 1, method=True)
            elif k == 2:
                lines += self.classdef(csc, d - 1) if d > 1 else ["pass"]
            elif k == 3:
                lines += self.pick([["@staticmethod", "def sm(x=1): return x"], ["@classmethod", "def cmeth(cls, *a): return cls"],
                                    ["@property", "def prop(self): return 1", "@prop.setter", "def prop(self, value): pass"]])
            else:
                lines += self.stmt(csc, d - 1)
        if not any(l.strip() and not l.lstrip().startswith("#") for l in lines):
            lines.append("pass")
        out = self.decorators(sc) + ["class %s%s%s:" % (name, tp, bases)] + self.ind(lines)
        sc.add(name)
        return out

    def pattern(self, sc, d, caps):
        k = self.r.randrange(14) if d > 0 else self.r.randrange(6)
        if k == 0:
            return self.pick(["0", "1", "-1", "1.5", "-2.5", "2j", "-1+2j", "0x10", "1_0"])
        if k == 1:
            return self.pick(["'s'", "b'b'", "None", "True", "False", "'a' 'b'", '"""t"""', "r'r'"])
        if k == 2:
            return self.pick(["0 | 1 | 2", "'a' | 'b'", "None | False", "int() | str()", "[] | ()"])
        if k == 3:
            return "_"
        if k == 4:
            nm = "m%d" % self.nid()
            caps.append(nm)
            return nm
        if k == 5:
            return self.pick(["Pt.x", "st.upper", "dd.k.j"])
        if k == 6 or k == 7:
            items = [self.pattern(sc, d - 1, caps) for _ in range(self.r.randrange(0, 3))]
            if self.chance(0.4):
                nm = "m%d" % self.nid()
                caps.append(nm)
                items.insert(self.r.randrange(len(items) + 1), self.pick(["*" + nm, "*" + nm, "*_"]) if self.chance(0.8) else "*_")
                if items[-1] == "*_" and nm in caps and ("*" + nm) not in items:
                    caps.remove(nm)
            br = self.pick(["[]", "()"])
            t = ", ".join(items)
            if br == "()" and len(items) == 1:
                t += ","
            return br[0] + t + br[1]
        if k == 8 or k == 9:
            items = ["%s: %s" % (self.pick(["'k'", "'j'", "1", "None", "Pt.x", "b'b'"]), self.pattern(sc, d - 1, caps)) for _ in range(self.r.randrange(0, 3))]
            ks = [i.split(":")[0] for i in items]
            if len(set(ks)) != len(ks):
                items = items[:1]
            if self.chance(0.3):
                nm = "m%d" % self.nid()
                caps.append(nm)
                items.append("**" + nm)
            return "{" + ", ".join(items) + "}"
        if k == 10 or k == 11:
            cls = self.pick(["Pt", "int", "str", "dict", "Pt", "collections.abc.Mapping" if False else "Pt"])
            if cls == "Pt":
                form = self.r.randrange(4)
                if form == 0:
                    return "Pt(%s, %s)" % (self.pattern(sc, d - 1, caps), self.pattern(sc, d - 1, caps))
                if form == 1:
                    return "Pt(x=%s, y=%s)" % (self.pattern(sc, d - 1, caps), self.pattern(sc, d - 1, caps))
                if form == 2:
                    return "Pt(%s, y=%s,)" % (self.pattern(sc, d - 1, caps), self.pattern(sc, d - 1, caps))
                return "Pt()"
            return "%s(%s)" % (cls, self.pattern(sc, d - 1, caps) if self.chance(0.7) else "")
        if k == 12:
            nm = "m%d" % self.nid()
            inner = self.pattern(sc, d - 1, caps)
            if inner == "_" or re.fullmatch(r"m\d+", inner):
                inner = "[" + inner + "]"
            if " | " in inner:
                inner = "(" + inner + ")"
            caps.append(nm)
            return "%s as %s" % (inner, nm)
        return "(" + self.pattern(sc, d - 1, caps) + ")"

    def match_(self, sc, d):
        subj = self.pick([self.expr(sc, 2), "xs", "dd", "(a, b)", "a, b", "Pt()", "*xs, a"])
        out = ["match %s:" % subj]
        ncase = self.r.randrange(1, 5)
        cases = []
        for ci in range(ncase):
            caps = []
            pat = self.pattern(sc, 2, caps)
            if self.chance(0.15):
                caps2 = []
                alt = self.pattern(sc, 1, caps2)
                if not caps and not caps2 and "_" not in pat + alt and " as " not in pat + alt:
                    pat = "%s | %s" % (pat, alt)
            if self.chance(0.1) and "," not in pat and pat[0] not in "[({" and " as " not in pat and " | " not in pat:
                pat = pat + ", " + self.pattern(sc, 1, caps)   # open sequence pattern
            b = sc.block()
            for nm in caps:
                b.add(nm)
            irrefutable = pat == "_" or re.fullmatch(r"m\d+", pat) or re.fullmatch(r"\(+(_|m\d+)\)+", pat) is not None
            guard = ""
            if self.chance(0.3) or (irrefutable and ci != ncase - 1):
                guard = " if " + self.expr(b, 2)
            body = self.body(b, d - 1)
            if self.chance(0.35):
                extra = self.pick([lambda: self.funcdef(b, max(d - 1, 1)), lambda: self.classdef(b, max(d - 1, 1)),
                                   lambda: ["%s = %s" % (self.pick(sc.writes) if sc.writes else "dd['k']", self.lambda_(b, 2))]])()
                body = extra + body
            cases += ["case %s%s:" % (pat, guard)] + self.ind(body)
        return out + self.ind(cases)

    # ---------------- whole program
    def program(self):
        self.uid = 0
        # indentation style of this program: mostly spaces of varying width; tabs (alone or mixed with spaces
        # in a way CPython accepts) only in a small share of programs, because the compiler rejects most mixtures
        k = self.r.randrange(12)
        self.units = ([" ", "  ", "    ", "    ", "    ", "        ", "   "] if k < 9 else ["\t"] if k < 11 else [" ", "    ", "\t"])
        reads = ["a", "b", "c", "d", "a", "b", "xs", "dd", "st", "len", "print", "int", "str", "range", "deco", "Pt", "CM"]
        sc = _Sc("module", reads, list(reads), ["a", "b", "c", "d"])
        head = []
        if self.chance(0.1):
            head.append(self.pick(["# -*- coding: utf-8 -*-", "#!/usr/bin/env python", "# coding=latin-1", "# vim: set fileencoding=utf-8 :"]))
        if self.chance(0.2):
            head.append(self.pick(['"""Module docstring."""', "'''Module\n\ndoc with \\n escape and unicode é中'''", "'doc'"]))
        if self.chance(0.1):
            head.append(self.pick(["from __future__ import annotations", "from __future__ import (division, print_function)"]))
        lines = head + _HEADER.rstrip("\n").split("\n")
        for _ in range(self.r.randrange(3, 9)):
            lines += self.stmt(sc, 3)
        text = "\n".join(lines)
        end = self.r.randrange(10)
        if end < 7:
            text += "\n"
        elif end == 7:
            text += "\n\n    \n"
        elif end == 8:
            text += "  # no newline at end"
        return text


# --------------------------------------------------------------------------
# (b) mutation / truncation

_TOK = re.compile(r"[A-Za-z_]\w*|\d[\w.]*|\s+|.", re.S)
_ODD = ["\x00", "\x0c", "\r", "$", "?", "\u00e9", "\ufb01", "\ufeff", "`", "\\", '"""', "'", "\u00a0", "\u2028", "\U0001d4b3", "\x1a",
        "\u0660", "!", "\t", "\x7f", "\ud800".encode("utf-8", "surrogatepass").decode("latin-1")]
_KW = ["if", "while", "and", "or", "in", "is", "not", "for", "def", "class", "lambda", "else", "elif", "try", "except", "finally", "with",
       "as", "return", "yield", "await", "async", "match", "case", "global", "nonlocal", "del", "pass", "import", "from", "None", "print", "exec"]
_BADNUM = ["0777", "1__0", "0x", "1e", "1.2.3", "0b2", "0o8", "1_", "1e+", "0xg", "1_000_", "1jj", "1.e", "00", "0_7", "1e5j", "0b", "1 if a else 2if b else 3"]
_BRK = "()[]{}"


def _mutate(text, rng):
    ops = []
    for _ in range(rng.choice([1, 1, 2, 3])):
        op = rng.randrange(15)
        lines = text.split("\n")
        if op == 0 and len(text) > 2:
            text = text[:rng.randrange(1, len(text))]
            ops.append("truncate")
        elif op == 1 and len(lines) > 2:
            del lines[rng.randrange(len(lines))]
            text = "\n".join(lines)
            ops.append("del-line")
        elif op == 2 and len(lines) > 1:
            i = rng.randrange(len(lines))
            lines.insert(i, lines[i])
            text = "\n".join(lines)
            ops.append("dup-line")
        elif op in (3, 4, 5, 6, 7, 8):
            toks = _TOK.findall(text)
            idx = [i for i, t in enumerate(toks) if not t.isspace()]
            if not idx:
                continue
            i = rng.choice(idx)
            if op == 3:
                del toks[i]
                ops.append("del-token")
            elif op == 4:
                j = min(i + rng.choice([1, 2]), len(toks) - 1)
                toks[i], toks[j] = toks[j], toks[i]
                ops.append("swap-token")
            elif op == 5:
                bi = [k for k in idx if toks[k] in _BRK]
                if bi:
                    toks[rng.choice(bi)] = rng.choice(_BRK)
                ops.append("bracket")
            elif op == 6:
                ki = [k for k in idx if toks[k] in _KW]
                if ki:
                    toks[rng.choice(ki)] = rng.choice(_KW)
                else:
                    toks[i] = rng.choice(_KW)
                ops.append("keyword")
            elif op == 7:
                ni = [k for k in idx if toks[k][0].isdigit()]
                if ni:
                    toks[rng.choice(ni)] = rng.choice(_BADNUM)
                ops.append("number")
            else:
                qi = [k for k in idx if toks[k] in "'\""]
                if qi:
                    del toks[rng.choice(qi)]
                ops.append("quote")
            text = "".join(toks)
        elif op == 9 and lines:
            i = rng.randrange(len(lines))
            if rng.random() < 0.5 and lines[i][:1] in (" ", "\t"):
                lines[i] = lines[i][1:]
            else:
                lines[i] = rng.choice([" ", "\t", "    ", " \t"]) + lines[i]
            text = "\n".join(lines)
            ops.append("indent")
        elif op in (10, 11):
            pos = rng.randrange(len(text) + 1)
            text = text[:pos] + rng.choice(_ODD) + text[pos:]
            ops.append("odd-char")
        elif op == 12:
            text = rng.choice(["\ufeff" + text, text.replace("\n", "\r\n"), text.replace("\n", "\r"), "\ufeff# coding: utf-8\n" + text,
                               "# coding: latin-1\n" + text, "# coding: ascii\n" + text, "# coding: nonexistent-codec\n" + text,
                               text.replace("    ", "\t"), text + "\x0c", text + "\\", text.rstrip("\n") + "\n\x1a"])
            ops.append("encoding")
        elif op == 13:
            ident = [m for m in re.finditer(r"\b[a-d]\b", text)]
            if ident:
                m = rng.choice(ident)
                text = text[:m.start()] + rng.choice(["\u00e4", "\u5909\u6570", "\ufb01", "\u212b", "a\u0301", "\U00010400"]) + text[m.end():]
            ops.append("nonascii-ident")
        else:
            toks = _TOK.findall(text)
            if len(toks) > 4:
                i = rng.randrange(len(toks) - 2)
                j = min(len(toks), i + rng.randrange(1, 12))
                del toks[i:j]
                text = "".join(toks)
            ops.append("del-span")
    return text, "+".join(ops)


# --------------------------------------------------------------------------
# (c) literal- and nesting-focused programs

def _q(s):
    return repr(s)


_PARAM = {
    # sub: (function n -> python expression string rebuilding the text, candidate n values)
    "deep-paren": (lambda n: "'x = ' + '(' * %d + '1' + ')' * %d + '\\n'" % (n, n), "depth"),
    "deep-list": (lambda n: "'x = ' + '[' * %d + ']' * %d + '\\n'" % (n, n), "depth"),
    "deep-tuple": (lambda n: "'x = ' + '(' * %d + '1' + ',)' * %d + '\\n'" % (n, n), "depth"),
    "deep-dict": (lambda n: "'x = ' + '{1: ' * %d + '1' + '}' * %d + '\\n'" % (n, n), "depth"),
    "deep-set-in-list": (lambda n: "'x = ' + '[{' * %d + '1' + '}]' * %d + '\\n'" % (n // 2, n // 2), "depth"),
    "deep-call": (lambda n: "'def f(*a): return a\\nx = ' + 'f(' * %d + ')' * %d + '\\n'" % (n, n), "depth"),
    "deep-subscript": (lambda n: "'xs = []\\nx = ' + 'xs[' * %d + '0' + ']' * %d + '\\n'" % (n, n), "depth"),
    "deep-lambda": (lambda n: "'x = ' + 'lambda: ' * %d + '1\\n'" % n, "depth"),
    "deep-lambda-paren": (lambda n: "'x = ' + '(lambda: ' * %d + '1' + ')' * %d + '\\n'" % (n, n), "depth"),
    "deep-ifexp": (lambda n: "'x = ' + '1 if 0 else ' * %d + '2\\n'" % n, "depth"),
    "deep-unary-minus": (lambda n: "'x = ' + '-' * %d + '1\\n'" % n, "depth"),
    "deep-unary-not": (lambda n: "'x = ' + 'not ' * %d + '1\\n'" % n, "depth"),
    "deep-unary-invert": (lambda n: "'x = ' + '~' * %d + '1\\n'" % n, "depth"),
    "deep-power": (lambda n: "'x = ' + '2 ** ' * %d + '2\\n'" % n, "depth"),
    "deep-comprehension": (lambda n: "'x = ' + '[' * %d + '1' + ' for i in ()]' * %d + '\\n'" % (n, n), "depth"),
    "deep-genexp": (lambda n: "'x = ' + '(' * %d + '1' + ' for i in ())' * %d + '\\n'" % (n, n), "depth"),
    "deep-fstring-alt": (lambda n: "'a = 1\\nx = ' + ''.join('f' + q + '{' for q in ['\\'\\'\\'', '\"\"\"', '\\'', '\"'][:%d]) + 'a' + ''.join('}' + q for q in ['\\'\\'\\'', '\"\"\"', '\\'', '\"'][:%d][::-1]) + '\\n'" % (n, n), "tiny"),
    "deep-fstring-same": (lambda n: "'a = 1\\nx = ' + 'f\"{' * %d + 'a' + '}\"' * %d + '\\n'" % (n, n), "small"),
    "deep-fstring-spec": (lambda n: "'a = 1\\nx = f\\'' + '{a:' * %d + '}' * %d + '\\'\\n'" % (n, n), "tiny"),
    "deep-if-blocks": (lambda n: "''.join(' ' * i + 'if 1:\\n' for i in range(%d)) + ' ' * %d + 'pass\\n'" % (n, n), "indent"),
    "deep-for-blocks": (lambda n: "''.join(' ' * i + 'for i%%d in ():\\n' %% i for i in range(%d)) + ' ' * %d + 'pass\\n'" % (n, n), "blocks"),
    "deep-while-blocks": (lambda n: "''.join(' ' * i + 'while 0:\\n' for i in range(%d)) + ' ' * %d + 'break\\n'" % (n, n), "blocks"),
    "deep-try-blocks": (lambda n: "''.join(' ' * i + 'try:\\n' for i in range(%d)) + ' ' * %d + 'pass\\n' + ''.join(' ' * i + 'finally:\\n' + ' ' * i + ' pass\\n' for i in range(%d - 1, -1, -1))" % (n, n, n), "blocks"),
    "deep-with-blocks": (lambda n: "'import contextlib\\ncm = contextlib.nullcontext()\\n' + ''.join(' ' * i + 'with cm:\\n' for i in range(%d)) + ' ' * %d + 'pass\\n'" % (n, n), "blocks"),
    "deep-def": (lambda n: "''.join(' ' * i + 'def f%%d():\\n' %% i for i in range(%d)) + ' ' * %d + 'pass\\n'" % (n, n), "indent"),
    "deep-closure": (lambda n: "'def g(v):\\n' + ''.join(' ' * (i + 1) + 'def f%%d():\\n' %% i for i in range(%d)) + ' ' * (%d + 1) + 'return v\\n'" % (n, n), "indent"),
    "deep-class": (lambda n: "''.join(' ' * i + 'class C%%d:\\n' %% i for i in range(%d)) + ' ' * %d + 'pass\\n'" % (n, n), "indent"),
    "deep-match-seq": (lambda n: "'match 0:\\n case ' + '[' * %d + '_' + ']' * %d + ':\\n  pass\\n'" % (n, n), "depth"),
    "attr-chain": (lambda n: "'x = 1\\ny = x' + '.real' * %d + '\\n'" % n, "long"),
    "call-chain": (lambda n: "'def f(): return f\\ny = f' + '()' * %d + '\\n'" % n, "long"),
    "subscript-chain": (lambda n: "'xs = []\\ny = xs' + '[0]' * %d + '\\n'" % n, "long"),
    "sum-chain": (lambda n: "'x = 1' + ' + 1' * %d + '\\n'" % n, "long"),
    "sum-name-chain": (lambda n: "'a = 1\\nx = a' + ' + a' * %d + '\\n'" % n, "long"),
    "and-chain": (lambda n: "'a = 1\\nx = a' + ' and a' * %d + '\\n'" % n, "long"),
    "str-concat-chain": (lambda n: "'x = \\'a\\'' + ' + \\'a\\'' * %d + '\\n'" % n, "long"),
    "implicit-concat": (lambda n: "'x = (\\'a\\'' + ' \"b\"' * %d + ')\\n'" % n, "long"),
    "cmp-chain": (lambda n: "'a = 1\\nx = a' + ' < a' * %d + '\\n'" % n, "mid"),
    "long-list": (lambda n: "'x = [' + '1, ' * %d + ']\\n'" % n, "flat"),
    "long-list-names": (lambda n: "'a = 1\\nx = [' + 'a, ' * %d + ']\\n'" % n, "flat"),
    "long-dict": (lambda n: "'x = {' + ''.join('%%d: %%d, ' %% (i, i) for i in range(%d)) + '}\\n'" % n, "flat"),
    "long-set-str": (lambda n: "'x = {' + ''.join('\\'s%%d\\', ' %% i for i in range(%d)) + '}\\n'" % n, "flat"),
    "long-elif": (lambda n: "'a = 1\\nif a == 0:\\n pass\\n' + ''.join('elif a == %%d:\\n pass\\n' %% i for i in range(%d))" % n, "mid2"),
    "many-args": (lambda n: "'def f(*a, **k): pass\\nf(' + '1, ' * %d + ')\\n'" % n, "mid"),
    "many-kwargs": (lambda n: "'def f(*a, **k): pass\\nf(' + ''.join('k%%d=1, ' %% i for i in range(%d)) + ')\\n'" % n, "mid"),
    "many-params": (lambda n: "'def f(' + ''.join('p%%d, ' %% i for i in range(%d)) + '): return p0\\n'" % n, "mid"),
    "many-defaults": (lambda n: "'def f(' + ''.join('p%%d=%%d, ' %% (i, i) for i in range(%d)) + '): return p0\\n'" % n, "mid"),
    "many-targets": (lambda n: "''.join('t%%d, ' %% i for i in range(%d)) + '= range(%d)\\n'" % (n, n), "mid"),
    "many-assign-chain": (lambda n: "''.join('t%%d = ' %% i for i in range(%d)) + '0\\n'" % n, "mid"),
    "many-semicolons": (lambda n: "'a = 1' + '; a = 1' * %d + '\\n'" % n, "flat"),
    "many-statements": (lambda n: "'a = 1\\n' * %d" % n, "flat"),
    "many-decorators": (lambda n: "'def d(f): return f\\n' + '@d\\n' * %d + 'def g(): pass\\n'" % n, "mid"),
    "many-imports": (lambda n: "'import os' + ', os' * %d + '\\n'" % n, "mid"),
    "many-except": (lambda n: "'try:\\n pass\\n' + 'except ValueError:\\n pass\\n' * %d" % n, "mid"),
    "many-cases": (lambda n: "'match 0:\\n' + ''.join(' case %%d:\\n  pass\\n' %% i for i in range(%d))" % n, "mid"),
    "many-for-clauses": (lambda n: "'x = [0 ' + ''.join('for i%%d in () ' %% i for i in range(%d)) + ']\\n'" % n, "depth"),
    "long-str": (lambda n: "'x = \\'' + 'a' * %d + '\\'\\n'" % n, "huge"),
    "long-str-escapes": (lambda n: "'x = \\'' + '\\\\n\\\\x41\\\\u00e9' * %d + '\\'\\n'" % n, "flat"),
    "long-bytes": (lambda n: "'x = b\\'' + '\\\\xff' * %d + '\\'\\n'" % n, "flat"),
    "long-unicode-str": (lambda n: "'x = \\'' + '\\u00e9\\u4e2d\\U0001f600' * %d + '\\'\\n'" % n, "flat"),
    "long-triple-str": (lambda n: "'x = \\'\\'\\'' + 'line\\n' * %d + '\\'\\'\\'\\n'" % n, "flat"),
    "long-fstring": (lambda n: "'a = 1\\nx = f\\'' + '{a}-' * %d + '\\'\\n'" % n, "mid"),
    "long-comment": (lambda n: "'#' + 'c' * %d + '\\nx = 1\\n'" % n, "huge"),
    "long-identifier": (lambda n: "'v' * %d + ' = 1\\n'" % n, "flat"),
    "long-line-continuation": (lambda n: "'x = 1' + ' + \\\\\\n 1' * %d + '\\n'" % n, "mid"),
    "blank-lines": (lambda n: "'\\n' * %d + 'x = 1\\n'" % n, "huge"),
    "int-dec": (lambda n: "'x = ' + '9' * %d + '\\n'" % n, "digits"),
    "int-dec-underscore": (lambda n: "'x = 1' + '_0' * %d + '\\n'" % n, "digits2"),
    "int-hex": (lambda n: "'x = 0x' + 'f' * %d + '\\n'" % n, "bigdigits"),
    "int-HEX": (lambda n: "'x = 0X' + 'aB' * %d + '\\n'" % n, "bigdigits"),
    "int-oct": (lambda n: "'x = 0o' + '7' * %d + '\\n'" % n, "bigdigits"),
    "int-bin": (lambda n: "'x = 0b' + '10' * %d + '\\n'" % n, "bigdigits"),
    "int-hex-underscore": (lambda n: "'x = 0x' + '_f' * %d + '\\n'" % n, "bigdigits"),
    "int-neg-dec": (lambda n: "'x = -' + '9' * %d + '\\n'" % n, "digits"),
    "int-zeros": (lambda n: "'x = ' + '0' * %d + '\\n'" % n, "bigdigits"),
    "int-zeros-underscore": (lambda n: "'x = 0' + '_0' * %d + '\\n'" % n, "bigdigits"),
    "float-many-digits": (lambda n: "'x = 0.' + '0' * %d + '1\\n'" % n, "bigdigits"),
    "float-long-int-part": (lambda n: "'x = ' + '9' * %d + '.5\\n'" % n, "bigdigits"),
    "float-big-exp": (lambda n: "'x = 1e' + '9' * %d + '\\n'" % n, "small"),
    "float-neg-exp": (lambda n: "'x = 1e-' + '9' * %d + '\\n'" % n, "small"),
    "complex-many-digits": (lambda n: "'x = ' + '9' * %d + 'j\\n'" % n, "bigdigits"),
    "int-dec-arith": (lambda n: "'x = ' + '9' * %d + ' * 2 + 1\\n'" % n, "digits"),
    "int-in-index": (lambda n: "'xs = []\\nx = xs[' + '9' * %d + ':]\\n'" % n, "digits"),
    "int-shift-fold": (lambda n: "'x = 1 << %d\\n'" % n, "bigdigits"),
    "int-pow-fold": (lambda n: "'x = 10 ** %d\\n'" % n, "digits"),
    "str-mul-fold": (lambda n: "'x = \\'ab\\' * %d\\n'" % n, "bigdigits"),
}
_NVALS = {
    "depth": [10, 20, 30, 40, 50, 60, 80, 100, 120, 150, 170, 190], "indent": [10, 20, 40, 60, 80, 95, 99],
    "blocks": [5, 10, 15, 19, 20], "tiny": [1, 2, 3, 4], "small": [2, 3, 4, 5, 8, 20, 100, 149],
    "long": [50, 100, 200, 400, 800, 1500, 3000], "mid": [50, 100, 255, 256, 300, 1000], "mid2": [50, 200, 1000],
    "flat": [100, 1000, 5000, 20000], "huge": [1000, 30000, 100000], "digits": [20, 100, 1000, 4000, 4300],
    "digits2": [10, 100, 2149], "bigdigits": [20, 64, 100, 1000, 10000, 20000],
}

_STR_PREFIX = ["", "r", "R", "u", "U", "f", "F", "fr", "fR", "Fr", "FR", "rf", "rF", "Rf", "RF"]
_BYTES_PREFIX = ["b", "B", "br", "bR", "Br", "BR", "rb", "rB", "Rb", "RB"]
_QUOTES = ["'", '"', "'''", '"""']
_STR_BODIES = ["\\n", "\\x41", "\\xe9", "\\u00e9", "\\U0001F600", "\\N{BULLET}", "\\N{bullet}", "\\N{Latin Small Letter A}", "\\N{LINE FEED}",
               "\\N{LF}", "\\N{NBSP}", "\\N{LATIN CAPITAL LETTER GHA}", "\\N{CJK UNIFIED IDEOGRAPH-4E2D}", "\\N{HANGUL SYLLABLE GA}",
               "\\ud800", "\\udfff", "\\ud83d\\ude00", "\\U0010ffff", "\\U00110000", "\\0", "\\00", "\\000", "\\7", "\\377", "\\400", "\\777", "\\08",
               "\\\n", "\\d", "\\x00", "\\a\\b\\f\\v\\r\\t", "\\'", '\\"', "\\\\", "\u00e9\u4e2d\U0001f600", "\\N{}", "\\N{NO SUCH NAME}",
               "\\x4", "\\u12", "\\U0001F60", "\\8", "\\ ", "\\%", "%s %(k)d", "{}", "\\{", "\\N", "\x0c", "\t", "\\x41\\N{BULLET}\\u00e9", "\\\\N{BULLET}",
               "\x7f", "\u2028", "\\\r\n", "a\\\nb", "'" , '"', "''", '""', "#", "\\1234", "\\x411", "\\U000000e9"]
_F_BODIES = ["{a}", "{a!r:>5}", "{{", "}}", "{a=}", "{a:{b}}", "{a:\\n}", "{a!s}", "{ a }", "{a:%Y-%m}", "{a:{b}{b}}", "{'q'}", "{a,}", "{a:=^5}", "{(a:=1)}",
             "{a!r}{b!a}", "{a}\\N{BULLET}", "{a:\\x41}", "{lambda: 1}", "{(lambda: 1)}", "{a if a else b}", "{a:}", "{}", "{a!x}", "{a!}", "{", "}", "{a:{b:{a}}}",
             "{\na\n}", "{a # c\n}", "{a\\\n}", "{'\\n'}", "{a!r=}", "{a = }", "{*a}", "{yield}", "{a;b}", "{a:{{}}}"]
_BYTES_BODIES = ["\\x00\\xff", "\\377", "\\400", "\\777", "\\N{BULLET}", "\\u0041", "\\d", "\\0", "abc", "\\\n", "\\'", "\\\\", "\\x4", "\u00e9", "%d", "\\U00000041", "\x7f", "\t"]
_NUMS = ["0_0", "00", "000_000", "0e0", "00.5", "09.5", "09e1", "09j", "0_9j", "1_0.0_1e1_0", "1e999", "1e-999", "1.", ".1e+1_0", "1E+5", "0XfF", "0O17", "0B1",
         "1_000_000j", "1e999j", "0x_f", "0b_1", "0o_7", "1e1_0", "-0.0", "--1", "1if 1else 2", "[0x1for x in ()]", "1_000.", "1.e1", "1j.real", "1 .real",
         "1..real", "1.0.real", "0x1.real", "1e5.real", "1_0j.imag", "09", "0777", "1__0", "0x", "1e", "0b2", "0o8", "1_", "1e+", "0_", "0_x1", "1._5", "1e_5",
         "1.5e", "1.5j5", "0xe+1", "0b1e1", "1or 2", "1and 2", "0in()", "1is 1", "0b1_0_1", "0o1_7", ".0", ".", "..", "0.e-0", "1e0_0", "0E0", "1J", "1e1J",
         "4294967296", "9223372036854775808", "-9223372036854775809", "18446744073709551616", "0xFFFFFFFFFFFFFFFFFFFFFFFF", "-0x8000000000000000",
         "1.7976931348623157e308", "1.7976931348623159e308", "5e-324", "2e-324", "4.9406564584124654e-324", "0.1+0.2j", "1e400*0", "-1e400", "1e400j",
         "1_2_3.4_5e6_7", "٣", "１２", "1e1000000", "0.0000000000000000000000000000000000001e-1000000"]
_CONCAT = ["'a' f'{a}'", "f'{a}' 'b' f\"{b}\"", "b'a' b\"b\"", "'a' \"b\" '''c'''", "r'\\d' '\\n'", "u'a' 'b'", "('a'\n 'b')", "'a' b'b'", "f'{a}' b'b'", "'a' \\\n 'b'",
           "f'{a}' rf'\\d{b}' 'c'", "rb'\\d' B'x'", "'\\N{BULLET}' '\\ud800'", "'' ''", "f'' f''", "'a''b'", "'a'f'{a}'", "'{' f'{a}' '}'", "f'{a' '}'", "'\\ud83d' '\\ude00'",
           "'''a'b''c'''", '"""a"b""c"""', "'''\\''''", '""" " "" \\""" """', "''''a'''", "'''a''''", "'''\n'''", '"""\\\n"""']


def _lit_items(rng, count):
    items = []
    for i in range(count):
        k = rng.randrange(10)
        if k < 4:
            pre, q = rng.choice(_STR_PREFIX), rng.choice(_QUOTES)
            pool = _STR_BODIES + (_F_BODIES * 2 if "f" in pre.lower() else [])
            body = "".join(rng.choice(pool) for _ in range(rng.choice([1, 1, 2, 3])))
            items.append(pre + q + body + q)
        elif k < 6:
            pre, q = rng.choice(_BYTES_PREFIX), rng.choice(_QUOTES)
            body = "".join(rng.choice(_BYTES_BODIES) for _ in range(rng.choice([1, 1, 2, 3])))
            items.append(pre + q + body + q)
        elif k < 8:
            items.append(rng.choice(_NUMS))
        elif k == 8:
            items.append(rng.choice(_CONCAT))
        else:
            pre = rng.choice(["", "f", "rf", "F"])
            items.append(pre + "'" + rng.choice(_F_BODIES + _STR_BODIES) + "'" if pre else rng.choice(_NUMS) + " " + rng.choice(["+", "-", "*", "**", "if 1 else", "or"]) + " " + rng.choice(_NUMS))
    return items


def _param_programs(rng, count):
    subs = sorted(_PARAM)
    rng.shuffle(subs)
    out = []
    i = 0
    while len(out) < count:
        sub = subs[i % len(subs)]
        i += 1
        fn, cls = _PARAM[sub]
        n = rng.choice(_NVALS[cls])
        expr = fn(n)
        out.append({"kind": "literal", "sub": sub, "n": n, "expr": expr, "text": eval(expr, {"__builtins__": {"range": range}})})
    return out


# --------------------------------------------------------------------------
# verdicts

_EXEMPT = [("undeclared-name", re.compile(r"undeclared name not builtin")),
           ("unbound-local", re.compile(r"local variable '.*' referenced before assignment")),
           ("del-closure-var", re.compile(r"can not delete variable '.*' referenced in nested scope"))]


def _cap(s, n=400):
    s = str(s)
    return s if len(s) <= n else s[:n - 1] + "…"


def _slug(msg, maxlen=60):
    s = re.sub(r"'[^']*'|\"[^\"]*\"", "Q", msg)
    s = re.sub(r"\d+", "N", s)
    s = re.sub(r"[^A-Za-z0-9]+", "-", s).strip("-").lower()
    return s[:maxlen].rstrip("-") or "empty"


def _label(prog):
    return prog.get("sub") or prog["kind"]


def _verdict(prog, rec, cp):
    """-> (key, what) for a violation, ('exempt/<name>', None) for an exempted rejection, or None."""
    o = rec["o"]
    if o == "internal":
        site = rec.get("site", "?")
        key = "crash-%s-%s" % (rec.get("exc", "?"), site)
        return key, "internal exception %s escaped the compiler at %s (%s); frames %s" % (
            rec.get("exc"), site, rec.get("msg", "")[:120], ",".join(rec.get("tb", [])[-4:]))
    if o == "compiler-crash":
        if rec.get("exc") == "RecursionError":
            return ("compiler-crash-%s-RecursionError" % rec.get("phase", "?"),
                    "'Compiler crash in %s' reported: RecursionError (%s)" % (rec.get("phase"), _label(prog)))
        return ("compiler-crash-%s-%s-%s" % (rec.get("phase", "?"), rec.get("exc", "?"), rec.get("site", "?")),
                "'Compiler crash in %s' reported: %s at %s" % (rec.get("phase"), rec.get("msg", "")[:160], rec.get("site")))
    if o == "hang":
        return "hang-" + _label(prog), "compiler did not finish within the per-program time limit"
    if o == "worker-died":
        return "worker-died-" + _label(prog), "compiler process died (rc=%s) %s" % (rec.get("rc"), rec.get("msg", "")[-160:])
    if o == "compile-error":
        msgs = rec.get("msgs") or []
        if not msgs:
            return "unpositioned-error-" + _slug(rec.get("raw", "")[-80:]), "errors were counted but no 'file:line:col: message' was reported: %r" % rec.get("raw", "")[-200:]
        if cp == "accepts":
            first = msgs[0][2]
            for name, rx in _EXEMPT:
                if rx.search(first):
                    return "exempt/" + name, None
            return "reject-" + _slug(first), "CPython compiles the text, Cython reports %d:%d: %s" % (msgs[0][0], msgs[0][1], first[:200])
    return None


def _eval_expr(expr):
    return eval(expr, {"__builtins__": {"range": range}})


def _check(ctx, wroot, tag, progs, per_timeout, workers=MAX_WORKERS):
    """Run oracle (where prog has no 'cp' yet) and the staged compiler on progs; fills prog['cp'], prog['rec']."""
    deadline = getattr(ctx, "_c43_deadline", None)
    todo = [(i, p["text"]) for i, p in enumerate(progs) if "cp" not in p]
    if todo:
        res = _parallel(_PY_ORACLE, ctx.stage, wroot, tag + "_o", todo, per_timeout, workers=min(4, workers), deadline=deadline)
        for i, _ in todo:
            o = res[i]["o"]
            progs[i]["cp"] = o if o.startswith(("accepts", "rejects", "skipped")) else "rejects: CPython %s" % o
    run = [(i, p["text"]) for i, p in enumerate(progs) if p["cp"] != "skipped"]
    res = _parallel(_CY_WORKER, ctx.stage, wroot, tag + "_c", run, per_timeout, workers=workers, deadline=deadline)
    for i, p in enumerate(progs):
        p["rec"] = res.get(i) or {"d": i, "o": "skipped"}
    return progs


def _gcc(cfile, deadline=None):
    """None = accepted, ('skipped', None) = out of budget, (key, what) = rejected."""
    tmo = 900 if not deadline else max(1.0, deadline - time.time())
    try:
        p = subprocess.run(["gcc", "-fsyntax-only", "-w", "-I" + cybuild.PYINC, cfile], stdout=subprocess.PIPE,
                           stderr=subprocess.STDOUT, text=True, timeout=tmo, env=lib._clean_env())
    except subprocess.TimeoutExpired:
        if deadline:
            return "skipped", None
        return "cc-timeout", "gcc -fsyntax-only did not finish in 900 s"
    if p.returncode == 0:
        return None
    errs = [l for l in p.stdout.split("\n") if "error" in l] or p.stdout.strip().split("\n")[-1:]
    first = re.sub(r"^[^ ]*:\d+:\d+: ", "", errs[0])
    first = re.sub(r"__pyx_\w+", "ID", first)
    return "cc-" + _slug(first), "gcc rejects the generated C file: %s" % errs[0][-250:]


def _replay_dict(prog, outcome):
    d = {"leg": "search", "kind": prog["kind"], "outcome": outcome, "cpython": prog.get("cp", "?")}
    if prog.get("sub"):
        d["sub"] = prog["sub"]
    if prog.get("mut"):
        d["mutation"] = prog["mut"]
    if len(prog["text"]) <= TEXT_CAP:
        d["text"] = prog["text"]
    elif prog.get("expr"):
        d["text_expr"] = prog["expr"]
    else:
        d["text_expr"] = repr(prog["text"]) if len(prog["text"]) < 200000 else repr(prog["text"][:200000])
    return d


# --------------------------------------------------------------------------
# minimisation

def _minimise(ctx, wroot, tag, prog, key, per_timeout, budget=40):
    budget = min(budget, MINIMISE_BUDGET if not ctx.quick else 16)
    runs = [0]

    def test(texts):
        ps = [{"kind": prog["kind"], "sub": prog.get("sub"), "text": t} for t in texts]
        _check(ctx, wroot, "%s_r%d" % (tag, runs[0]), ps, per_timeout, workers=4)
        runs[0] += len(ps)
        out = []
        for p in ps:
            if p["rec"]["o"] == "skipped" or p["cp"] == "skipped":
                runs[0] = budget
                out.append(False)
                continue
            v = _verdict(p, p["rec"], p["cp"])
            same_cp = p["cp"].startswith("accepts") == prog["cp"].startswith("accepts")
            out.append(bool(v and v[0] == key and same_cp))
        return out, ps

    best = dict(prog)
    if prog.get("sub") in _PARAM and prog.get("n"):
        fn = _PARAM[prog["sub"]][0]
        n = prog["n"]
        ns = sorted(set(max(1, n >> k) for k in range(1, 9)))
        ns = [x for x in ns if x < n]
        if ns:
            ok, ps = test([_eval_expr(fn(x)) for x in ns])
            fails = [x for x, o in zip(ns, ok) if o]
            hi = min(fails) if fails else n
            passing = [x for x in ns if x < hi]
            lo = max(passing) if passing else 0
            if hi - lo > 1 and runs[0] < budget:
                step = max(1, (hi - lo) // 9)
                mids = list(range(lo + step, hi, step))[:8]
                if mids:
                    ok, ps = test([_eval_expr(fn(x)) for x in mids])
                    fails = [x for x, o in zip(mids, ok) if o]
                    if fails:
                        hi = min(fails)
            if hi < n:
                best.update({"n": hi, "expr": fn(hi), "text": _eval_expr(fn(hi))})
        return best, runs[0]
    lines = prog["text"].split("\n")
    chunk = max(1, len(lines) // 2)
    while runs[0] < budget and len(lines) > 1:
        starts = list(range(0, len(lines), chunk))
        hit = None
        for off in range(0, len(starts), 8):
            if runs[0] >= budget:
                break
            part = starts[off:off + 8][:budget - runs[0]]
            cands = [lines[:s] + lines[s + chunk:] for s in part]
            cands = [c for c in cands if any(l.strip() for l in c)]
            if not cands:
                continue
            ok, ps = test(["\n".join(c) for c in cands])
            for c, o, p in zip(cands, ok, ps):
                if o:
                    hit = (c, p)
                    break
            if hit:
                break
        if hit:
            lines = hit[0]
            best.update({"text": "\n".join(lines), "cp": hit[1]["cp"], "rec": hit[1]["rec"]})
            best.pop("expr", None)
            chunk = min(chunk, max(1, len(lines) // 2))
        elif chunk == 1:
            break
        else:
            chunk = max(1, chunk // 2)
    return best, runs[0]


# --------------------------------------------------------------------------
# program construction

def _build_programs(ctx, wroot, per_timeout):
    rng = ctx.rng
    progs = []
    n_gram, n_mut = ctx.n(36, 1000), ctx.n(40, 1000)
    n_param, n_snip, n_snip_items = ctx.n(36, 500), ctx.n(6, 120), 14
    # (a) grammar
    cands = []
    for i in range(int(n_gram * 1.12) + 3):
        g = _Gen(rng, pep=(rng.random() < 0.08))
        cands.append({"kind": "grammar", "text": g.program(), "pep": g.pep})
    res = _parallel(_PY_ORACLE, ctx.stage, wroot, "gen_o", [(i, p["text"]) for i, p in enumerate(cands)], per_timeout, workers=4,
                    deadline=getattr(ctx, "_c43_deadline", None))
    gram = []
    for i, p in enumerate(cands):
        if res[i]["o"] == "accepts":
            p["cp"] = "accepts"
            if len(gram) < n_gram:
                gram.append(p)
        elif res[i]["o"] == "skipped":
            ctx.count("search/skipped-by-deadline")
        else:
            ctx.count("gen/grammar/cpython-rejects-discarded")
            ctx.notes.setdefault("search_generator_discards", []).append(_cap(res[i]["o"], 120)) if len(ctx.notes.get("search_generator_discards", [])) < 5 else None
    progs += gram
    # (b) mutants
    for i in range(n_mut):
        base = gram[rng.randrange(len(gram))]["text"] if gram else _HEADER
        if rng.random() < 0.3:
            lines = base.split("\n")
            s = rng.randrange(len(lines))
            base = "\n".join(lines[:_HEADER.count("\n")] + lines[s:s + rng.randrange(5, 40)]) + "\n"
        t, op = _mutate(base, rng)
        progs.append({"kind": "mutant", "text": t, "mut": op})
    # (c) literals: parametric + snippets (each item first judged by the oracle on its own)
    progs += _param_programs(rng, n_param)
    items = _lit_items(rng, n_snip * n_snip_items * 2)
    ires = _parallel(_PY_ORACLE, ctx.stage, wroot, "lit_o", [(i, "a = b = 1\nv = %s\n" % it) for i, it in enumerate(items)], per_timeout, workers=4,
                     deadline=getattr(ctx, "_c43_deadline", None))
    good = [it for i, it in enumerate(items) if ires[i]["o"] == "accepts"]
    bad = [it for i, it in enumerate(items) if ires[i]["o"].startswith("rejects")]
    ctx.count("gen/literal-items/cpython-accepts", len(good))
    ctx.count("gen/literal-items/cpython-rejects", len(bad))
    for k in range(n_snip):
        chunk = good[k * n_snip_items:(k + 1) * n_snip_items]
        if not chunk:
            break
        progs.append({"kind": "literal", "sub": "snippets", "text": "a = b = 1\n" + "".join("v%d = %s\n" % (j, it) for j, it in enumerate(chunk))})
    for k, it in enumerate(bad[:max(2, n_snip // 2)]):
        chunk = good[-3:] if good else []
        progs.append({"kind": "literal", "sub": "rejected-snippet", "text": "a = b = 1\n" + "".join("v%d = %s\n" % (j, x) for j, x in enumerate(chunk + [it]))})
    return progs


def _order(progs):
    """Priority order under a time budget: literal-focused first, then the kinds interleaved."""
    groups = [[p for p in progs if p["kind"] == "literal"], [p for p in progs if p["kind"] == "grammar"],
              [p for p in progs if p["kind"] == "mutant"]]
    out = groups[0][:MAX_WORKERS]
    groups[0] = groups[0][MAX_WORKERS:]
    i = 0
    while any(groups):
        g = groups[i % 3]
        if g:
            out.append(g.pop(0))
        i += 1
    return out


def _judge(ctx, prog, found):
    rec, cp = prog["rec"], prog["cp"]
    if rec["o"] == "skipped" or cp == "skipped":
        ctx.count("search/skipped-by-deadline")
        return
    acc = "cpy-accepts" if cp.startswith("accepts") else "cpy-rejects"
    ctx.count("search/%s/%s/%s" % (prog["kind"], rec["o"], acc))
    ctx.seen((prog["kind"], hash(prog["text"])), nontrivial=True)
    v = _verdict(prog, rec, "accepts" if cp.startswith("accepts") else cp)
    if v is None:
        return
    if v[1] is None:
        ctx.count(v[0])
        return
    found.setdefault(v[0], []).append((prog, v[1]))


def _report(ctx, wroot, found, per_timeout, minimise=True):
    keys = sorted(found)
    jobs = []
    for k in keys:
        cases = sorted(found[k], key=lambda c: len(c[0]["text"]))
        jobs.append((k, cases[0][0], cases[0][1], len(cases)))
    mins = {}
    dl = getattr(ctx, "_c43_deadline", None)
    if minimise and dl and time.time() > dl - 3:
        minimise = False
        ctx.count("search/minimisation-skipped-by-deadline", 0)
        ctx.notes["search_minimisation"] = "skipped: out of time budget (violations are reported with the unminimised text)"
    if minimise:
        todo = [j for j in jobs if not j[0].startswith("cc-")][:MINIMISE_MAX]
        with cf.ThreadPoolExecutor(max_workers=3) as ex:
            futs = {j[0]: ex.submit(_minimise, ctx, wroot, "min%d" % i, j[1], j[0], per_timeout) for i, j in enumerate(todo)}
            for k, f in futs.items():
                mins[k] = f.result()
    for k, prog, what, n in jobs:
        runs = 0
        if k in mins:
            prog, runs = mins[k]
        outcome = prog["rec"]["o"] if "rec" in prog else "?"
        w = "%s [%s; %d program(s) with this key; minimised with %d re-runs; CPython: %s]" % (what, _label(prog), n, runs, prog.get("cp", "?")[:80])
        ctx.violation(k, _cap(w), _replay_dict(prog, outcome))


def run_search(ctx):
    t0 = time.time()
    wroot = os.path.join(ctx.scratch, "c43search")
    os.makedirs(wroot, exist_ok=True)
    per_timeout = 60 if ctx.quick else 120
    budget = float(ctx.notes.get("search_budget_s") or (75 if ctx.quick else 600))
    ctx._c43_deadline = None
    rp = getattr(ctx, "replay_case", None)
    if isinstance(rp, dict):
        case = rp.get("case", rp)
        if not (isinstance(case, dict) and case.get("leg") == "search"):
            return
        text = case["text"] if "text" in case else _eval_expr(case["text_expr"])
        prog = {"kind": case.get("kind", "replay"), "sub": case.get("sub"), "text": text}
        _check(ctx, wroot, "replay", [prog], per_timeout)
        found = {}
        _judge(ctx, prog, found)
        if prog["rec"]["o"] == "ok":
            g = _gcc(prog["rec"]["c"])
            if g:
                found.setdefault(g[0], []).append((prog, g[1]))
        ctx.notes["search_replay"] = {"outcome": prog["rec"]["o"], "cpython": _cap(prog["cp"], 200), "messages": [_cap(m, 200) for m in prog["rec"].get("msgs", [])[:3]]}
        _report(ctx, wroot, found, per_timeout, minimise=False)
        return
    # wall-clock budget: 75 % for generation + compilation, then the gcc sample, the rest for minimisation.
    # Programs not run in time are counted as skipped, never judged.
    ctx._c43_deadline = t0 + 0.75 * budget
    progs = _order(_build_programs(ctx, wroot, per_timeout))
    t1 = time.time()
    _check(ctx, wroot, "main", progs, per_timeout)
    t2 = time.time()
    found = {}
    for p in progs:
        _judge(ctx, p, found)
    for p in progs[:3] + [q for q in progs if q["kind"] == "mutant"][:2] + [q for q in progs if q["kind"] == "literal"][:3]:
        ctx.sample({"kind": p["kind"], "sub": p.get("sub") or p.get("mut") or "", "text": _cap(p["text"], 300), "cython": p["rec"]["o"], "cpython": _cap(p["cp"], 80)})
    # C compiler acceptance on a sample of the generated C files (literal-focused programs first)
    oks = [p for p in progs if p["rec"]["o"] == "ok"]
    lit = [p for p in oks if p["kind"] == "literal"]
    rest = [p for p in oks if p["kind"] != "literal"]
    ctx.rng.shuffle(lit)
    ctx.rng.shuffle(rest)
    ncc = ctx.n(8, 120)
    pick = lit[:ncc // 2] + rest[:ncc - min(len(lit), ncc // 2)]
    cc_deadline = t0 + 0.9 * budget
    if time.time() > t0 + 0.8 * budget:
        ctx.count("search/cc/skipped-by-deadline", len(pick))
        pick = []
    with cf.ThreadPoolExecutor(max_workers=MAX_WORKERS) as ex:
        for p, g in zip(pick, ex.map(lambda q: _gcc(q["rec"]["c"], cc_deadline), pick)):
            if g and g[0] == "skipped":
                ctx.count("search/cc/skipped-by-deadline")
                continue
            ctx.count("search/cc/%s/%s" % (p["kind"], "rejected" if g else "accepted"))
            if g:
                found.setdefault(g[0], []).append((p, g[1]))
    t3 = time.time()
    ctx._c43_deadline = t0 + budget
    _report(ctx, wroot, found, per_timeout)
    ctx.notes["search_timing_s"] = {"generate+oracle": round(t1 - t0, 1), "cython": round(t2 - t1, 1), "gcc": round(t3 - t2, 1),
                                    "minimise+report": round(time.time() - t3, 1)}
    ctx.notes["search_programs"] = {k: sum(1 for p in progs if p["kind"] == k and p["rec"]["o"] != "skipped") for k in ("grammar", "mutant", "literal")}
    ctx.notes["search_budget_s"] = budget
    cpus = sorted(p["rec"].get("cpu", 0) for p in progs if "cpu" in p["rec"])
    if cpus:
        ctx.notes["search_compile_cpu_s"] = {"median": cpus[len(cpus) // 2], "max": cpus[-1], "sum": round(sum(cpus), 1)}
    ctx.notes["search_violation_keys"] = sorted(found)[:40]

"""C41 — compiler directives apply exactly within their scope; directive strings parse to the documented value or fail.

model  = CyVerif.C41 (parse_directive_value / parse_directive_list / header-comment merge; InterpretCompilerDirectives scoping)
impl   = staged Cython.Compiler.Options / Parsing / ParseTreeTransforms (in-process), real compiler pipeline up to
         InterpretCompilerDirectives, and compiled modules (cybuild)
oracle = the documented semantics computed independently in Python: per-kind value tables (docs/src/userguide/
         source_files_and_compilation.rst + type table), CPython int(), codecs registry; "innermost enclosing setting, else
         header, else options, else default" evaluated on the generated tree; Python floor division / IndexError at run time
"""
import ast
import codecs
import copy
import io
import os
import re
import sys

import lib
import cybuild

SAFE_NAME = re.compile(r"^[A-Za-z0-9_.]+$")
SAFE_ALT = re.compile(r"^[A-Za-z0-9_]+$")
CAP = 300


def cap(x, n=CAP):
    x = x if isinstance(x, str) else repr(x)
    return x if len(x) <= n else x[:n] + "…"


def enc(s):
    return "-" if not s else ".".join("%x" % ord(c) for c in s)


# --------------------------------------------------------------------------
# translator: Options.py -> tables (literal extraction only)

def _kind_of_default(node):
    if isinstance(node, ast.Constant):
        v = node.value
        if isinstance(v, bool):
            return "b"
        if isinstance(v, str):
            return "s"
        if isinstance(v, int):
            return "i"
        if v is None:
            return "N"
    if isinstance(node, ast.List):
        return "l"
    if isinstance(node, ast.Dict):
        return "d"
    return None


def _kind_of_type_expr(node):
    if isinstance(node, ast.Constant) and node.value is None:
        return "A"
    if isinstance(node, ast.Name):
        return {"bool": "b", "int": "i", "str": "s", "list": "l", "dict": "d", "type": "T",
                "normalise_encoding_name": "n", "DEFER_ANALYSIS_OF_ARGUMENTS": "D"}.get(node.id)
    if isinstance(node, ast.Call) and isinstance(node.func, ast.Name) and node.func.id == "one_of":
        alts = []
        for a in node.args:
            if not (isinstance(a, ast.Constant) and isinstance(a.value, str) and SAFE_ALT.match(a.value)):
                return None
            alts.append(a.value)
        mp = []
        for kw in node.keywords:
            if kw.arg != "map" or not isinstance(kw.value, ast.Dict):
                return None
            for k, v in zip(kw.value.keys, kw.value.values):
                if not (isinstance(k, ast.Constant) and isinstance(v, ast.Constant) and SAFE_ALT.match(str(k.value)) and SAFE_ALT.match(str(v.value))):
                    return None
                mp.append((k.value, v.value))
        return "e|" + "|".join(alts) + "".join("|~%s>%s" % kv for kv in mp)
    return None


def extract_tables(stage):
    """Returns dict(defaults=[name], default_kind={name: kind}, types=[(name, kind)], scopes={name: [scope]}, immediate=[..],
    noninherited=[..]) or (None, reason)."""
    path = os.path.join(stage, "Cython", "Compiler", "Options.py")
    try:
        tree = ast.parse(open(path).read())
    except Exception as e:
        return None, "cannot parse Options.py: %r" % (e,)
    out = {"defaults": [], "default_kind": {}, "types": [], "scopes": {}, "immediate": None, "noninherited": None, "fill_loop": False}
    for node in tree.body:
        if isinstance(node, ast.Assign) and len(node.targets) == 1 and isinstance(node.targets[0], ast.Name):
            nm = node.targets[0].id
            if nm == "_directive_defaults" and isinstance(node.value, ast.Dict):
                for k, v in zip(node.value.keys, node.value.values):
                    if not (isinstance(k, ast.Constant) and isinstance(k.value, str) and SAFE_NAME.match(k.value)):
                        return None, "unexpected key in _directive_defaults"
                    kd = _kind_of_default(v)
                    if kd is None:
                        return None, "unexpected default value for %s" % k.value
                    out["defaults"].append(k.value)
                    out["default_kind"][k.value] = kd
            elif nm == "directive_types" and isinstance(node.value, ast.Dict):
                for k, v in zip(node.value.keys, node.value.values):
                    if not (isinstance(k, ast.Constant) and isinstance(k.value, str) and SAFE_NAME.match(k.value)):
                        return None, "unexpected key in directive_types"
                    kd = _kind_of_type_expr(v)
                    if kd is None:
                        return None, "unexpected type expression for %s" % k.value
                    out["types"].append((k.value, kd))
            elif nm == "directive_scopes" and isinstance(node.value, ast.Dict):
                for k, v in zip(node.value.keys, node.value.values):
                    if isinstance(v, ast.Tuple) and all(isinstance(e, ast.Constant) for e in v.elts):
                        sc = [e.value for e in v.elts]
                    elif isinstance(v, ast.Constant) and isinstance(v.value, str):
                        sc = [v.value]          # ('with statement') is a plain string: `in` is a substring test
                    else:
                        return None, "unexpected scope entry"
                    out["scopes"][k.value] = sc
            elif nm == "immediate_decorator_directives" and isinstance(node.value, ast.Set):
                out["immediate"] = [e.value for e in node.value.elts if isinstance(e, ast.Constant)]
        elif isinstance(node, ast.For):
            # for key, val in _directive_defaults.items(): if key not in directive_types: directive_types[key] = type(val)
            src = ast.unparse(node)
            if "_directive_defaults.items()" in src and "directive_types[key] = type(val)" in src and "key not in directive_types" in src:
                out["fill_loop"] = True
        elif isinstance(node, ast.FunctionDef) and node.name == "copy_inherited_directives":
            for sub in ast.walk(node):
                if isinstance(sub, ast.For) and isinstance(sub.iter, (ast.Tuple, ast.List)) and any(
                        isinstance(c, ast.Call) and isinstance(c.func, ast.Attribute) and c.func.attr == "pop" for c in ast.walk(sub)):
                    out["noninherited"] = [e.value for e in sub.iter.elts if isinstance(e, ast.Constant)]
    if not out["defaults"] or not out["types"] or out["immediate"] is None or out["noninherited"] is None or not out["fill_loop"]:
        return None, "a table was not found (defaults %d, types %d, immediate %s, noninherited %s, fill loop %s)" % (
            len(out["defaults"]), len(out["types"]), out["immediate"] is not None, out["noninherited"] is not None, out["fill_loop"])
    explicit = dict(out["types"])
    for n in out["defaults"]:
        if n not in explicit:
            out["types"].append((n, out["default_kind"][n]))
    return out, ""


def runtime_kind(Options, t):
    """kind token of a live directive_types entry (used only to cross-check the translator)"""
    if t is None:
        return "A"
    if t is bool:
        return "b"
    if t is int:
        return "i"
    if t is str:
        return "s"
    if t is list:
        return "l"
    if t is dict:
        return "d"
    if t is type:
        return "T"
    if t is type(None):
        return "N"
    if t is Options.DEFER_ANALYSIS_OF_ARGUMENTS:
        return "D"
    if t is Options.normalise_encoding_name:
        return "n"
    if getattr(t, "__closure__", None) and t.__name__ == "validate":
        cells = dict(zip(t.__code__.co_freevars, (c.cell_contents for c in t.__closure__)))
        mp = cells.get("map") or {}
        return "e|" + "|".join(cells.get("args", ())) + "".join("|~%s>%s" % kv for kv in mp.items())
    return "?"


KIND_NAMES = {"b": "bool", "i": "int", "s": "str", "n": "encoding", "l": "list", "N": "NoneType", "D": "defer", "T": "type", "d": "dict",
              "A": "absent"}


def kind_name(k):
    return "enum" if k.startswith("e|") else KIND_NAMES.get(k, "?")


def parse_enum(k):
    parts = k.split("|")[1:]
    alts = [p for p in parts if not p.startswith("~")]
    mp = dict(p[1:].split(">") for p in parts if p.startswith("~"))
    return alts, mp


# --------------------------------------------------------------------------
# documentation: directive -> documented alternatives

def extract_docs(repo):
    path = os.path.join(repo, "docs", "src", "userguide", "source_files_and_compilation.rst")
    doc = {}
    try:
        for line in open(path, encoding="utf-8"):
            m = re.match(r"^``([A-Za-z0-9_.]+)``\s*\(([^)]*)\)", line)
            if not m:
                continue
            name, alt = m.group(1), m.group(2).replace("`", "").strip()
            if alt.startswith("default "):
                doc[name] = ("bool", None)
            elif re.fullmatch(r"True\s*/\s*False", alt):
                doc[name] = ("bool", None)
            elif "/" in alt:
                doc[name] = ("enum", [a.strip() for a in alt.split("/")])
            else:
                doc[name] = ("free", None)
    except OSError:
        return {}
    return doc


# --------------------------------------------------------------------------
# oracles (documented semantics, written independently of Options.py)

def norm_oracle(encname):
    """documented behaviour of c_string_encoding: common spellings of ASCII / UTF-8 are normalised, others are kept.
    Returns the string, or '!' for ValueError."""
    if not encname:
        return ""
    low = encname.lower()
    if low in ("utf8", "utf-8", "default"):
        return "utf8"
    if low in ("ascii", "us-ascii"):
        return "ascii"
    try:
        info = codecs.lookup(encname)
    except LookupError:
        return encname
    except ValueError:
        return "!"
    if info.name == "ascii":
        return "ascii"
    if info.name == "utf-8":
        return "utf8"
    return encname


def int_oracle(s):
    try:
        return ("ok", int(s))
    except ValueError:
        return ("err", "ValueError")


class Spec:
    """value semantics per directive: the type table refined by the documentation"""

    def __init__(self, tables, doc):
        self.kind = dict(tables["types"])
        self.defaults = list(tables["defaults"])
        self.doc = doc

    def value(self, name, value, relaxed):
        """('ok', python value) | ('err', 'ValueError') — nothing else is acceptable"""
        k = self.kind.get(name)
        if k is None:
            return ("ok", None)                      # "None is returned if the option does not exist"
        d = self.doc.get(name)
        if d and d[0] == "enum" and not k.startswith("e|"):
            # documented alternatives for a directive the table types as a plain string (language_level)
            return ("ok", value) if value in d[1] else ("err", "ValueError")
        if k == "b":
            if value == "True":
                return ("ok", True)
            if value == "False":
                return ("ok", False)
            if relaxed:
                low = value.lower()
                if low in ("true", "yes"):
                    return ("ok", True)
                if low in ("false", "no"):
                    return ("ok", False)
            return ("err", "ValueError")
        if k == "i":
            return int_oracle(value)
        if k == "s":
            return ("ok", value)
        if k.startswith("e|"):
            alts, mp = parse_enum(k)
            v = mp.get(value, value)
            return ("ok", v) if v in alts else ("err", "ValueError")
        if k == "n":
            r = norm_oracle(value)
            return ("err", "ValueError") if r == "!" else ("ok", r)
        return ("err", "ValueError")                 # cannot be given as a string: must be rejected

    def plist(self, s, relaxed, ignore_unknown, cur):
        res = copy.deepcopy(cur)
        for item in s.split(","):
            item = item.strip()
            if not item:
                continue
            if "=" not in item:
                return ("err", "ValueError")
            name, value = item.split("=", 1)
            name, value = name.strip(), value.strip()
            if name in self.defaults:
                if self.kind.get(name) == "l":
                    res[name] = list(res.get(name, [])) + [value]
                    continue
                targets = [name]
            else:
                targets = [d for d in self.defaults if d.startswith(name[:-3])] if name.endswith(".all") else []
                if not targets:
                    if ignore_unknown:
                        continue
                    return ("err", "ValueError")
            for t in targets:
                r = self.value(t, value, relaxed)
                if r[0] == "err":
                    return r
                res[t] = r[1]
        return ("ok", res)


def outcome(fn, *a, **kw):
    try:
        return ("ok", fn(*a, **kw))
    except BaseException as e:   # noqa: B902 - the exception KIND is the observation
        return ("err", type(e).__name__)


def render_val(v):
    if v is True:
        return "b1"
    if v is False:
        return "b0"
    if v is None:
        return "N"
    if isinstance(v, int):
        return "i%d" % v
    if isinstance(v, str):
        return "s" + enc(v)
    if isinstance(v, list) and all(isinstance(x, str) for x in v):
        return "l" + "|".join(enc(x) for x in v)
    return "?" + cap(repr(v), 40)


def render_settings(d):
    return ",".join(sorted("%s=%s" % (k, render_val(v)) for k, v in d.items())) or "-"


def canon_model_settings(line):
    """driver output 'ok a=..,b=..' -> sorted"""
    if not line.startswith("ok "):
        return line
    body = line[3:]
    return "ok " + ("-" if body == "-" else ",".join(sorted(body.split(","))))


def render_outcome_val(o):
    return "ok " + render_val(o[1]) if o[0] == "ok" else "err " + o[1]


def render_outcome_settings(o):
    return "ok " + render_settings(o[1]) if o[0] == "ok" else "err " + o[1]


def types_token(tables):
    return ",".join("%s:%s" % (n, k) for n, k in tables["types"])


def has_surrogate(s):
    return any(0xD800 <= ord(c) <= 0xDFFF for c in s)


# --------------------------------------------------------------------------
# generators for part (a)

WS = [" ", "\t", "\n", "\x0b", "\x0c", "\r", "\x1c", "\x1f", "\x85", "\xa0", " ", " ", " ", " ", "　"]
BOOLISH = ["True", "False", "true", "false", "TRUE", "FALSE", "yes", "no", "YES", "No", "nO", "Yes", "tRuE", "fAlSe", "0", "1", "", "None",
           "Truee", "Tru", "T", "y", "n", "on", "off", "ＴＲＵＥ", "Kes", "True False", "trüe", "yeſ", "İes"]
INTISH = ["0", "1", "-1", "+5", "007", "1_000", "1__0", "_1", "1_", "+_1", "", "+", "-", " 12 ", "\x1c1", "1\x1c", "\xa07", "7　", "+ 1", "++1", "1 2",
          "1\x001", "٣", "1٣", "१_२", "０１", "-٣", "1.0", "1e3", "0x10", "0b1", "0o7", "1\x7f", "\x7f", "\U0001d7ce", "12a",
          "a", "²", "①", "௰", "1" * 4300, "1" * 4301, "0" * 4301, " " + "9" * 4300, "1_" * 4300 + "1", "-" + "2" * 4300, "5\x85", "\x855"]
ENCODINGS = ["", "ascii", "ASCII", "AsCIi", "us-ascii", "US-ASCII", "us_ascii", "utf8", "UTF8", "utf-8", "utF-8", "utf_8", "u8", "U8", "default", "deFAuLT",
             "utf-8-sig", "latin-1", "Latin1", "iso-8859-1", "cp1252", "646", "ANSI_X3.4-1968", "iso646-us", "cp65001", "utf 8", "SeriousLyNoSuch--Encoding",
             "a\x00b", "\x00", "é", "İ", "rot13", "idna", "mbcs", "utf-8\n", " ascii", "ascii ", "utf-16", "UTF16", "punycode", "a.b", "../x", "os"]
STRISH = ["", "x", "3", "2", "3str", "3STR", "banana", "7", "0", "-3", " 3", "None", "c", "python", "clinic", "C", "bytes", "str", "unicode", "bytearray",
          "Bytes", "unnicode", "no", "shared_gil", "own_gil", "NO", "sequence", "mapping", "a=b", "a,b", "é中", "//path/x", "SOURCEFILE", "/full/path"]


def values_for_kind(k):
    if k == "b":
        return BOOLISH
    if k == "i":
        return INTISH
    if k == "n":
        return ENCODINGS
    if k.startswith("e|"):
        alts, mp = parse_enum(k)
        extra = []
        for a in alts + list(mp):
            extra += [a, a.upper(), a.capitalize(), a + " ", a[:-1], a + "x"]
        return extra + ["", "None", "True"]
    return STRISH


def detect_variant(Options):
    """which source variant: before or after the repair of the unparsable kinds"""
    probes = [outcome(Options.parse_directive_value, "warn", "True"), outcome(Options.parse_directive_value, "nogil", "True"),
              outcome(Options.parse_directive_value, "with_gil", "True")]
    pre = [("err", "TypeError"), ("err", "AssertionError"), ("ok", None)]
    post = [("err", "ValueError")] * 3
    if probes == post:
        return True, probes
    if probes == pre:
        return False, probes
    return None, probes


def viol_key_value(kind, got):
    """stable key: the kind of the directive and the wrong outcome"""
    g = got[1] if got[0] == "err" else ("accepted" if got[1] is not None else "None")
    return "%s-%s" % (kind_name(kind), g)


def part_a_values(ctx, Options, tables, spec, fixed, maxd):
    rng = ctx.rng
    tt = types_token(tables)
    cases = []
    names = [n for n, _ in tables["types"]] + ["nonexisting", "", "boundscheck "]
    for name in names:
        k = spec.kind.get(name, "s")
        pool = list(values_for_kind(k))
        if not ctx.quick or k not in ("b",):
            pool += [rng.choice(STRISH), rng.choice(BOOLISH)]
        if k == "b" and ctx.quick and name not in ("boundscheck", "binding", "infer_types", "cpow", "final", "auto_pickle"):
            pool = rng.sample(BOOLISH, 8) + ["True", "False", "yes"]
        for v in pool:
            for relaxed in ((False, True) if k == "b" else (rng.random() < 0.5,)):
                cases.append((name, v, relaxed))
    # random decorated variants (whitespace is NOT stripped by parse_directive_value)
    for _ in range(ctx.n(300, 3000)):
        name = rng.choice(names)
        k = spec.kind.get(name, "s")
        v = rng.choice(values_for_kind(k))
        r = rng.random()
        if r < 0.3:
            v = rng.choice(WS) + v
        elif r < 0.5:
            v = v + rng.choice(WS)
        elif r < 0.6:
            v = v.swapcase()
        cases.append((name, v, rng.random() < 0.5))
    rc = (ctx.replay_case or {}).get("case", {})
    if rc.get("op") == "parse_directive_value":
        cases = [(rc["name"], "".join(chr(int(x, 16)) for x in rc["value_hex"].split(".")) if rc["value_hex"] != "-" else "", rc["relaxed_bool"])]
    lines = []
    for name, v, relaxed in cases:
        nm = "-"
        if spec.kind.get(name) == "n":
            nm = "%s>%s" % (enc(v), "!" if norm_oracle(v) == "!" else enc(norm_oracle(v)))
        lines.append("C41 pv %d %d %d %s %s %s %s" % (fixed, relaxed, maxd, tt, enc(name), enc(v), nm))
    model = ctx.drv.batch(lines)
    for (name, v, relaxed), m in zip(cases, model):
        k = spec.kind.get(name)
        impl = outcome(Options.parse_directive_value, name, v, relaxed_bool=relaxed)
        orc = spec.value(name, v, relaxed)
        ri, ro = render_outcome_val(impl), render_outcome_val(orc)
        ctx.count("value/%s/%s" % (kind_name(k) if k else "unknown-name", "ok" if impl[0] == "ok" else impl[1]))
        ctx.seen(("pv", name, v, relaxed), nontrivial=True)
        rep = {"op": "parse_directive_value", "name": name, "value": cap(v), "value_hex": cap(enc(v), 2000), "relaxed_bool": relaxed}
        if m != ri:
            ctx.tie_break("D-py parse_directive_value vs parseValue", "%s=%s relaxed=%s: model %s impl %s" % (name, cap(repr(v), 60), relaxed, cap(m, 80), cap(ri, 80)), rep)
        if ri != ro:
            if name == "language_level" and impl[0] == "ok":
                key = "language_level-undocumented-value-accepted"
            else:
                key = "pv-" + viol_key_value(k or "s", impl)
            ctx.violation(key, "parse_directive_value(%r, %s, relaxed_bool=%s) -> %s; documented: %s" % (
                name, cap(repr(v), 60), relaxed, cap(ri, 80), cap(ro, 80)), rep)
    ctx.sample({"parse_directive_value": [cap(repr(c), 60) for c in cases[:3]], "model": [cap(x, 60) for x in model[:3]]})
    return len(cases)


def gen_item(rng, tables, spec):
    """one comma-separated item (may be malformed)"""
    defaults = tables["defaults"]
    r = rng.random()
    if r < 0.55:
        name = rng.choice(defaults)
    elif r < 0.70:
        pre = rng.choice(["warn", "optimize", "autotestdict", "control_flow", "embedsignature", "overflowcheck", "infer_types", "warn.deprecated",
                          "test_assert_path_exists", "x", "", "wa", "warn.", "boundscheck"])
        name = pre + rng.choice([".all", ".all", ".ALL", ".al", "all", ".all.all"])
    elif r < 0.80:
        name = rng.choice(["boundschek", "unknown", "cfunc", "locals", "final", "freelist", "returns", "critical_section", "", "bounds check", "warn",
                           "Boundscheck", "nogil", "gil", "with_gil"])
    else:
        name = rng.choice(["boundscheck", "wraparound", "cdivision", "language_level", "c_string_type", "c_string_encoding", "test_assert_path_exists",
                           "test_fail_if_c_code_has", "embedsignature.format", "callspec", "set_initial_path"])
    base = name[:-4] if name.endswith(".all") else name
    k = spec.kind.get(base if base in spec.kind else name, "b")
    cand = [d for d in defaults if d.startswith(name[:-3])] if name.endswith(".all") else []
    if cand:
        k = spec.kind.get(rng.choice(cand), "b")
    v = rng.choice(values_for_kind(k) if rng.random() < 0.8 else ["True", "False", "x", ""])
    if len(v) > 40:
        v = v[:40]
    v = v.replace(",", ";")
    pad = lambda: rng.choice(WS) * rng.randrange(0, 3) if rng.random() < 0.35 else ""   # noqa: E731
    r = rng.random()
    if r < 0.06:
        return pad() + name + pad()                       # missing '='
    if r < 0.10:
        return pad()                                      # empty item
    if r < 0.14:
        return pad() + name + pad() + "=" + pad() + v + "=" + v
    return pad() + name + pad() + "=" + pad() + v + pad()


def gen_list_string(rng, tables, spec):
    n = rng.choice([0, 1, 1, 2, 2, 3, 4, 6])
    items = [gen_item(rng, tables, spec) for _ in range(n)]
    if items and rng.random() < 0.3:
        items.append(items[rng.randrange(len(items))].split("=")[0] + "=" + rng.choice(["True", "False", "no", "x"]))   # repeated name
    return ",".join(items)


FIXED_LISTS = [
    "", "      ", "boundscheck=True", "  asdf", "boundscheck=hey", "unknown=True", "warn.all=True", "boundscheck = False , ,", "=", "=x", "boundscheck=",
    "boundscheck=False=x", ".all=1", "all=1", "x.all=1", "warn.deprecated.all=False", "control_flow.all=x", "control_flow.all=True", "optimize.all=False",
    "autotestdict.all=True", "test_assert_path_exists=a,test_assert_path_exists=b", "test_assert_c_code_has=abc", "warn=True", "nogil=True", "gil=1",
    "with_gil=True", "boundscheck=True,boundscheck=False", "boundscheck=False,boundscheck=True", "boundscheck=yes", "boundscheck=NO,wraparound=Yes",
    "language_level=3", "language_level=3str", "language_level=banana", "language_level=7", "c_string_type=unicode", "c_string_type=Unicode",
    "c_string_encoding=UTF-8,c_string_type=str", "embedsignature.format=clinic", "embedsignature.all=python", "boundscheck\xa0= False",
    "boundscheck=False\x1f", "binding=None", "boundscheck=True;wraparound=False", "warn.all=True,warn.unused=False", "warn.unused=False,warn.all=True",
    "test_assert_path_exists.all=x", "callspec=__stdcall", "set_initial_path=SOURCEFILE", "overflowcheck.all=False,overflowcheck=True",
]


def part_a_lists(ctx, Options, tables, spec, fixed, maxd):
    rng = ctx.rng
    tt = types_token(tables)
    dt = ",".join(tables["defaults"])
    cases = []
    for s in FIXED_LISTS:
        for relaxed in (False, True):
            for iu in (False, True):
                cases.append((s, relaxed, iu, {}))
    curs = [{}, {"boundscheck": False}, {"test_assert_path_exists": ["p"]}, {"warn.unused": True, "boundscheck": True, "c_string_type": "str"}]
    for _ in range(ctx.n(1200, 30000)):
        cases.append((gen_list_string(rng, tables, spec), rng.random() < 0.5, rng.random() < 0.4, rng.choice(curs)))
    if ctx.replay_case and ctx.replay_case.get("case", {}).get("op") == "parse_directive_list":
        c = ctx.replay_case["case"]
        cases = [("".join(chr(int(x, 16)) for x in c["s_hex"].split(".")) if c["s_hex"] != "-" else "", c["relaxed_bool"], c["ignore_unknown"],
                  c.get("cur", {}))]
    lines = []
    for s, relaxed, iu, cur in cases:
        vals = set()
        for item in s.split(","):
            if "=" in item:
                vals.add(item.strip().split("=", 1)[1].strip())
        nm = ";".join("%s>%s" % (enc(v), "!" if norm_oracle(v) == "!" else enc(norm_oracle(v))) for v in sorted(vals)) or "-"
        lines.append("C41 pl %d %d %d %d %s %s %s %s %s" % (fixed, relaxed, iu, maxd, dt, tt, enc(s), render_settings(cur), nm))
    model = ctx.drv.batch(lines)
    snapshot = copy.deepcopy(Options._directive_defaults)
    for (s, relaxed, iu, cur), m in zip(cases, model):
        passed = copy.deepcopy(cur)
        impl = outcome(Options.parse_directive_list, s, relaxed_bool=relaxed, ignore_unknown=iu, current_settings=passed if cur else None)
        orc = spec.plist(s, relaxed, iu, cur)
        ri, ro, rm = render_outcome_settings(impl), render_outcome_settings(orc), canon_model_settings(m)
        ctx.count("list/%s" % ("ok" if impl[0] == "ok" else impl[1]))
        ctx.seen(("pl", s, relaxed, iu, render_settings(cur)), nontrivial=bool(s.strip()))
        rep = {"op": "parse_directive_list", "s": cap(s), "s_hex": cap(enc(s), 3000), "relaxed_bool": relaxed, "ignore_unknown": iu,
               "current_settings": render_settings(cur), "cur": cur}
        if rm != ri:
            ctx.tie_break("D-py parse_directive_list vs parseList", "%s relaxed=%s ignore_unknown=%s: model %s impl %s" % (
                cap(repr(s), 80), relaxed, iu, cap(rm, 100), cap(ri, 100)), rep)
        if ri != ro:
            key = "pl-" + classify_list_violation(s, impl, orc, spec)
            ctx.violation(key, "parse_directive_list(%s, relaxed_bool=%s, ignore_unknown=%s) -> %s; documented: %s" % (
                cap(repr(s), 80), relaxed, iu, cap(ri, 100), cap(ro, 100)), rep)
    if Options._directive_defaults != snapshot:
        Options._directive_defaults.clear()
        Options._directive_defaults.update(snapshot)
    ctx.sample({"parse_directive_list": [cap(repr(c[0]), 60) for c in cases[-3:]], "model": [cap(x, 80) for x in model[-3:]]})
    # aliasing: a list-typed item must not change the global defaults (cython -X passes dict(get_directive_defaults()))
    for name in [n for n in tables["defaults"] if spec.kind.get(n) == "l"][:2]:
        before = copy.deepcopy(Options.get_directive_defaults()[name])
        cur = dict(Options.get_directive_defaults())
        r = outcome(Options.parse_directive_list, "%s=leak" % name, relaxed_bool=True, current_settings=cur)
        after = Options.get_directive_defaults()[name]
        ctx.count("list/alias-check")
        if after != before:
            ctx.violation("pl-list-item-mutates-global-default",
                          "parse_directive_list('%s=leak', current_settings=dict(get_directive_defaults())) (what `cython -X` does) changed the global default of %s from %r to %r: the setting leaks into every later compilation of the process" % (name, name, before, cap(repr(after), 60)),
                          {"op": "alias", "name": name})
            Options.get_directive_defaults()[name] = before
    return len(cases)


def classify_list_violation(s, impl, orc, spec):
    """stable key for impl != documented on a directive string: name the first item on which they part"""
    if impl[0] == "err" and impl[1] != "ValueError":
        # find the item that raises it
        for item in s.split(","):
            if "=" in item:
                name = item.split("=", 1)[0].strip()
                k = spec.kind.get(name)
                raises = {"N": "TypeError", "T": "TypeError", "d": "TypeError", "D": "AssertionError"}.get(k)
                if raises == impl[1] and name in spec.defaults:
                    return "%s-%s" % (kind_name(k), impl[1])
        return "raises-" + impl[1]
    if impl[0] == "ok" and orc[0] == "ok":
        for name in sorted(set(impl[1]) | set(orc[1])):
            if impl[1].get(name, "<missing>") != orc[1].get(name, "<missing>"):
                if name == "language_level":
                    return "language_level-undocumented-value-accepted"
                return "value-of-%s-%s" % (kind_name(spec.kind.get(name, "s")), "None" if impl[1].get(name, 0) is None else "differs")
    if impl[0] == "ok" and orc[0] == "err":
        for item in s.split(","):
            if "=" in item:
                name, v = [x.strip() for x in item.split("=", 1)]
                if name == "language_level" and spec.value(name, v, False)[0] == "err":
                    return "language_level-undocumented-value-accepted"
                k = spec.kind.get(name)
                if k == "A":
                    return "absent-None"
        return "accepted-but-documented-error"
    return "rejected-but-documented-ok"


# --------------------------------------------------------------------------
# part (b): the real pipeline up to InterpretCompilerDirectives on generated nested programs

# directives used in generated programs: name -> python values to choose from
BOOL_DIRS = ["boundscheck", "wraparound", "cdivision", "nonecheck", "overflowcheck"]
PROG_DIRS = {
    "boundscheck": [True, False], "wraparound": [True, False], "cdivision": [True, False], "nonecheck": [True, False],
    "overflowcheck": [True, False], "embedsignature.format": ["c", "python", "clinic"],
    "type_version_tag": [True, False],            # immediate; module / cclass only
    "test_assert_path_exists": [["//a"], ["//b", "//c"], []],   # list-typed, immediate, not inherited; function / class only
    "c_string_type": ["str", "bytearray"],        # module only: illegal inside the tree
    "language_level": ["2", "3"],                 # module only
    "final": [True],                              # cclass / function only; immediate
    "freelist": [4, 8],                           # int-typed, immediate, cclass only
}
WATCH = ["boundscheck", "wraparound", "cdivision", "nonecheck", "overflowcheck", "embedsignature.format", "type_version_tag", "test_assert_path_exists",
         "c_string_type", "language_level", "test_assert_c_code_has", "freelist", "final"]
SCOPE_LETTER = {"module": "m", "function": "f", "class": "p", "cclass": "c", "with statement": "w"}


def tok(v):
    """opaque value token for the scope model (equal tokens <=> equal Python values)"""
    if v is True:
        return "T"
    if v is False:
        return "F"
    if v is None:
        return "N"
    if isinstance(v, int):
        return "i%d" % v
    if isinstance(v, str):
        return "s" + enc(v).replace("-", "_")
    if isinstance(v, list):
        return "L" + "".join("+" + enc(x).replace("-", "_") for x in v)
    return "X" + cap(repr(v), 30).replace(" ", "_").replace(",", "_")


def py_literal(name, v):
    if v is None:
        return "None"
    if isinstance(v, list):
        return ", ".join(repr(x) for x in v)
    return repr(v)


class Node:
    """generated tree: kind in mark / with / def ; settings = [(name, value-or-NONE)] (decorators: top first)"""

    def __init__(self, kind, ident=0, sets=(), scope=None, body=()):
        self.kind, self.ident, self.sets, self.scope, self.body = kind, ident, list(sets), scope, list(body)


NONE_ARG = object()


def node_to_json(n):
    return [n.kind, n.ident, [[nm, {"none": True} if v is NONE_ARG else v] for nm, v in n.sets], n.scope, [node_to_json(b) for b in n.body]]


def node_from_json(j):
    return Node(j[0], j[1], [(nm, NONE_ARG if isinstance(v, dict) else v) for nm, v in j[2]], j[3], [node_from_json(b) for b in j[4]])


def gen_prog(rng, ids, depth, in_func, allow_cdef, p_illegal, in_cclass=False):
    out = []
    for _ in range(rng.choice([1, 1, 2, 3]) if depth else rng.choice([2, 3, 4])):
        r = rng.random()
        if depth >= 4 or r < 0.35:
            ids[0] += 1
            out.append(Node("mark", ids[0]))
            continue
        if r < 0.6:
            name = pick_dir(rng, "with statement", p_illegal)
            out.append(Node("with", rng.randrange(2), [(name, pick_val(rng, name))], "with statement", gen_prog(rng, ids, depth + 1, in_func, False, p_illegal, in_cclass)))
            continue
        if r < 0.85 or in_cclass:
            scope = "function"
        elif allow_cdef and depth == 0 and rng.random() < 0.5:
            scope = "cclass"
        else:
            scope = "class"
        ids[0] += 1
        me = ids[0]
        ndec = rng.choice([0, 1, 1, 2, 3])
        sets = []
        for _ in range(ndec):
            name = pick_dir(rng, scope, p_illegal)
            if sets and rng.random() < 0.35:
                name = rng.choice(sets)[0]               # several decorators naming the same directive
            sets.append((name, pick_val(rng, name)))
        out.append(Node("def", me, sets, scope, gen_prog(rng, ids, depth + 1, in_func or scope == "function", False, p_illegal, scope == "cclass")))
    return out


def pick_dir(rng, scope, p_illegal):
    legal = {"with statement": BOOL_DIRS + ["embedsignature.format"],
             "function": BOOL_DIRS + ["embedsignature.format", "test_assert_path_exists", "test_assert_path_exists"],
             "class": BOOL_DIRS + ["embedsignature.format", "test_assert_path_exists"],
             "cclass": BOOL_DIRS + ["embedsignature.format", "type_version_tag", "type_version_tag", "test_assert_path_exists", "freelist", "final"]}[scope]
    if rng.random() < p_illegal:
        return rng.choice({"with statement": ["type_version_tag", "c_string_type", "test_assert_path_exists", "language_level", "final"],
                           "function": ["type_version_tag", "c_string_type", "language_level"],
                           "class": ["type_version_tag", "c_string_type", "final"],
                           "cclass": ["c_string_type", "language_level"]}[scope])
    return rng.choice(legal)


def pick_val(rng, name):
    if name in BOOL_DIRS and rng.random() < 0.08:
        return NONE_ARG
    return rng.choice(PROG_DIRS[name])


def dec_text(name, v, style=0):
    """style selects an equivalent spelling: keyword form of a dotted name, bare attribute for a bool set to True"""
    if v is NONE_ARG:
        return "cython.%s(None)" % name
    if style == 1 and name == "embedsignature.format":
        return "cython.embedsignature(format=%r)" % v
    if style == 1 and v is True and name in BOOL_DIRS:
        return "cython.%s" % name
    return "cython.%s(%s)" % (name, py_literal(name, v))


def render_source(nodes, indent, lines):
    pad = "    " * indent
    if not nodes:
        lines.append(pad + "pass")
    for n in nodes:
        if n.kind == "mark":
            lines.append("%smark%d = %d" % (pad, n.ident, n.ident))
        elif n.kind == "with":
            lines.append("%swith %s:" % (pad, dec_text(*n.sets[0], style=n.ident % 2)))
            render_source(n.body, indent + 1, lines)
        else:
            for j, (name, v) in enumerate(n.sets):
                lines.append("%s@%s" % (pad, dec_text(name, v, style=(n.ident + j) % 2)))
                if (n.ident + j) % 5 == 0 and n.scope != "cclass":
                    lines.append("%s@plain_decorator" % pad)           # an ordinary decorator between directive decorators
            if n.scope == "function":
                lines.append("%sdef f%d(*args):" % (pad, n.ident))
            elif n.scope == "class":
                lines.append("%sclass C%d:" % (pad, n.ident))
            else:
                lines.append("%scdef class C%d:" % (pad, n.ident))
            render_source(n.body, indent + 1, lines)


def render_model_prog(nodes, idx, out):
    for n in nodes:
        if n.kind == "mark":
            out.append("m%d" % n.ident)
        elif n.kind == "with":
            name, v = n.sets[0]
            out.append("w%d=%s" % (idx[name], "~" if v is NONE_ARG else tok(v)))
            render_model_prog(n.body, idx, out)
            out.append("e")
        else:
            out.append("d%s%d%s" % ({"function": "f", "class": "p", "cclass": "c"}[n.scope], n.ident,
                                    "".join("@%d=%s" % (idx[name], "~" if v is NONE_ARG else tok(v)) for name, v in n.sets)))
            render_model_prog(n.body, idx, out)
            out.append("e")


def spec_walk(nodes, frames, base, gdef, scopes, regular, out, errs):
    """the documented rule, evaluated on the generated tree: innermost enclosing setting, else the module-level value.
    frames: innermost first, each (kind, [(name, value)])."""
    def eff(name, fr):
        for kind, sets, immediate_skip in fr:
            for n, v in sets:
                if n == name and not (immediate_skip and n in regular["immediate"]):
                    return v
        return base.get(name)
    for n in nodes:
        if n.kind == "mark":
            out[n.ident] = {w: eff(w, frames) for w in regular["names"]}
            continue
        sets = [(nm, gdef.get(nm) if v is NONE_ARG else v) for nm, v in n.sets]
        for nm, _ in sets:
            sc = scopes.get(nm)
            if sc and n.scope not in sc:
                errs.append((nm, n.scope))
        if n.kind == "with":
            spec_walk(n.body, [("with", sets, False)] + frames, base, gdef, scopes, regular, out, errs)
        else:
            out[n.ident] = {w: eff(w, [("def", sets, False)] + frames) for w in regular["names"]}
            spec_walk(n.body, [("def", sets, True)] + frames, base, gdef, scopes, regular, out, errs)


def make_recorder():
    from Cython.Compiler.Visitor import TreeVisitor
    from Cython.Compiler import ExprNodes

    class Rec(TreeVisitor):
        def __init__(self):
            super().__init__()
            self.cur = None
            self.out = {}

        def visit_ModuleNode(self, node):
            self.cur = node.directives
            self.out[0] = dict(node.directives)
            self.visitchildren(node)

        def visit_CompilerDirectivesNode(self, node):
            old, self.cur = self.cur, node.directives
            self.visitchildren(node)
            self.cur = old

        def visit_FuncDefNode(self, node):
            nm = str(getattr(node, "name", ""))
            if re.fullmatch(r"f\d+", nm):
                self.out[int(nm[1:])] = dict(self.cur)
            self.visitchildren(node)

        def visit_PyClassDefNode(self, node):
            self.out[int(str(node.name)[1:])] = dict(self.cur)
            self.visitchildren(node)

        def visit_CClassDefNode(self, node):
            self.out[int(str(node.class_name)[1:])] = dict(self.cur)
            self.visitchildren(node)

        def visit_SingleAssignmentNode(self, node):
            if isinstance(node.lhs, ExprNodes.NameNode) and re.fullmatch(r"mark\d+", str(node.lhs.name)):
                self.out[int(str(node.lhs.name)[4:])] = dict(self.cur)
            self.visitchildren(node)

        def visit_Node(self, node):
            self.visitchildren(node)
    return Rec


def run_icd(ctx, src, directives, counter=[0]):
    """run the real pipeline up to and including InterpretCompilerDirectives.
    -> ('ok', {id: directives}) | ('error', first message) | ('crash', exception name)"""
    from Cython.Compiler import Main, Pipeline, Errors, Options
    from Cython.Compiler.ParseTreeTransforms import InterpretCompilerDirectives
    from Cython.Compiler.Main import CompilationOptions, CompilationSource, Context
    from Cython.Compiler.Scanning import FileSourceDescriptor
    counter[0] += 1
    d = os.path.join(ctx.scratch, "icd")
    os.makedirs(d, exist_ok=True)
    path = os.path.join(d, "m%d.pyx" % counter[0])
    with open(path, "w", encoding="utf-8") as f:
        f.write(src)
    saved_defaults = copy.deepcopy(Options._directive_defaults)
    try:
        try:
            opts = CompilationOptions(Options.default_options, compiler_directives=directives)
            context = Context.from_options(opts)
        except BaseException as e:      # noqa: B902
            return ("crash", "options:" + type(e).__name__)
        Errors.init_thread()
        Errors.open_listing_file(None, echo_to_stderr=False)
        source = CompilationSource(FileSourceDescriptor(path, os.path.basename(path)), "m%d" % counter[0], d)
        result = Main.create_default_resultobj(source, opts)
        pipeline = Pipeline.create_pyx_pipeline(context, opts, result)
        cut = []
        for ph in pipeline:
            cut.append(ph)
            if isinstance(ph, InterpretCompilerDirectives):
                break
        else:
            raise lib.Infra("InterpretCompilerDirectives not in the pipeline")
        old_err = sys.stderr
        sys.stderr = io.StringIO()
        try:
            err, tree = Pipeline.run_pipeline(cut, source)
        except BaseException as e:      # noqa: B902
            return ("crash", type(e).__name__)
        finally:
            sys.stderr = old_err
        if err is not None or Errors.get_errors_count():
            return ("error", cap(str(err), 200))
        rec = make_recorder()()
        rec.visit(tree)
        return ("ok", rec.out)
    finally:
        try:
            os.unlink(path)
        except OSError:
            pass
        if Options._directive_defaults != saved_defaults:
            Options._directive_defaults.clear()
            Options._directive_defaults.update(saved_defaults)


def model_val_to_tok(v):
    if v == "b1":
        return "T"
    if v == "b0":
        return "F"
    if v == "N" or v.startswith("i"):
        return v
    if v.startswith("s"):
        return "s" + v[1:].replace("-", "_")
    if v.startswith("l"):
        return "L" + ("".join("+" + x.replace("-", "_") for x in v[1:].split("|")) if len(v) > 1 else "")
    return "X" + v


HEADER_ITEMS_OK = ["boundscheck=False", "boundscheck=True", "wraparound=False", "cdivision=True", "nonecheck=True", "overflowcheck=True",
                   "embedsignature.format=python", "embedsignature.format=clinic", "c_string_type=str", "c_string_type=unicode", "c_string_type=bytearray",
                   "c_string_encoding=utf-8", "language_level=3", "language_level=3str", "type_version_tag=False", "test_assert_c_code_has=abc",
                   "test_assert_c_code_has=d e", "test_fail_if_c_code_has=zzz", "warn.all=True", "optimize.all=False", "binding=False", "infer_types=True", "legacy_implicit_noexcept=True"]
HEADER_ITEMS_BAD = ["boundscheck=Flase", "boundscheck=yes", "boundschek=False", "unknown=1", "c_string_type=unnicode", "embedsignature.format=C",
                    "c_compile_guard=X", "test_assert_path_exists=//x", "with_gil=True", "warn=True", "nogil=True", "language_level=banana", "language_level=7",
                    "x.all=1", "boundscheck=", "control_flow.all=x"]


def gen_header(rng, allow_l2):
    """list of directive strings, one per `# cython:` comment line"""
    lines = []
    for _ in range(rng.choice([0, 0, 1, 1, 2, 3])):
        items = []
        for _ in range(rng.choice([1, 1, 2, 3])):
            r = rng.random()
            if r < 0.82:
                it = rng.choice(HEADER_ITEMS_OK)
            elif r < 0.9 and lines:
                it = rng.choice(lines).split(",")[0]                     # repeat a name from an earlier line (same or other value)
                if rng.random() < 0.5 and "=" in it and "coding" not in it:       # "coding=<x>" in line 1-2 is a PEP 263 source-encoding declaration
                    it = it.split("=")[0] + "=" + rng.choice(["True", "False", "str", "python"])
            else:
                it = rng.choice(HEADER_ITEMS_BAD)
            if allow_l2 and it.startswith("language_level=3") and rng.random() < 0.4:
                it = "language_level=2"
            items.append(it)
        lines.append((", " if rng.random() < 0.7 else ",").join(items))
    return lines


def header_oracle(spec, lines, scopes):
    """documented: every `# cython:` line is a directive string; a string is parsed or rejected with an error.
    -> ('ok', settings) | ('error', reason-key)"""
    result = {}
    for ln in lines:
        strict = spec.plist(ln, False, False, {})        # unknown names are errors
        if strict[0] == "err":
            # name the reason (stable keys for the known deviations)
            lenient = spec.plist(ln, False, True, {})
            if lenient[0] == "ok":
                return ("error", "unknown-name")
            return ("error", "bad-value")
        for name, v in strict[1].items():
            sc = scopes.get(name)
            if sc and "module" not in sc:
                return ("error", "wrong-scope")
            if name in result:
                if spec.kind.get(name) == "l":
                    v = result[name] + v
                elif result[name] != v:
                    return ("error", "conflict")
            result[name] = v
    return ("ok", result)


def uses_str_args(nodes):
    for n in nodes:
        if any(isinstance(v, (str, list)) for _, v in n.sets) or uses_str_args(n.body):
            return True
    return False


def has_illegal(nodes, scopes):
    for n in nodes:
        for nm, _ in n.sets:
            sc = scopes.get(nm)
            if sc and n.scope not in sc:
                return True
        if has_illegal(n.body, scopes):
            return True
    return False


def part_b(ctx, Options, tables, spec, fixed, maxd):
    rng = ctx.rng
    gdef = Options.get_directive_defaults()
    scopes = tables["scopes"]
    names = sorted(set(WATCH) | set(PROG_DIRS))
    idx = {n: i + 1 for i, n in enumerate(names)}
    table_tok = ",".join("%d:%s:%d:%d:%d" % (
        idx[n], ("-" if n not in scopes else ("".join(SCOPE_LETTER.get(s, "") for s in scopes[n]) or "0")),
        n in tables["immediate"], n in tables["noninherited"], spec.kind.get(n) == "l") for n in names)
    dflt_tok = ",".join("%d=%s" % (idx[n], tok(gdef[n])) for n in names if n in gdef)
    watch_tok = ",".join(str(idx[n]) for n in WATCH)
    regular = {"names": [n for n in WATCH if n not in tables["noninherited"] and spec.kind.get(n) != "l"], "immediate": set(tables["immediate"])}
    tt, dt = types_token(tables), ",".join(tables["defaults"])
    cases = []
    ncase = ctx.n(160, 5000)
    for i in range(ncase):
        ids = [0]
        p_illegal = 0.0 if rng.random() < 0.8 else 0.12
        nodes = gen_prog(rng, ids, 0, False, True, p_illegal)
        allow_l2 = not uses_str_args(nodes)
        header = gen_header(rng, allow_l2) if rng.random() < 0.7 else []
        opts = {}
        for n in rng.sample(BOOL_DIRS + ["embedsignature.format", "c_string_type", "language_level", "test_assert_c_code_has", "type_version_tag"],
                            rng.choice([0, 0, 1, 2, 4])):
            opts[n] = rng.choice({"language_level": [3, "3", "3str"] + ([2] if allow_l2 else []), "test_assert_c_code_has": [["opt"]]}.get(n) or PROG_DIRS[n])
        cases.append((nodes, header, opts))
    rc = (ctx.replay_case or {}).get("case", {})
    if rc.get("op") == "scope" and "tree" in rc:
        cases = [([node_from_json(j) for j in rc["tree"]], rc["header"], rc["options"])]
    hdr_lines = ["C41 hdr %d %d %s %s %s %s" % (fixed, maxd, dt, tt, norm_pairs(h), " ".join(enc(l) for l in h)) if h else "C41 hdr %d %d %s %s -" % (fixed, maxd, dt, tt)
                 for _, h, _ in cases]
    hdr_model = ctx.drv.batch(hdr_lines)
    scope_lines, where = [], []
    for ci, ((nodes, header, opts), hm) in enumerate(zip(cases, hdr_model)):
        if not hm.startswith("ok"):
            continue
        hs = [] if hm == "ok -" else [x.split("=", 1) for x in hm[3:].split(",")]
        h_env = ",".join("%d=%s" % (idx[n], model_val_to_tok(v)) for n, v in hs if n in idx) or "-"
        # header names outside the watched set still need their module-scope check: give them fresh indices
        extra = [(n, v) for n, v in hs if n not in idx]
        tbl, nxt = table_tok, len(names) + 1
        for n, v in extra:
            sc = scopes.get(n)
            tbl += ",%d:%s:0:0:0" % (nxt, "-" if sc is None else ("".join(SCOPE_LETTER.get(s, "") for s in sc) or "0"))
            h_env = ("%d=%s" % (nxt, model_val_to_tok(v))) if h_env == "-" else h_env + ",%d=%s" % (nxt, model_val_to_tok(v))
            nxt += 1
        o_env = ",".join("%d=%s" % (idx[n], tok(v)) for n, v in sorted(opts.items())) or "-"
        prog = []
        render_model_prog(nodes, idx, prog)
        scope_lines.append("C41 scope %s %s %s %s %s %s %s" % (tbl, dflt_tok, dflt_tok, o_env, h_env, watch_tok, " ".join(prog)))
        where.append(ci)
    scope_model = dict(zip(where, ctx.drv.batch(scope_lines))) if scope_lines else {}
    nerr = 0
    for ci, (nodes, header, opts) in enumerate(cases):
        lines = ["# cython: " + h for h in header] + ["cimport cython"]
        render_source(nodes, 0, lines)
        src = "\n".join(lines) + "\n"
        impl = run_icd(ctx, src, dict(opts))
        model = hdr_model[ci] if not hdr_model[ci].startswith("ok") else scope_model[ci]
        # ---- canonical impl outcome
        if impl[0] == "ok":
            pts = sorted(impl[1])
            ri = "ok " + "|".join("%d:" % p + ";".join("%d=%s" % (idx[w], tok(impl[1][p][w]) if w in impl[1][p] else "?") for w in WATCH) for p in pts)
        elif impl[0] == "error":
            ri = "err CompileError"
        else:
            ri = "err crash:" + impl[1]
        ctx.count("scope/%s" % (impl[0] if impl[0] != "crash" else "crash:" + impl[1]))
        ctx.seen(("scope", src, render_settings({k: v for k, v in opts.items() if not isinstance(v, list)})), nontrivial=impl[0] == "ok" and len(impl[1]) > 2)
        rep = {"op": "scope", "source": cap(src, 1500), "compiler_directives": cap(repr(opts), 300), "header": header, "options": opts,
               "tree": [node_to_json(n) for n in nodes]}
        if model != ri:
            ctx.tie_break("D-py InterpretCompilerDirectives vs scope model", "program #%d: model %s impl %s" % (ci, cap(first_diff(model, ri), 160), cap(impl[0], 20)), rep)
        # ---- oracle
        ho = header_oracle(spec, header, scopes)
        illegal = has_illegal(nodes, scopes)
        if ho[0] == "error" or illegal:
            nerr += 1
            if impl[0] == "ok":
                key = "header-%s-accepted" % ho[1] if ho[0] == "error" else "illegal-scope-accepted"
                if ho[0] == "error" and ho[1] == "bad-value" and any("language_level=" in h for h in header):
                    key = "header-language_level-undocumented-value-accepted"
                if ho[0] == "error" and ho[1] == "unknown-name":
                    key = "header-unknown-name-ignored"
                ctx.violation(key, "compiled without error although %s; header %s" % (
                    "a header directive must be rejected (%s)" % ho[1] if ho[0] == "error" else "a directive is used in a scope directive_scopes forbids",
                    cap(repr(header), 120)), rep)
            elif impl[0] == "crash":
                ctx.violation("header-crash-%s" % impl[1], "the compiler raised %s instead of reporting a compile error; header %s" % (impl[1], cap(repr(header), 120)), rep)
            continue
        if impl[0] != "ok":
            ctx.violation("valid-program-rejected", "a program with valid header %s and legal directives was rejected: %s" % (cap(repr(header), 100), cap(repr(impl), 120)), rep)
            continue
        base = dict(gdef)
        base.update(opts)
        base.update(ho[1])
        want = {0: {w: base.get(w) for w in regular["names"]}}
        errs = []
        spec_walk(nodes, [], base, gdef, scopes, regular, want, errs)
        for p in sorted(want):
            got = impl[1].get(p)
            if got is None:
                ctx.tie_break("D-py recorder", "observation point %d missing in the transformed tree" % p, rep)
                continue
            for w in regular["names"]:
                if got.get(w) != want[p][w]:
                    ctx.violation("scope-%s-not-innermost" % ("module" if p == 0 else "nested"),
                                  "directive %s at point %d is %r, the innermost enclosing setting (else header, options, default) is %r" % (
                                      w, p, got.get(w), want[p][w]), dict(rep, point=p, directive=w))
                    break
    ctx.sample({"scope_program": cap(src, 400), "model": cap(model, 200)})
    ctx.notes["scope_cases_expected_errors"] = nerr
    return len(cases)


def norm_pairs(header):
    vals = set()
    for ln in header:
        for item in ln.split(","):
            if "=" in item:
                vals.add(item.strip().split("=", 1)[1].strip())
    return ";".join("%s>%s" % (enc(v), "!" if norm_oracle(v) == "!" else enc(norm_oracle(v))) for v in sorted(vals)) or "-"


def first_diff(a, b):
    pa, pb = a.split("|"), b.split("|")
    for x, y in zip(pa, pb):
        if x != y:
            return "%s vs %s" % (x, y)
    return "%s vs %s" % (cap(a, 60), cap(b, 60)) if len(pa) == len(pb) else "lengths %d vs %d (%s / %s)" % (len(pa), len(pb), cap(a, 50), cap(b, 50))


# --------------------------------------------------------------------------
# part (c): compiled behaviour — the directive acts inside its scope and not outside

def run_module_source(header, dec, wth):
    """cdivision observed through -7 // 2 (Python: -4, C: -3); boundscheck through l[3] on a 3-element list whose
    storage keeps a stale 4th slot (IndexError iff checked)."""
    L = []
    if header is not None:
        L.append("# cython: cdivision=%s, boundscheck=%s" % (header, not header))
    L += ["cimport cython", "",
          "def d_before(int a, int b):", "    return a // b", "",
          "@cython.cdivision(%s)" % dec, "@cython.boundscheck(%s)" % (not dec),
          "def d_dec(int a, int b, list l, int i):",
          "    r1 = a // b",
          "    with cython.cdivision(%s), cython.boundscheck(%s):" % (wth, not wth),
          "        r2 = a // b",
          "        try:",
          "            x2 = l[i]; e2 = False",
          "        except IndexError:",
          "            e2 = True",
          "    r3 = a // b",
          "    try:",
          "        x3 = l[i]; e3 = False",
          "    except IndexError:",
          "        e3 = True",
          "    def inner(int c, int d):",
          "        return c // d",
          "    return (r1, r2, r3, inner(a, b), e2, e3)", "",
          "def d_after(int a, int b, list l, int i):",
          "    try:",
          "        x = l[i]; e = False",
          "    except IndexError:",
          "        e = True",
          "    return (a // b, e)", "",
          "def mk():",
          "    l = [0, 1, 2, 3, 4]",
          "    l.pop(); l.pop()",
          "    return l", ""]
    return "\n".join(L)


def part_c(ctx):
    combos = [(None, None, True, False), (None, True, False, True), (True, None, False, True), (False, True, True, False)]
    if not ctx.quick:
        combos += [(True, False, True, True), (False, False, False, False), (None, False, True, True), (True, True, False, False)]
    specs = []
    for k, (opt, header, dec, wth) in enumerate(combos):
        directives = {} if opt is None else {"cdivision": opt, "boundscheck": not opt}
        specs.append(dict(name="c41m%d" % k, source=run_module_source(header, dec, wth), directives=directives))
    built = cybuild.build_many(ctx, specs)
    for (opt, header, dec, wth), so, sp in zip(combos, built, specs):
        rep = {"op": "run", "source": cap(sp["source"], 1500), "compiler_directives": repr(sp["directives"])}
        if isinstance(so, cybuild.BuildError):
            ctx.violation("valid-program-rejected", "module with header/decorator/with cdivision+boundscheck failed to build (%s): %s" % (so.stage, cap(so.log, 200)), rep)
            continue
        res = cybuild.run_cases(ctx, so, [("d_before", "(-7, 2)"), ("d_dec", "(-7, 2, mod.mk(), 3)"), ("d_after", "(-7, 2, mod.mk(), 3)")])
        q = lambda c: -3 if c else -4     # noqa: E731
        module_cdiv = header if header is not None else (opt if opt is not None else False)
        module_bc = (not header) if header is not None else ((not opt) if opt is not None else True)
        want = ["ok int:%d" % q(module_cdiv),
                "ok tuple:[int:%d;int:%d;int:%d;int:%d;bool:%s;bool:%s]" % (q(dec), q(wth), q(dec), q(dec), not wth, not dec),
                "ok tuple:[int:%d;bool:%s]" % (q(module_cdiv), module_bc)]
        ctx.count("run/module", 3)
        ctx.seen(("run", opt, header, dec, wth))
        for fn, g, w in zip(("d_before", "d_dec", "d_after"), res, want):
            if g != w:
                ctx.violation("run-%s-wrong-scope" % fn, "options %r header %r decorator %r with %r: %s returned %s, scoping rule gives %s" % (
                    opt, header, dec, wth, fn, cap(g, 120), cap(w, 120)), rep)
    ctx.sample({"run_combos(options, header, decorator, with)": [repr(c) for c in combos[:4]]})


# --------------------------------------------------------------------------
# reference-semantics ties: character classes, int(), encoding normaliser

def tie_char_tables(ctx):
    import unicodedata
    out = ctx.drv.batch(["C41 cls 0 %d" % 0x110000])[0]
    if not out.startswith("ok "):
        raise lib.Infra("cls op failed: " + cap(out, 100))
    sp_s, _, dg_s = out[3:].partition(" ")
    model_sp = set(int(x) for x in sp_s.split(",") if x)
    model_dg = dict((int(a), int(b)) for a, b in (x.split("=") for x in dg_s.split(",") if x))
    py_sp, py_dg, lower_ascii = set(), {}, []
    for cp in range(0x110000):
        if 0xD800 <= cp <= 0xDFFF:
            continue
        c = chr(cp)
        if c.isspace():
            py_sp.add(cp)
        d = unicodedata.decimal(c, None)
        if d is not None:
            py_dg[cp] = d
        if cp >= 128 and any(x in "truefalsyno" for x in c.lower()):
            lower_ascii.append(cp)
    ctx.count("chartable/codepoints", 0x110000 - 2048)
    ctx.obligation("CPython str.isspace == model table (all code points)", model_sp == py_sp, "symmetric difference: %s" % cap(sorted(model_sp ^ py_sp), 100))
    ctx.obligation("CPython Unicode decimal digits == model table (all code points)", model_dg == py_dg,
                   "differences at: %s" % cap(sorted(set(model_dg.items()) ^ set(py_dg.items()))[:10], 100))
    ctx.obligation("str.lower() produces a letter of true/false/yes/no only from ASCII letters", not lower_ascii,
                   "non-ASCII code points lowering to such letters: %s" % cap(lower_ascii, 80))


def tie_int(ctx, maxd):
    rng = ctx.rng
    alphabet = ["0", "1", "7", "9", "_", "+", "-", " ", "\t", "\x1c", "\xa0", "٣", "０", "a", "\x00", ".", "　"]
    cases = list(INTISH)
    for n in range(0, 4):
        if n <= (2 if ctx.quick else 3):
            def rec(prefix, k):
                if k == 0:
                    cases.append(prefix)
                    return
                for a in alphabet:
                    rec(prefix + a, k - 1)
            rec("", n)
    for _ in range(ctx.n(2000, 60000)):
        cases.append("".join(rng.choice(alphabet) for _ in range(rng.randrange(1, 9))))
    model = ctx.drv.batch(["C41 int %d %s" % (maxd, enc(s)) for s in cases])
    for s, m in zip(cases, model):
        o = int_oracle(s)
        ro = "ok %d" % o[1] if o[0] == "ok" else "err ValueError"
        ctx.count("int/%s" % o[0])
        if m != ro:
            ctx.tie_break("PySpec int(str) vs parseInt", "int(%s): CPython %s model %s" % (cap(repr(s), 60), cap(ro, 40), cap(m, 40)), {"op": "int", "s_hex": cap(enc(s), 2000)})
    return len(cases)


def tie_norm(ctx, Options):
    for e in ENCODINGS + ["UTF_8", "Utf8", "cp437", "hex", "koi8-r", "U7", "ISO_646.IRV:1991", "ansi_x3.4-1986", "cp367", "csascii", "ibm367", "iso-ir-6",
                          "utf", "UTF", "utf8mb4", "utf_8_sig", "u16", "latin", "l1"]:
        impl = outcome(Options.normalise_encoding_name, "c_string_encoding", e)
        o = norm_oracle(e)
        ro = ("err", "ValueError") if o == "!" else ("ok", o)
        ctx.count("encoding/%s" % impl[0])
        if impl != ro:
            ctx.violation("encoding-name-normalisation", "normalise_encoding_name(%s) -> %s; codecs registry says %s" % (cap(repr(e), 40), cap(repr(impl), 60), cap(repr(ro), 60)),
                          {"op": "norm", "encoding": cap(e, 80)})


# --------------------------------------------------------------------------
# line coverage of the modelled functions (sys.monitoring, local to their code objects)

class LineCov:
    def __init__(self):
        self.hit = {}
        self.codes = {}
        self.tool = None

    def start(self, funcs):
        mon = getattr(sys, "monitoring", None)
        if mon is None:
            return
        for tid in (3, 4, 5, 2):
            try:
                mon.use_tool_id(tid, "c41cov")
                self.tool = tid
                break
            except ValueError:
                continue
        if self.tool is None:
            return

        def cb(code, line):
            self.hit.setdefault(code, set()).add(line)
            return None
        mon.register_callback(self.tool, mon.events.LINE, cb)
        for label, fn in funcs:
            code = getattr(fn, "__code__", None)
            if code is None:
                continue
            self.codes[label] = code
            mon.set_local_events(self.tool, code, mon.events.LINE)

    def stop(self):
        mon = getattr(sys, "monitoring", None)
        if mon is None or self.tool is None:
            return {}
        out = {}
        for label, code in self.codes.items():
            mon.set_local_events(self.tool, code, 0)
            lines = set(l for _, _, l in code.co_lines() if l is not None and l != code.co_firstlineno)
            hit = self.hit.get(code, set()) & lines
            miss = sorted(lines - hit)
            out[label] = {"executed": len(hit), "of": len(lines), "missed_lines": miss[:40]}
        mon.register_callback(self.tool, mon.events.LINE, None)
        mon.free_tool_id(self.tool)
        return out


def modelled_functions(Options):
    from Cython.Compiler import Parsing, ParseTreeTransforms
    ICD = ParseTreeTransforms.InterpretCompilerDirectives
    fs = [("Options.parse_directive_value", Options.parse_directive_value), ("Options.parse_directive_list", Options.parse_directive_list),
          ("Options.normalise_encoding_name", Options.normalise_encoding_name), ("Options.copy_inherited_directives", Options.copy_inherited_directives),
          ("Options.one_of.validate", Options.directive_types.get("c_string_type")),
          ("Parsing.p_compiler_directive_comments", getattr(Parsing, "p_compiler_directive_comments", None))]
    for m in ("__init__", "check_directive_scope", "visit_ModuleNode", "visit_with_directives", "_extract_directives", "visit_WithStatNode",
              "visit_FuncDefNode", "visit_CClassDefNode", "visit_PyClassDefNode", "try_to_parse_directives", "try_to_parse_directive"):
        fs.append(("InterpretCompilerDirectives." + m, getattr(ICD, m, None)))
    return [(l, f) for l, f in fs if f is not None]


def run(ctx):
    from Cython.Compiler import Options
    ctx.rule = ("(a) parse_directive_value on every directive name of the regenerated type table x value pools per kind (valid / invalid / case / whitespace / Unicode), "
                "parse_directive_list on the docstring examples and generated strings (defaults names, .all forms, repeats, empty items, missing '=', unknown names, "
                "list-typed names, current_settings), all three-way (real code, Lean model, documented value); (b) generated nested programs (marks, with-blocks, "
                "def / class / cdef class with 0-3 directive decorators, depth <= 4) x header comment lines x compiler_directives options through the real pipeline "
                "up to InterpretCompilerDirectives, node.directives of every point compared with the scope model and with the innermost-setting rule; (c) compiled "
                "modules observing cdivision (-7//2) and boundscheck (IndexError) inside / outside decorator and with scopes. non-trivial = non-blank string / program with > 2 points")
    ctx.explanation = ("Theorems: parse totality (documented kind or ValueError), last occurrence wins, .all expansion, unknown names, compositionality — for all strings and all "
                       "type tables; innermost-setting rule, precedence header > options > defaults and no leak — for all program trees, for directives that are not list-typed "
                       "and not dropped by copy_inherited_directives. Not covered by a theorem: the header-comment merge (modelled and tied only), the regular expression that "
                       "recognises `# cython:` lines, list-typed / non-inherited test directives inside the tree (modelled and tied only), how each directive changes code "
                       "generation (sampled by the compiled cdivision / boundscheck modules), nogil / gil / critical_section with-blocks, cclass decorators, exceptval, locals.")
    ctx.assumptions = ["str.lower() maps to true/false/yes/no only what ASCII lowering maps there (checked for every code point each run)",
                       "CPython character tables (isspace, decimal digits) as embedded in the driver (checked for every code point each run)"]
    ctx.extra_trusted = ["docs/src/userguide/source_files_and_compilation.rst as statement of the documented directive values", "Python codecs registry (encoding aliases)"]
    maxd = sys.get_int_max_str_digits()
    # ---------------- G: regenerated tables
    tables, why = extract_tables(ctx.stage)
    if tables is None:
        ctx.obligation("translator: Options.py tables", False, why)
        ctx.budget_scale = 2.0
        # fall back to the live tables so that the search below still runs
        tables = {"defaults": list(Options._directive_defaults), "types": [(n, runtime_kind(Options, t)) for n, t in Options.directive_types.items()],
                  "scopes": {k: ([v] if isinstance(v, str) else list(v)) for k, v in Options.directive_scopes.items()},
                  "immediate": sorted(Options.immediate_decorator_directives), "noninherited": []}
    else:
        live = [(n, runtime_kind(Options, t)) for n, t in Options.directive_types.items()]
        ok = (sorted(live) == sorted(tables["types"]) and list(Options._directive_defaults) == tables["defaults"]
              and {k: ([v] if isinstance(v, str) else list(v)) for k, v in Options.directive_scopes.items()} == tables["scopes"]
              and set(Options.immediate_decorator_directives) == set(tables["immediate"]))
        ctx.obligation("translator: extracted tables == live module tables", ok,
                       "directive_types / _directive_defaults / directive_scopes / immediate_decorator_directives read from the source text agree with the imported module"
                       if ok else "differences: %s" % cap(sorted(set(live) ^ set(tables["types"])), 200))
    ctx.notes["table_sizes"] = {"types": len(tables["types"]), "defaults": len(tables["defaults"]), "scopes": len(tables["scopes"]),
                                "immediate": len(tables["immediate"]), "noninherited": tables["noninherited"]}
    kinds = dict(tables["types"])
    ctx.notes["unparsable_defaults"] = {n: kind_name(kinds[n]) for n in tables["defaults"] if kinds.get(n) in ("N", "D", "T", "d", "A")}
    doc = extract_docs(ctx.repo)
    ctx.notes["documented_directives"] = len(doc)
    spec = Spec(tables, doc)
    for name, (dk, alts) in sorted(doc.items()):
        k = kinds.get(name)
        if k is None or (dk == "bool" and k != "b") or (dk == "enum" and k.startswith("e|") and not set(alts) <= set(parse_enum(k)[0]) | set(parse_enum(k)[1])):
            ctx.violation("doc-mismatch-%s" % name, "documented directive %s (%s %s) has type-table entry %s" % (name, dk, alts, cap(k, 60)), {"op": "doc", "name": name})
    fixed, probes = detect_variant(Options)
    ctx.notes["source_variant"] = {True: "repaired (unparsable kinds raise ValueError)", False: "before the repair", None: "mixed"}[fixed] + " " + repr(probes)
    if not fixed:
        ctx.explanation += (" SOURCE VARIANT of this run: before the repair of the unparsable directive kinds — parse_value_total / parse_list_total (kind full) "
                            "speak about the repaired variant only; in force for this tree are parse_value_total_partial / parse_list_total_partial and the "
                            "counterexample theorems, whose witnesses (warn=, nogil=, with_gil=) are replayed on the real code and reported as known findings.")
    if fixed is None:
        ctx.tie_break("variant detection", "the three probes (warn, nogil, with_gil) answer %r: neither the variant before nor after the repair" % (probes,), {"op": "variant"})
        fixed = False
    # kernel-checked facts about the CURRENT table
    lean_types = "[" + ", ".join("(%s, %s)" % (lean_str(n), lean_kind(k)) for n, k in tables["types"]) + "]"
    lean_defaults = "[" + ", ".join(lean_str(n) for n in tables["defaults"]) + "]"
    expected_bad = sorted(n for n in tables["defaults"] if kinds.get(n) in ("N", "D", "T", "d", "A"))
    src = ("import CyVerif.Model.C41\nopen CyVerif.C41\ndef T : Table := ⟨%s, %s⟩\n" % (lean_types, lean_defaults)
           + "example : T.defaults.all (fun n => (lkS n T.types).isSome) = true := by decide +kernel\n"
           + "example : (T.defaults.filter (fun n => match lkS n T.types with | some k => k.unparsable && k != .list | none => true)) = [%s] := by decide +kernel\n"
           % ", ".join(lean_str(n) for n in [d for d in tables["defaults"] if d in expected_bad])
           + "example : T.defaults.all (fun n => !(isListKind T n) || !(n.contains '.')) = true := by decide +kernel\n"
           + "example : T.defaults.Nodup := by decide +kernel\n")
    ctx.lean_obligation("type table of the current source (kernel-checked)", src,
                        "every key of _directive_defaults has a type; the keys of unparsable non-list kind are exactly %s; no list-typed key can be reached by a '.all' prefix; keys distinct" % expected_bad)
    if not fixed and expected_bad != ["gil", "nogil", "warn", "with_gil"]:
        ctx.obligation("unparsable directives are the four recorded ones", False, "now: %s" % expected_bad)
        ctx.budget_scale = max(ctx.budget_scale, 2.0)
    import time
    tm = {}
    t0 = time.time()
    rop = (ctx.replay_case or {}).get("case", {}).get("op")
    if rop in ("parse_directive_value", "parse_directive_list", "scope", "alias"):
        # replay of one recorded case through the same three-way comparison
        {"parse_directive_value": part_a_values, "parse_directive_list": part_a_lists, "alias": part_a_lists, "scope": part_b}[rop](
            ctx, Options, tables, spec, fixed, maxd)
        return
    cov = LineCov()
    cov.start(modelled_functions(Options))
    tie_char_tables(ctx)
    tm["chartables"] = round(time.time() - t0, 1); t0 = time.time()
    n_int = tie_int(ctx, maxd)
    tie_norm(ctx, Options)
    tm["int+norm"] = round(time.time() - t0, 1); t0 = time.time()
    n_v = part_a_values(ctx, Options, tables, spec, fixed, maxd)
    tm["values"] = round(time.time() - t0, 1); t0 = time.time()
    n_l = part_a_lists(ctx, Options, tables, spec, fixed, maxd)
    tm["lists"] = round(time.time() - t0, 1); t0 = time.time()
    n_b = part_b(ctx, Options, tables, spec, fixed, maxd)
    tm["programs"] = round(time.time() - t0, 1); t0 = time.time()
    ctx.notes["line_coverage"] = cov.stop()
    part_c(ctx)
    tm["compiled"] = round(time.time() - t0, 1)
    ctx.notes["section_seconds"] = tm
    ctx.notes["case_counts"] = {"int": n_int, "values": n_v, "lists": n_l, "programs": n_b}


def lean_str(x):
    """a List Char literal (String.toList is slow in the kernel)"""
    return "[" + ",".join("'%s'" % c for c in x) + "]"


def lean_kind(k):
    if k.startswith("e|"):
        alts, mp = parse_enum(k)
        return "Kind.enum [%s] [%s]" % (", ".join(lean_str(a) for a in alts), ", ".join("(%s, %s)" % (lean_str(a), lean_str(b)) for a, b in mp.items()))
    return {"b": "Kind.bool", "i": "Kind.int", "s": "Kind.str", "n": "Kind.encoding", "l": "Kind.list", "N": "Kind.noneType", "D": "Kind.defer",
            "T": "Kind.typeT", "d": "Kind.dict", "A": "Kind.absent"}[k]

"""C36 — generated code is free of memory errors and undefined behaviour (default safety directives).

Theorems: the in-bounds / no-UB theorems of the helper models (listed in lean/props/C36.json) and
CyVerif.C36.intpow_no_overflow.  Tie/search: the configuration probe of C39 plus a module of former crash witnesses
and boundary calls is built with gcc -fsanitize=address,undefined (UB traps abort) from the staged compiler and run
in child processes; any sanitizer abort / crash is an observation.  Three-way for the integer power helper:
UBSan build / Lean checked loop / exact arithmetic.
"""
import os
import subprocess

import cybuild
from props import c39

EXTRA = r'''
# cython: language_level=3
cimport cython

@cython.cpow(True)
def ipow_i(int b, int e):
    cdef int r = b ** e
    return r

@cython.cpow(True)
def ipow_q(long long b, long long e):
    cdef long long r = b ** e
    return r

def fdiv_i(int a, int b): return a // b
def fmod_i(int a, int b): return a % b
def fdiv_q(long long a, long long b): return a // b
def fmod_q(long long a, long long b): return a % b

cdef int _sentinel(int x) except -1:
    return x
def sentinel(int x): return _sentinel(x)

def crop(list a, Py_ssize_t i, Py_ssize_t j): return a[i:j]
def crop_t(tuple a, Py_ssize_t i, Py_ssize_t j): return a[i:j]
def mv(int[:] a, Py_ssize_t s, Py_ssize_t e, Py_ssize_t t): return list(a[s:e:t])
def mv_idx(int[:] a, Py_ssize_t i): return a[i]
def mv_obj(object m, object ix): return memoryview_of(m)[ix]
def memoryview_of(int[:] a): return a
def flt(object s): return float(s)
def flt_s(str s): return float(s)
def flt_b(bytes s): return float(s)
def fmt_c(unsigned int v, int w): return f"{v:c}" if w == 0 else f"{v:5c}"
def fmt_min(long long v): return (f"{v}", f"{v:x}", f"{v:o}", f"{v:25d}")
def bytes_at(bytes b, int i): return b[i]
def str_at(str s, Py_ssize_t i): return s[i]
def pop_at(list l, Py_ssize_t i): return l.pop(i)
def conv_uc(unsigned char x): return x
def conv_i128(object x):
    cdef long long v = x
    return v
def cascade(a, b, c): return a < b < c
def lits(): return ("\x00" * 3, b"\\" * 999 + b"\xc3", "a" * 70000)
'''


ITER_TMPL = r"""
def _mut({L}l, {I}mode):
    if mode == 1: l.pop()
    elif mode == 2: l.pop(); l.pop()
    elif mode == 3: l.clear()
    elif mode == 4: del l[1:]
    elif mode == 5: l.extend(range(1000))
    elif mode == 6: del l[:]; l.extend(range(3))
    elif mode == 7: l.insert(0, -1)
    elif mode == 8: del l[len(l) // 2:]

def _mutb({B}b, {I}mode):
    if mode == 1: b.pop()
    elif mode == 2: b.pop(); b.pop()
    elif mode == 3: b.clear()
    elif mode == 4: del b[1:]
    elif mode == 5: b.extend(bytes(1000))
    elif mode == 6: del b[:]; b.extend(b'abc')
    elif mode == 7: b.insert(0, 1)
    elif mode == 8: del b[len(b) // 2:]

def rev_list({L}l, {I}mode, {I}at):
    out = []; n = 0
    try:
        for x in reversed(l):
            out.append(x)
            if n == at: _mut(l, mode)
            n += 1
    except IndexError: out.append('IndexError')
    return out

def fwd_list({L}l, {I}mode, {I}at):
    out = []; n = 0
    try:
        for x in l:
            out.append(x)
            if n == at: _mut(l, mode)
            n += 1
            if n > 1100: break
    except IndexError: out.append('IndexError')
    return out

def enum_list({L}l, {I}mode, {I}at):
    out = []
    try:
        for i, x in enumerate(l):
            out.append((i, x))
            if i == at: _mut(l, mode)
            if i > 1100: break
    except IndexError: out.append('IndexError')
    return out

def idx_list({L}l, {I}mode, {I}at):
    out = []
    try:
        for i in range(len(l)):
            out.append(l[i])
            if i == at: _mut(l, mode)
    except IndexError: out.append('IndexError')
    return out

def fwd_ba({B}b, {I}mode, {I}at):
    out = []; n = 0
    try:
        for c in b:
            out.append(c)
            if n == at: _mutb(b, mode)
            n += 1
            if n > 1100: break
    except IndexError: out.append('IndexError')
    return out

def rev_ba({B}b, {I}mode, {I}at):
    out = []; n = 0
    try:
        for c in reversed(b):
            out.append(c)
            if n == at: _mutb(b, mode)
            n += 1
    except IndexError: out.append('IndexError')
    return out

def dict_it({D}d, {I}mode, {I}at):
    out = []; n = 0
    try:
        for k in d:
            out.append(k)
            if n == at:
                if mode == 1: d.popitem()
                elif mode == 3: d.clear()
                elif mode == 5: d.update((i, i) for i in range(1000, 1100))
                elif mode == 7: d[-1] = 0; del d[-1]
            n += 1
    except RuntimeError: out.append('RuntimeError')
    return out

def set_it({S}s, {I}mode, {I}at):
    n = 0; cnt = 0
    try:
        for k in s:
            cnt += 1
            if n == at:
                if mode == 1: s.pop()
                elif mode == 3: s.clear()
                elif mode == 5: s.update(range(1000, 1100))
            n += 1
    except RuntimeError: return 'RuntimeError'
    return cnt if mode == 0 else 'done'

def unpack_it({L}l, {I}mode):
    class It:
        def __init__(self): self.n = 0
        def __iter__(self): return self
        def __next__(self):
            self.n += 1
            if self.n == 2: _mut(l, mode)
            if self.n > 3: raise StopIteration
            return self.n
    try:
        a, b, c = It()
        return (a, b, c, len(l))
    except ValueError: return 'ValueError'
"""
ITER_PYX = "# cython: language_level=3\n" + ITER_TMPL.format(L="list ", I="int ", B="bytearray ", D="dict ", S="set ")
ITER_PY = ITER_TMPL.format(L="", I="", B="", D="", S="")


def iter_cases():
    cs = []
    for n in (0, 1, 2, 5, 40, 300):
        for mode in range(9):
            for at in (0, 1, n // 2, n - 1):
                if at < 0:
                    continue
                for f in ("rev_list", "fwd_list", "enum_list", "idx_list"):
                    cs.append((f, "(list(range(%d)), %d, %d)" % (n, mode, at)))
                for f in ("fwd_ba", "rev_ba"):
                    cs.append((f, "(bytearray(range(%d)), %d, %d)" % (min(n, 250), mode, at)))
                if mode in (0, 1, 3, 5, 7):
                    cs.append(("dict_it", "(dict.fromkeys(range(%d)), %d, %d)" % (n, mode, at)))
                if mode in (0, 1, 3, 5):
                    cs.append(("set_it", "(set(range(%d)), %d, %d)" % (n, mode, at)))
            cs.append(("unpack_it", "(list(range(%d)), %d)" % (n, mode)))
    seen = set(); out = []
    for c in cs:
        if c not in seen:
            seen.add(c); out.append(c)
    return out


def _canon(v):          # same canonical form as the child runner of cybuild.run_cases
    if isinstance(v, (tuple, list)):
        return type(v).__name__ + ':[' + ';'.join(_canon(x) for x in v) + ']'
    return type(v).__name__ + ':' + repr(v)


def asan_env():
    lib = subprocess.run(["gcc", "-print-file-name=libasan.so"], stdout=subprocess.PIPE, text=True).stdout.strip()
    return {"LD_PRELOAD": lib, "ASAN_OPTIONS": "detect_leaks=0:abort_on_error=1:allocator_may_return_null=1",
            "UBSAN_OPTIONS": "halt_on_error=1:abort_on_error=1"}


def extra_cases(rng, n):
    I32, I64 = 2 ** 31, 2 ** 63
    cs = []
    pw = []
    for b in (-3, -2, -1, 0, 1, 2, 3, 7, 10, 46340, 46341, 200, -200, 1290, 2147483647, -2147483648):
        for e in (0, 1, 2, 3, 4, 5, 8, 15, 16, 30, 31):
            if -I32 <= b ** e < I32:
                pw.append(("ipow_i", b, e))
            if -I64 <= b ** e < I64:
                pw.append(("ipow_q", b, e))
    cs += [(f, "(%d, %d)" % (b, e)) for f, b, e in pw]
    for a in (-I32, -I32 + 1, -7, -1, 0, 1, 7, I32 - 1):
        for b in (-I32, -7, -2, -1, 1, 2, 7, I32 - 1, 0):
            cs += [("fdiv_i", "(%d, %d)" % (a, b)), ("fmod_i", "(%d, %d)" % (a, b))]
    for a in (-I64, -I64 + 1, -1, 0, 1, I64 - 1):
        for b in (-I64, -1, 1, 2, I64 - 1, 0):
            cs += [("fdiv_q", "(%d, %d)" % (a, b)), ("fmod_q", "(%d, %d)" % (a, b))]
    cs += [("sentinel", "(-1,)"), ("sentinel", "(5,)")]
    big = (I64 - 1, -I64, 2 ** 62, -2 ** 62 + 1, 0, 3, -4)
    for i in big:
        for j in big:
            cs += [("crop", "([1, 2, 3], %d, %d)" % (i, j)), ("crop", "([], %d, %d)" % (i, j)), ("crop_t", "((1, 2), %d, %d)" % (i, j))]
    arr = "__import__('array').array('i', range(%d))"
    for n_ in (0, 1, 5):
        for s in (-100, -6, -1, 0, 3, 10, I64 - 1, -I64):
            for e in (-100, -2, 0, 2, 100, I64 - 1, -I64):
                for t in (-3, -1, 1, 3, I64 - 1, -I64 + 1):
                    cs.append(("mv", "(%s, %d, %d, %d)" % (arr % n_, s, e, t)))
        for i in (-7, -1, 0, 4, 5, I64 - 1, -I64):
            cs.append(("mv_idx", "(%s, %d)" % (arr % n_, i)))
    for ix in ("(slice(0, 1), slice(0, 1))", "(0,) * 12", "(slice(None),) * 9", "Ellipsis", "(Ellipsis, 0)", "None"):
        cs.append(("mv_obj", "(%s, %s)" % (arr % 5, ix)))
    for s in ("'1' * 39 + '\\xa0'", "'\\xa0' + '1' * 38", "'\\xa0' + '1' * 39", "'\\xa0' + '1' * 40", "'\\xa0' + '1' * 41", "'\\u3000' + '9' * 100",
              "'1e+_5'", "'1_0'", "'\\x1cinf\\xa0'", "b'1' * 300", "'1' * 5000", "'nan'", "'-inf'", "''", "'\\x00'", "b'1e5\\x00'"):
        cs += [("flt", "(%s,)" % s)]
        if s.startswith("b"):
            cs.append(("flt_b", "(%s,)" % s))
        else:
            cs.append(("flt_s", "(%s,)" % s))
    for v in (0, 65, 0x20ac, 0x10ffff, 0x110000, 0x200000, 4294967295):
        cs += [("fmt_c", "(%d, 0)" % v), ("fmt_c", "(%d, 1)" % v)]
    for v in (-I64, I64 - 1, 0, -1):
        cs.append(("fmt_min", "(%d,)" % v))
    for i in (-4, -3, 0, 2, 3, I32 - 1, -I32):
        cs += [("bytes_at", "(b'\\xff\\x80a', %d)" % i), ("str_at", "('a\\u20ac\\U0001f600', %d)" % i), ("pop_at", "([1, 2, 3], %d)" % i)]
    for v in (-1, 0, 255, 256, 2 ** 64, -2 ** 70):
        cs += [("conv_uc", "(%d,)" % v), ("conv_i128", "(%d,)" % v)]
    cs += [("cascade", "(1, 2, 3)"), ("cascade", "(3, 2, 'x')"), ("lits", "()")]
    return cs, pw


def run(ctx):
    ctx.rule = ("every call of the C39 probe plus a module of boundary calls and former crash witnesses (integer power with fitting results, "
                "MIN // -1, MIN % -1, except -1 with a legitimate -1, list/tuple slices with extreme bounds, typed memoryview slices/indexing with "
                "extreme bounds incl. empty buffers, too many indices, float() of long/non-ASCII strings, '{v:c}' out of range, MIN formatting, "
                "byte/str indexing, narrow conversions) executed in an ASan+UBSan build (gcc -fsanitize=address,undefined, UB aborts); "
                "non-trivial = a call that reaches generated helper code with a boundary value")
    ctx.explanation = ("Theorems: bounds / no-UB corollaries of the modelled helpers (C02 C03 C04 C05 C06 C10 C12 C15 C16 C18 C24) and intpow_no_overflow. "
                       "Everything not modelled (the bulk of the generated code, reference counting, use-after-free) is only searched with the sanitizer build "
                       "on the probe calls; user-written C arithmetic that overflows (a * b, a << 40, -INT_MIN on cdef ints without overflowcheck) is C semantics "
                       "by design and is not exercised.")
    env = asan_env()
    flags = ["-fsanitize=address,undefined", "-fno-sanitize-recover=undefined", "-g", "-fno-omit-frame-pointer"]
    specs = [dict(name="c36probe", source=c39.PROBE, cflags=flags, ldflags=["-fsanitize=address,undefined"], opt="-O1"),
             dict(name="c36extra", source=EXTRA, cflags=flags, ldflags=["-fsanitize=address,undefined"], opt="-O1")]
    specs += [dict(name="c36iter", source=ITER_PYX, cflags=flags, ldflags=["-fsanitize=address,undefined"], opt="-O1")]
    if not ctx.quick:
        specs += [dict(name="c36extra2", source=EXTRA, cflags=flags, ldflags=["-fsanitize=address,undefined"], opt="-O2")]
    sos = cybuild.build_many(ctx, specs)
    for s, so in zip(specs, sos):
        if isinstance(so, cybuild.BuildError):
            ctx.tie_break("sanitizer build " + s["name"], so.stage + ": " + so.log[-500:], {"module": s["name"]})
            return
    pcases = c39.cases(ctx.rng, ctx.n(100, 2000)) + [("mv_slice", "(__import__('array').array('i', range(7)), %d, %d, %d)" % c) for c in c39.MV_CASES]
    def _fits(c):
        if c[0] != "ipow":
            return True
        b, e = eval(c[1])
        return e >= 0 and (abs(b) <= 1 or e < 64) and -2 ** 63 <= b ** e < 2 ** 63      # a ** whose exact result does not fit wraps by design (C semantics)
    pcases = [c for c in pcases if _fits(c)]
    ecases, pw = extra_cases(ctx.rng, 0)
    for so, cases, tag in [(sos[0], pcases, "probe"), (sos[1], ecases, "extra")] + ([(sos[2], ecases, "extra-O2")] if len(sos) > 2 else []):
        outs = cybuild.run_cases(ctx, so, cases, env_extra=env, timeout_per_case=30)
        for (f, a), o in zip(cases, outs):
            ctx.count("%s/%s" % (tag, f))
            ctx.seen((tag, f, a))
            if o.startswith(("crash", "timeout")):
                ctx.violation("sanitizer-%s" % f, "%s%s in the ASan+UBSan build (%s): %s (memory error or undefined behaviour detected)" % (f, a[:100], tag, o),
                              {"module": tag, "func": f, "args": a, "outcome": o})
        if tag == "extra":
            # integer power: UBSan observation / Lean checked loop / exact arithmetic
            got = {(f, a): o for (f, a), o in zip(cases, outs)}
            lines = ["C36 ipow 1 %d %d %d" % ((2 ** 31 - 1) if f == "ipow_i" else (2 ** 63 - 1), abs(b), e) for f, b, e in pw]
            mo = ctx.drv.batch(lines)
            for (f, b, e), m in zip(pw, mo):
                o = got[(f, "(%d, %d)" % (b, e))]
                exp = "ok int:%d" % (b ** e)
                lim = (2 ** 31 - 1) if f == "ipow_i" else (2 ** 63 - 1)
                if abs(b ** e) <= lim:
                    if m != "ok %d" % abs(b ** e):
                        ctx.tie_break("UBSan build of __Pyx_pow vs CyVerif.C36.powLoopChecked", "%s(%d,%d): model %s" % (f, b, e, m), {"func": f, "b": b, "e": e})
                    if o != exp and not o.startswith(("crash", "timeout")):
                        ctx.violation("intpow-value-%s" % f, "%s(%d,%d) = %s, exact %d fits" % (f, b, e, o, b ** e), {"func": f, "b": b, "e": e})
    # containers mutated while a compiled loop iterates over them: no sanitizer report and the same items as CPython
    icases = iter_cases()
    if ctx.quick:
        icases = icases[::3] + [c for c in icases if c[0] in ("rev_list", "rev_ba")][1::3]
    iso = sos[[x["name"] for x in specs].index("c36iter")]
    iouts = cybuild.run_cases(ctx, iso, icases, env_extra=env, timeout_per_case=30)
    pyns = {}
    exec(ITER_PY, pyns)
    for (f, a), o in zip(icases, iouts):
        ctx.count("iter/%s" % f)
        ctx.seen(("iter", f, a))
        if o.startswith(("crash", "timeout")):
            ctx.violation("sanitizer-%s" % f, "%s%s in the ASan+UBSan build: %s (container mutated during a compiled loop)" % (f, a, o), {"module": "iter", "func": f, "args": a, "outcome": o})
            continue
        try:
            r = pyns[f](*eval(a))
            exp = "ok " + _canon(r)
        except Exception as e:
            exp = "err " + type(e).__name__
        if o != exp:
            ctx.violation("iter-mutation-%s" % f, "%s%s: compiled %s, CPython %s (stale or out-of-range items read from a container that changed during the loop)" % (f, a, o[:150], exp[:150]),
                          {"module": "iter", "func": f, "args": a, "compiled": o[:300], "cpython": exp[:300]})
    ctx.sample({"sanitizer_env": env["ASAN_OPTIONS"], "probe_calls": len(pcases), "extra_calls": len(ecases), "example": [ecases[0], "ok"]})

"""C39 — behaviour is identical across build configurations.

A probe module exercising the helpers that have configuration-dependent variants (integer conversion, object
arithmetic with constants, division/modulo/power, string literals and formatting, indexing/slicing, global lookups,
cpdef dispatch, exception declarations, typed memoryviews) is compiled by the staged compiler and built in a matrix of
configurations; every cell must produce the same outcome stream as the reference cell, and the reference cell must agree
with CPython executing the pure-Python twin of the probe (oracle).  Theorems: the variant-equality corollaries collected
in lean/CyVerif/Props/C39.lean.
"""
import os

import cybuild
import lib

PROBE = r'''
# cython: language_level=3
import cython
cimport cython

GLOBAL_A = 10

cdef class Base:
    cpdef str who(self):
        return "base"
    def call(self):
        return self.who()

cdef int cfail(int x) except? -1:
    if x == 13:
        raise ValueError("thirteen")
    return x - 14

def conv_int(int x): return x
def conv_uchar(unsigned char x): return x
def conv_ll(long long x): return x
def conv_ull(unsigned long long x): return x
def conv_ssize(Py_ssize_t x): return x

def arith(x):
    return (x + 7, 7 + x, x - 1073741824, x * 3, x // 7, x % 7, x & 255, x | 1, x ^ 5, x << 3, x >> 2, x == 7, x != 1073741823, x / 3)

def cdivmod(int a, int b):
    return (a // b, a % b)

@cython.cdivision(True)
def cdivmod_c(int a, int b):
    return (a // b, a % b)

@cython.cpow(True)
def ipow(long long b, long long e):
    cdef long long r = b ** e
    return r

def fmt(int v, long long w, unsigned int u):
    return (f"{v}|{v:5d}|{v:05d}|{w:x}|{u:X}|{w:o}", "%d-%5d-%s" % (v, u, w), str(v), repr(w))

LITS = ("plain", "café", "\U0001F600 emoji", "nul\x00inside", b"bytes\xff\x00", "q\"uote'", "tri??/graph", "a" * 3000, b"\\" * 1001 + b"\xc3")
def lits(): return LITS

def index(list l, int i): return l[i]
def index_obj(object l, object i): return l[i]
def slicing(list l, Py_ssize_t a, Py_ssize_t b): return (l[a:b], l[a:], l[:b])
def str_slice(str s, Py_ssize_t a, Py_ssize_t b): return s[a:b]
def bytes_index(bytes b, int i): return b[i]

def glob(): return GLOBAL_A
def set_glob(v):
    global GLOBAL_A
    GLOBAL_A = v
    return glob()

def dispatch(Base b): return (b.call(), b.who())
class Derived(Base):
    def who(self):
        return "derived"
def mk(kind): return Derived() if kind else Base()

def exc(int x): return cfail(x)

def mv_slice(int[:] a, Py_ssize_t s, Py_ssize_t e, Py_ssize_t t):
    return list(a[s:e:t])

def kwargs_fn(a, b=2, *args, c, d=4, **kw):
    return (a, b, args, c, d, sorted(kw.items()))

def gen_fn(n):
    for i in range(n):
        x = yield i
        if x:
            yield x * 2
'''


def cases(rng, n):
    cs = []
    ints = [0, 1, -1, 7, 255, 256, -129, 2 ** 15, 2 ** 30 - 1, 2 ** 30, -2 ** 30, 2 ** 31 - 1, -2 ** 31, 2 ** 31, 2 ** 60, 2 ** 62, 2 ** 63 - 1,
            -2 ** 63, 2 ** 63, 2 ** 64 - 1, 2 ** 64, 10 ** 30, -10 ** 30]
    for f in ("conv_int", "conv_uchar", "conv_ll", "conv_ull", "conv_ssize", "arith"):
        for v in ints + [True, 1.5, "x", None]:
            cs.append((f, "(%r,)" % (v,)))
    for a in (-2 ** 31, -7, -1, 0, 1, 7, 2 ** 31 - 1):
        for b in (-7, -2, -1, 0, 1, 2, 7):
            cs.append(("cdivmod", "(%d, %d)" % (a, b)))
            if b != 0 and not (a == -2 ** 31 and b == -1):
                cs.append(("cdivmod_c", "(%d, %d)" % (a, b)))
    for b in (-3, -2, 0, 1, 2, 3, 10):
        for e in (0, 1, 2, 3, 5, 19):
            cs.append(("ipow", "(%d, %d)" % (b, e)))
    for v in (0, -1, 42, -2 ** 31, 2 ** 31 - 1):
        cs.append(("fmt", "(%d, %d, %d)" % (v, v * 1000003, abs(v) % (2 ** 32))))
    cs.append(("lits", "()"))
    L = "[10, 20, 30, 40, 50]"
    for i in (-6, -5, -1, 0, 4, 5, 2 ** 40):
        cs.append(("index", "(%s, %d)" % (L, i) if abs(i) < 2 ** 31 else "(%s, 5)" % L))
        cs.append(("index_obj", "(%s, %d)" % (L, i)))
        cs.append(("bytes_index", "(b'abcde', %d)" % (i if abs(i) < 2 ** 31 else 7)))
    for a in (-7, -2, 0, 2, 9):
        for b in (-7, -1, 0, 3, 9):
            cs.append(("slicing", "(%s, %d, %d)" % (L, a, b)))
            cs.append(("str_slice", "('h\\xe9llo w\\U0001F600rld', %d, %d)" % (a, b)))
    cs += [("glob", "()"), ("set_glob", "(5,)"), ("glob", "()"), ("set_glob", "('s',)")]
    cs += [("dispatch", "(mod.mk(0),)"), ("dispatch", "(mod.mk(1),)")]
    for x in (0, 13, 14, 15):
        cs.append(("exc", "(%d,)" % x))
    cs.append(("kwargs_fn", "(1,)"))
    for s in ("(1, c=3)", "(1, 2, 3, 4, c=5, e=6)", "(1, b=2, c=3, d=4)"):
        cs.append(("kwargs_fn", s))
    for _ in range(n):
        f = rng.choice(["arith", "conv_int", "conv_ll", "conv_ull"])
        v = rng.choice([1, -1]) * rng.getrandbits(rng.choice([8, 16, 31, 32, 62, 63, 64, 90]))
        cs.append((f, "(%d,)" % v))
    return cs


MV_CASES = [(s, e, t) for s in (-9, -1, 0, 2, 7) for e in (-9, -2, 0, 3, 9) for t in (-2, -1, 1, 3)]


def strings_module(rng):
    """A module whose string table holds planted repeats at every distance/length threshold of the table compressors:
    constant = X + filler + X with |X| around the length thresholds (3..5, 33..37, 130, 257..259, 300) and |filler| around the
    offset thresholds (0..2, 120..135, 252..259, 382..387, 508..515, 638..642, 2**k-1..2**k+1)."""
    import random, hashlib
    r = random.Random(rng.randrange(1 << 30))
    alpha = "abcdefghijklmnopqrstuvwxyzABCDEFGHIJKLMNOPQRSTUVWXYZ0123456789"
    consts = []
    def rnd(n):
        return "".join(r.choice(alpha) for _ in range(n))
    # phrase of L bytes, repeated after exactly G other bytes (G and L sweep the token-form thresholds of the compressors)
    gaps = list(range(0, 3)) + list(range(120, 136)) + list(range(252, 260)) + list(range(382, 388)) + list(range(508, 516)) + list(range(638, 643))
    for G in gaps:
        for L in (35, 40):
            x = rnd(L); consts.append(x + rnd(G) + x)
    for G in (126, 127, 128, 129, 130, 510, 511, 512, 513):
        for L in (3, 4, 5, 33, 34, 36, 37, 130, 131, 257, 258, 259, 300):
            x = rnd(L); consts.append(x + rnd(G) + x)
    for k in range(10, 13):
        for d in (-1, 0, 1):
            x = rnd(35); consts.append(x + rnd((1 << k) + d) + x)
    r.shuffle(consts)
    src = ["# cython: language_level=3", "import hashlib", "CONSTS = ("]
    for i, c in enumerate(consts):
        src.append(("    b'%s'," if i % 2 else "    '%s',") % c)
    src += [")", "def digests():", "    return [hashlib.md5(c if isinstance(c, bytes) else c.encode()).hexdigest() for c in CONSTS]"]
    exp = [hashlib.md5(c.encode()).hexdigest() for c in consts]
    return "\n".join(src) + "\n", exp


def run_strings(ctx):
    src, exp = strings_module(ctx.rng)
    cells = [("default", []), ("CYTHON_COMPRESS_STRINGS=0", ["-DCYTHON_COMPRESS_STRINGS=0"]), ("CYTHON_COMPRESS_STRINGS=1", ["-DCYTHON_COMPRESS_STRINGS=1"]),
             ("CYTHON_COMPRESS_STRINGS=2", ["-DCYTHON_COMPRESS_STRINGS=2"]), ("CYTHON_COMPRESS_STRINGS=3", ["-DCYTHON_COMPRESS_STRINGS=3"])]
    sos = cybuild.build_many(ctx, [dict(name="c39strings", source=src, cflags=fl, opt="-O0") for _, fl in cells])
    want = "ok " + canon(exp)
    for (name, fl), so in zip(cells, sos):
        ctx.count("strings/" + name)
        if isinstance(so, cybuild.BuildError):
            if name == "default":
                ctx.tie_break("string-table probe build", so.stage + ": " + so.log[-400:], {"cell": name})
            continue
        try:
            o = cybuild.run_cases(ctx, so, [("digests", "()")], timeout_per_case=60)[0]
        except lib.Infra as e:      # the module does not even import (e.g. the string table fails to decompress): an observation, not an infrastructure failure
            o = "crash import: " + " ".join(str(e).split())[-200:]
        ctx.seen(("strings", name), nontrivial=True)
        if o != want:
            bad = "?"
            if o.startswith("ok "):
                got = o[3:].split(";")
                w = want[3:].split(";")
                bad = [i for i, (g, e) in enumerate(zip(got, w)) if g != e][:5]
            ctx.violation("config-strings-%s" % name, "string-table probe (planted repeats at compressor thresholds) built with %s: %s; constants differing from the source: %s"
                          % (name, o[:80], bad), {"cell": name, "outcome": o[:300], "module_source": src[:200000]})


def run(ctx):
    run_strings(ctx)
    ctx.rule = ("one probe module x build configurations (C/C++, -O0/-O2, C-level feature switches, string-table compression, directives); "
                "every configuration runs the same ~500 calls (+ seeded random ones); case = (configuration, call); non-trivial = a call whose reference outcome "
                "is not an exception")
    ctx.explanation = ("Theorems (Props/C39.lean + C04.variants_agree + C05.internals_off_eq): modelled #if variants compute the same function. Everything else in the "
                       "matrix — C vs C++, optimisation level, Limited API, vectorcall, borrowed references, safe macros, type slots, compression choice, neutral "
                       "directives — is only differentially compared on the probe; no theorem covers those switches.")
    cells = [("ref", {}, [], False, "-O0")]
    cells += [("O2", {}, [], False, "-O2"), ("cpp", {}, [], True, "-O0"), ("cpp-O2", {}, [], True, "-O2")]
    for macro in ("CYTHON_USE_PYLONG_INTERNALS=0", "CYTHON_USE_UNICODE_INTERNALS=0", "CYTHON_VECTORCALL=0", "CYTHON_FAST_PYCALL=0",
                  "CYTHON_AVOID_BORROWED_REFS=1", "CYTHON_ASSUME_SAFE_MACROS=0", "CYTHON_ASSUME_SAFE_SIZE=0", "CYTHON_USE_TYPE_SLOTS=0", "CYTHON_USE_DICT_VERSIONS=1",
                  "CYTHON_USE_PYLIST_INTERNALS=0", "CYTHON_USE_UNICODE_WRITER=0", "CYTHON_UNPACK_METHODS=0", "CYTHON_FAST_THREAD_STATE=0",
                  "CYTHON_USE_EXC_INFO_STACK=0", "CYTHON_COMPRESS_STRINGS=0", "CYTHON_COMPRESS_STRINGS=1", "CYTHON_COMPRESS_STRINGS=2",
                  "CYTHON_COMPRESS_STRINGS=3", "CYTHON_LIMITED_API=1", "CYTHON_USE_MODULE_STATE=1", "CYTHON_PEP489_MULTI_PHASE_INIT=0"):
        cells.append((macro, {}, ["-D" + macro, "-Wno-deprecated-declarations"], False, "-O0"))
    for dname, dval in (("binding", False), ("optimize.use_switch", False), ("optimize.unpack_method_calls", False), ("always_allow_keywords", False),
                        ("embedsignature", True), ("initializedcheck", False), ("profile", False), ("auto_pickle", False)):
        cells.append(("%s=%s" % (dname, dval), {dname: dval}, [], False, "-O0"))
    if ctx.quick:
        keep = {"ref", "O2", "cpp", "CYTHON_USE_PYLONG_INTERNALS=0", "CYTHON_USE_UNICODE_INTERNALS=0", "CYTHON_VECTORCALL=0",
                "CYTHON_AVOID_BORROWED_REFS=1", "CYTHON_ASSUME_SAFE_MACROS=0", "CYTHON_USE_TYPE_SLOTS=0", "CYTHON_USE_DICT_VERSIONS=1",
                "CYTHON_COMPRESS_STRINGS=0", "CYTHON_LIMITED_API=1", "binding=False", "optimize.use_switch=False"}
        cells = [c for c in cells if c[0] in keep]
    specs = [dict(name="c39probe", source=PROBE, directives=d, cflags=fl, cplus=cp, opt=opt) for _, d, fl, cp, opt in cells]
    sos = cybuild.build_many(ctx, specs)
    cs = cases(ctx.rng, ctx.n(150, 3000))
    mv = [("mv_slice", "(__import__('array').array('i', range(7)), %d, %d, %d)" % c) for c in MV_CASES]
    allc = cs + mv
    ref_out = None
    unbuildable = []
    for (name, d, fl, cp, opt), so in zip(cells, sos):
        if isinstance(so, cybuild.BuildError):
            if name == "ref":
                ctx.tie_break("reference build", so.stage + ": " + so.log[-500:], {"cell": name})
                return
            unbuildable.append({"cell": name, "stage": so.stage, "log_tail": so.log[-300:]})
            continue
        out = cybuild.run_cases(ctx, so, allc)
        if name == "ref":
            ref_out = out
            continue
        for (f, a), r, o in zip(allc, ref_out, out):
            ctx.count("cell/" + name)
            ctx.seen((name, f, a), nontrivial=r.startswith("ok"))
            if r != o:
                ctx.violation("config-%s-%s" % (name, f), "%s%s: reference build gives %s, build with %s gives %s" % (f, a[:80], r[:120], name, o[:120]),
                              {"cell": name, "func": f, "args": a, "reference": r, "cell_outcome": o})
    ctx.notes["cells"] = [c[0] for c in cells]
    ctx.notes["cells_that_do_not_build_on_this_platform"] = unbuildable
    # oracle: CPython on the pure-Python meaning of a subset of the probe
    import operator
    for (f, a), r in zip(allc, ref_out):
        exp = None
        try:
            args = eval(a, {"mod": None, "__import__": __import__}) if "mod." not in a else None
        except Exception:
            args = None
        if args is None:
            continue
        if f == "arith":
            x = args[0]
            try:
                v = (x + 7, 7 + x, x - 1073741824, x * 3, x // 7, x % 7, x & 255, x | 1, x ^ 5, x << 3, x >> 2, x == 7, x != 1073741823, x / 3)
                exp = "ok " + canon(v)
            except Exception as e:
                exp = "err " + type(e).__name__
        elif f == "cdivmod":
            a_, b_ = args
            exp = "err ZeroDivisionError" if b_ == 0 else ("ok " + canon((a_ // b_, a_ % b_)) if not (a_ == -2 ** 31 and b_ == -1) else None)
        elif f == "ipow":
            b_, e_ = args
            exp = "ok " + canon(b_ ** e_) if -2 ** 63 <= b_ ** e_ < 2 ** 63 else None
        elif f in ("index_obj",):
            try:
                exp = "ok " + canon(args[0][args[1]])
            except Exception as e:
                exp = "err " + type(e).__name__
        elif f == "slicing":
            l, x, y = args
            exp = "ok " + canon((l[x:y], l[x:], l[:y]))
        elif f == "str_slice":
            exp = "ok " + canon(args[0][args[1]:args[2]])
        elif f == "mv_slice":
            arr, s_, e_, t_ = args
            exp = "ok " + canon(list(arr)[s_:e_:t_])
        elif f == "fmt":
            v, w, u = args
            exp = "ok " + canon((f"{v}|{v:5d}|{v:05d}|{w:x}|{u:X}|{w:o}", "%d-%5d-%s" % (v, u, w), str(v), repr(w)))
        if exp is not None:
            ctx.count("oracle/" + f)
            if r != exp:
                ctx.violation("reference-vs-cpython-%s" % f, "%s%s: compiled %s, CPython %s" % (f, a[:80], r[:150], exp[:150]), {"func": f, "args": a, "compiled": r, "cpython": exp})
    ctx.sample({"cells": len(cells), "calls": len(allc), "example": [allc[5], ref_out[5]]})


def canon(v):
    inf = float("inf")
    if isinstance(v, float):
        return 'float:' + (v.hex() if v == v and v not in (inf, -inf) else repr(v))
    if isinstance(v, (tuple, list)):
        return type(v).__name__ + ':[' + ';'.join(canon(x) for x in v) + ']'
    return type(v).__name__ + ':' + repr(v)

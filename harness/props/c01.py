"""C01 (partial) — name resolution and scoping of compiled pure-Python code = CPython's.

Three-way on every generated program of the scoping mini-AST (module / def / lambda / class body /
comprehension / generator expression; assignment, augmented assignment, global, nonlocal, del, walrus,
nested definitions, calls, return):
  * implementation: the program printed as Python source, compiled by the STAGED compiler + gcc, imported
    and driven by a call schedule in a child process;
  * oracle: the same source exec'd by CPython in a child process;
  * model: both Lean semantics (`runRef`, `runCy current|repaired`) through cydrv.
In-process leg: the staged compiler's pipeline is run on the same source up to (and including)
AnalyseExpressions / CreateClosureClasses and every NameNode's symbol-table entry is classified
(owner scope + kind) and compared with the Lean Cython table (`cyAll`).
Search leg (no theorem): harness/props/c01_search.py.
"""
import hashlib
import json
import os
import subprocess
import concurrent.futures as cf

import cybuild
import lib

NBUILTIN = 2
BUILTIN_NAMES = {0: "tuple", 1: "Ellipsis"}


def nm(x):
    return BUILTIN_NAMES.get(x, "n%d" % x)


def lit_src(atoms):
    return "'" + "".join(chr(97 + a % 26) for a in atoms) + "'"


# ---------------------------------------------------------------- tokens for the Lean driver
def tok_e(e, out):
    k = e[0]
    if k == "L":
        out += ["L", str(len(e[1]))] + [str(a) for a in e[1]]
    elif k == "N":
        out += ["N", str(e[1])]
    elif k == "W":
        out += ["W", str(e[1])]
        tok_e(e[2], out)
    elif k == "C":
        out.append("C")
        tok_e(e[1], out)
        tok_e(e[2], out)
    elif k == "F":
        _, i, ps, ds, body = e
        out += ["F", str(i), str(len(ps))] + [str(p) for p in ps] + [str(len(ds))]
        for d in ds:
            tok_e(d, out)
        tok_e(body, out)
    elif k == "Q":
        _, i, gen, x, its, elt = e
        out += ["Q", str(i), "1" if gen else "0", str(x), str(len(its))]
        for d in its:
            tok_e(d, out)
        tok_e(elt, out)
    elif k == "A":
        out.append("A")
        tok_e(e[1], out)
        out.append(str(len(e[2])))
        for d in e[2]:
            tok_e(d, out)
    else:
        raise ValueError(k)


def tok_ss(ss, out):
    out.append(str(len(ss)))
    for s in ss:
        k = s[0]
        if k in ("=", "+"):
            out += [k, str(s[1])]
            tok_e(s[2], out)
        elif k in ("G", "NL", "D"):
            out += [k, str(s[1])]
        elif k == "DEF":
            _, i, f, ps, ds, body = s
            out += ["DEF", str(i), str(f), str(len(ps))] + [str(p) for p in ps] + [str(len(ds))]
            for d in ds:
                tok_e(d, out)
            tok_ss(body, out)
        elif k == "CLS":
            out += ["CLS", str(s[1]), str(s[2])]
            tok_ss(s[3], out)
        elif k in ("O", "R"):
            out.append(k)
            tok_e(s[1], out)
        elif k == "IF":
            out.append("IF")
            tok_e(s[1], out)
            tok_ss(s[2], out)
        else:
            raise ValueError(k)


def tok_sched(sched, out):
    out.append(str(len(sched)))
    for st in sched:
        if st[0] == "S":
            out += ["S", str(st[1]), str(len(st[2]))]
            for a in st[2]:
                out += [str(len(a))] + [str(c) for c in a]
        else:
            out += ["J", str(st[1]), str(len(st[2]))] + [str(c) for c in st[2]]


def prog_tokens(prog):
    out = []
    tok_ss(prog, out)
    return out


# ---------------------------------------------------------------- pretty-printer (Python source)
PROLOGUE = (
    "_T = __import__('builtins')._c01_T\n"
    "def _enc(v, _t=tuple, _s=str, _isi=isinstance, _len=len, _ord=ord, _ty=type, _E=Ellipsis, _N=None, _call=callable):\n"
    "    if _isi(v, _s): return [1, _len(v)] + [_ord(c) - 97 for c in v]\n"
    "    if _isi(v, _t):\n"
    "        r = [2, _len(v)]\n"
    "        for x in v: r = r + _enc(x)\n"
    "        return r\n"
    "    if v is _N: return [3]\n"
    "    if v is _t: return [7, 0]\n"
    "    if v is _E: return [7, 1]\n"
    "    if _isi(v, _ty): return [5]\n"
    "    if _call(v): return [4]\n"
    "    return [6]\n"
    "def _obs(v, _T=_T, _enc=_enc):\n"
    "    _T.append([0] + _enc(v))\n"
)


class Printer:
    """prints the program; records (line, col) -> (path, name) for every name occurrence and the
    textual order of the scope-opening constructs"""

    def __init__(self):
        self.lines = []
        self.occ = []       # (line, col, path(tuple root-first), name)
        self.scopes = []    # (line, col, path) in textual order

    def expr(self, e, path, line, col):
        """returns text; col = column where the text starts"""
        k = e[0]
        if k == "L":
            return lit_src(e[1])
        if k == "N":
            self.occ.append((line, col, path, e[1]))
            return nm(e[1])
        if k == "W":
            self.occ.append((line, col + 1, path, e[1]))
            head = "(" + nm(e[1]) + " := "
            return head + self.expr(e[2], path, line, col + len(head)) + ")"
        if k == "C":
            a = self.expr(e[1], path, line, col + 1)
            head = "(" + a + " + "
            return head + self.expr(e[2], path, line, col + len(head)) + ")"
        if k == "F":
            _, i, ps, ds, body = e
            self.scopes.append((line, col + 1, path + (i,)))
            txt = "(lambda"
            nd = len(ds)
            for j, p in enumerate(ps):
                txt += (" " if j == 0 else ", ")
                self.occ.append((line, col + len(txt), path + (i,), p))
                txt += nm(p)
                dj = j - (len(ps) - nd)
                if dj >= 0:
                    txt += "="
                    txt += self.expr(ds[dj], path, line, col + len(txt))
            txt += ": "
            txt += self.expr(body, path + (i,), line, col + len(txt))
            return txt + ")"
        if k == "Q":
            _, i, gen, x, its, elt = e
            op, cl = ("(*(", "),)") if gen else ("(*[", "],)")
            self.scopes.append((line, col + 2, path + (i,)))
            txt = op
            txt += self.expr(elt, path + (i,), line, col + len(txt))
            txt += " for "
            self.occ.append((line, col + len(txt), path + (i,), x))
            txt += nm(x) + " in ("
            for d in its:
                txt += self.expr(d, path, line, col + len(txt)) + ", "
            txt += ")"
            return txt + cl
        if k == "A":
            txt = self.expr(e[1], path, line, col)
            txt += "("
            for j, d in enumerate(e[2]):
                if j:
                    txt += ", "
                txt += self.expr(d, path, line, col + len(txt))
            return txt + ")"
        raise ValueError(k)

    def emit(self, ind, text):
        self.lines.append("    " * ind + text)

    def stmts(self, ss, path, ind):
        if not ss:
            self.emit(ind, "pass")
        for s in ss:
            line = len(self.lines) + 1
            col0 = 4 * ind
            k = s[0]
            if k == "=":
                self.occ.append((line, col0, path, s[1]))
                head = nm(s[1]) + " = "
                self.emit(ind, head + self.expr(s[2], path, line, col0 + len(head)))
            elif k == "+":
                self.occ.append((line, col0, path, s[1]))
                head = nm(s[1]) + " += "
                self.emit(ind, head + self.expr(s[2], path, line, col0 + len(head)))
            elif k == "G":
                self.emit(ind, "global " + nm(s[1]))
            elif k == "NL":
                self.emit(ind, "nonlocal " + nm(s[1]))
            elif k == "D":
                self.occ.append((line, col0 + 4, path, s[1]))
                self.emit(ind, "del " + nm(s[1]))
            elif k == "DEF":
                _, i, f, ps, ds, body = s
                self.scopes.append((line, col0, path + (i,)))
                txt = "def " + nm(f) + "("
                nd = len(ds)
                for j, p in enumerate(ps):
                    if j:
                        txt += ", "
                    self.occ.append((line, col0 + len(txt), path + (i,), p))
                    txt += nm(p)
                    dj = j - (len(ps) - nd)
                    if dj >= 0:
                        txt += "="
                        txt += self.expr(ds[dj], path, line, col0 + len(txt))
                self.emit(ind, txt + "):")
                self.stmts(body, path + (i,), ind + 1)
            elif k == "CLS":
                self.scopes.append((line, col0, path + (s[1],)))
                self.emit(ind, "class " + nm(s[2]) + ":")
                self.stmts(s[3], path + (s[1],), ind + 1)
            elif k == "O":
                head = "_obs("
                self.emit(ind, head + self.expr(s[1], path, line, col0 + len(head)) + ")")
            elif k == "R":
                head = "return "
                self.emit(ind, head + self.expr(s[1], path, line, col0 + len(head)))
            elif k == "IF":
                head = "if "
                self.emit(ind, head + self.expr(s[1], path, line, col0 + len(head)) + ":")
                self.stmts(s[2], path, ind + 1)
            else:
                raise ValueError(k)


def print_program(prog):
    pr = Printer()
    pr.lines = PROLOGUE.rstrip("\n").split("\n")
    pr.stmts(prog, (0,), 0)
    return "\n".join(pr.lines) + "\n", pr


# ---------------------------------------------------------------- running a program (child process)
RUNNER = r'''
import sys, json, builtins, types, importlib.util
mode, path, modname = sys.argv[1], sys.argv[2], sys.argv[3]
sched = json.loads(sys.stdin.read())
T = builtins._c01_T = []
sys.setrecursionlimit(600)
def enc(v):
    if isinstance(v, str): return [1, len(v)] + [ord(c) - 97 for c in v]
    if isinstance(v, tuple):
        r = [2, len(v)]
        for x in v: r = r + enc(x)
        return r
    if v is None: return [3]
    if v is tuple: return [7, 0]
    if v is Ellipsis: return [7, 1]
    if isinstance(v, type): return [5]
    if callable(v): return [4]
    return [6]
def code(e):
    if isinstance(e, UnboundLocalError): return [1]
    if isinstance(e, NameError): return [0]
    if isinstance(e, TypeError): return [2]
    if isinstance(e, RecursionError): return [3]
    if isinstance(e, AttributeError): return [5]
    return [9, type(e).__name__]
msgs = []
def note(e):
    if isinstance(e, NameError):
        msgs.append([type(e).__name__, [str(a) for a in e.args]])
try:
    if mode == 'so':
        spec = importlib.util.spec_from_file_location(modname, path)
        mod = importlib.util.module_from_spec(spec)
        sys.modules[modname] = mod
        spec.loader.exec_module(mod)
        if not mod.__file__.endswith('.so'): raise SystemExit('not a compiled module')
    else:
        mod = types.ModuleType(modname)
        mod.__file__ = path
        sys.modules[modname] = mod
        exec(compile(open(path).read(), path, 'exec'), mod.__dict__)
    ok = True
except Exception as e:
    T.append([3] + code(e)); note(e)
    ok = False
if ok:
    for st in sched:
        if st[0] == 'J':
            setattr(mod, st[1], st[2])
            continue
        try:
            f = getattr(mod, st[1], None)
            if f is None:
                f = getattr(builtins, st[1], None)
            if f is None:
                raise NameError(st[1])
            r = f(*st[2])
            T.append([1] + enc(r))
        except Exception as e:
            T.append([2] + code(e)); note(e)
print(json.dumps({"trace": T, "msgs": msgs}))
'''


def sched_json(sched):
    out = []
    for st in sched:
        if st[0] == "S":
            out.append(["S", nm(st[1]), ["".join(chr(97 + c % 26) for c in a) for a in st[2]]])
        else:
            out.append(["J", nm(st[1]), "".join(chr(97 + c % 26) for c in st[2])])
    return json.dumps(out)


def run_child(ctx, mode, path, modname, sched):
    runner = os.path.join(ctx.scratch, "c01_runner.py")
    if not os.path.exists(runner):
        with open(runner, "w") as f:
            f.write(RUNNER)
    try:
        p = subprocess.run([lib.PYTHON, runner, mode, path, modname], input=sched_json(sched), stdout=subprocess.PIPE,
                           stderr=subprocess.PIPE, text=True, timeout=120, env=lib._clean_env({"PYTHONPATH": ctx.stage}))
    except subprocess.TimeoutExpired:
        return {"trace": "timeout", "msgs": []}
    if p.returncode < 0:
        return {"trace": "crash %d" % p.returncode, "msgs": []}
    try:
        return json.loads(p.stdout.strip().split("\n")[-1])
    except Exception:
        return {"trace": "runner-failed rc=%s %s" % (p.returncode, p.stderr[-300:]), "msgs": []}


def fmt_trace(tr):
    if isinstance(tr, str):
        return tr
    return " ".join(",".join(str(x) for x in ev) for ev in tr)


def lean_trace(line):
    if not line.startswith("ok"):
        return line
    return line[3:].strip()


# ---------------------------------------------------------------- generator
class Sc:
    def __init__(self, kind, parent=None, params=(), loopvar=None):
        self.kind = kind            # modl | func | cls | comp | gen
        self.parent = parent
        self.params = list(params)
        self.loopvar = loopvar
        self.globals = set()
        self.nonlocals = set()
        self.assignable = set()     # planned binding targets of this scope (incl. def/class names)
        self.state = {}             # own locals of a func scope: 'no' | 'maybe' | 'yes'
        self.funcs = {}             # visible function name -> (nparams, ndefaults)
        self.cond = 0               # nesting depth of `if` bodies
        self.forbid = set()         # names that must not be read right now (parameters of the def whose defaults are generated)

    def fn_scope(self):
        s = self
        while s.kind in ("comp", "gen"):
            s = s.parent
        return s

    def visible_funcs(self):
        d = {}
        s = self
        chain = []
        while s is not None:
            chain.append(s)
            s = s.parent
        for s in reversed(chain):
            if s.kind != "cls" or s is self:
                d.update(s.funcs)
        return d


class Gen:
    VARS = [2, 3, 4, 5]
    FNS = [10, 11, 12, 13]

    def __init__(self, rng, budget=70):
        self.rng = rng
        self.nid = 0
        self.budget = budget
        self.kinds = {(0,): "modl"}

    def new_id(self):
        self.nid += 1
        return self.nid

    def lit(self):
        return ("L", [self.rng.randrange(26) for _ in range(self.rng.choice((0, 1, 1, 1, 2)))])

    # may `x` be read at this point without the compiler proving it unbound?
    def can_read(self, sc, x):
        s = sc
        crossed = False
        while s is not None:
            if x in s.forbid:
                return False
            if s.kind == "comp":
                if x == s.loopvar:
                    return True
                s = s.parent
                continue
            if s.kind == "gen":
                return True
            if s.kind == "cls":
                if x in s.assignable or x in s.globals:
                    return True
                s = s.parent
                continue
            if s.kind == "modl":
                if crossed or x < NBUILTIN:
                    return True
                return s.state.get(x, "no") != "no" or self.rng.random() < 0.05
            # func
            if x in s.globals:
                return True
            if x in s.nonlocals:
                crossed = True
                s = s.parent
                continue
            if x in s.params or x in s.assignable:
                return crossed or s.state.get(x, "no") != "no"
            crossed = True
            s = s.parent
        return True

    def mark_assigned(self, sc, x, weak=False):
        f = sc.fn_scope()
        if f.kind not in ("func", "modl") or x in f.globals or x in f.nonlocals:
            return
        cur = f.state.get(x, "no")
        if weak or f.cond > 0 or sc.kind in ("comp", "gen"):
            f.state[x] = "maybe" if cur == "no" else cur
        else:
            f.state[x] = "yes"

    def mark_deleted(self, sc, x):
        f = sc.fn_scope()
        if f.kind not in ("func", "modl") or x in f.globals or x in f.nonlocals:
            return
        f.state[x] = "maybe" if f.cond > 0 else "no"

    def walrus_targets(self, sc):
        f = sc.fn_scope()
        if f.kind == "cls" and f.forbid:
            return []
        if f.kind == "cls" and sc.kind in ("comp", "gen"):
            return []
        if f.kind == "modl":
            return [x for x in self.VARS if x not in f.forbid]
        t = sorted((f.assignable | f.globals | f.nonlocals) - f.forbid)
        if sc.kind in ("comp", "gen"):
            s = sc
            while s.kind in ("comp", "gen"):
                t = [x for x in t if x != s.loopvar]
                s = s.parent
        return t

    def readable(self, sc, pool):
        return [x for x in pool if self.can_read(sc, x)]

    def expr(self, sc, depth, path, no_walrus=False, mode="any"):
        """mode 'str': an expression that is (most probably) a string; 'any': anything"""
        rng = self.rng
        self.budget -= 1
        small = depth <= 0 or self.budget <= 0
        r = rng.random()
        if mode == "str" or (r < 0.45):
            q = rng.random()
            if small or q < 0.3:
                if q < 0.15:
                    return self.lit()
                c = self.readable(sc, self.VARS)
                return ("N", rng.choice(c)) if c else self.lit()
            if q < 0.5:
                a = self.expr(sc, depth - 1, path, no_walrus, "str")
                return ("C", a, self.expr(sc, depth - 1, path, no_walrus, "str"))
            if q < 0.62 and not no_walrus:
                t = self.walrus_targets(sc)
                if t:
                    x = rng.choice(t)
                    e = self.expr(sc, depth - 1, path, no_walrus, "str")
                    self.mark_assigned(sc, x)
                    return ("W", x, e)
                return self.lit()
            if q < 0.85:
                return self.call(sc, depth, path, no_walrus)
            return self.lit()
        if small or r < 0.55:
            c = self.readable(sc, self.FNS + [0, 1] + self.VARS)
            return ("N", rng.choice(c)) if c else self.lit()
        if r < 0.68:
            return self.call(sc, depth, path, no_walrus)
        if r < 0.72 and not no_walrus:
            t = self.walrus_targets(sc)
            if t:
                x = rng.choice(t)
                e = self.expr(sc, depth - 1, path, no_walrus, "any")
                self.mark_assigned(sc, x)
                return ("W", x, e)
            return self.lit()
        if r < 0.82:
            return self.lam(sc, depth, path, no_walrus)
        i = self.new_id()
        gen = rng.random() < 0.35
        x = rng.choice(self.VARS)
        its = [self.expr(sc, depth - 1, path, True, "str" if rng.random() < 0.8 else "any") for _ in range(rng.choice((0, 1, 1, 2, 2, 3)))]
        inner = Sc("gen" if gen else "comp", sc, loopvar=x)
        self.kinds[path + (i,)] = inner.kind
        elt = self.expr(inner, depth - 1, path + (i,), no_walrus, "any")
        e = ("Q", i, gen, x, its, elt)
        if rng.random() < 0.15:
            e = ("C", e, ("Q", self.new_id(), False, rng.choice(self.VARS), [], self.lit())) if False else e
        return e

    def lam(self, sc, depth, path, no_walrus):
        rng = self.rng
        i = self.new_id()
        ps = rng.sample(self.VARS, rng.choice((0, 1, 1, 2)))
        nd = rng.randint(0, len(ps))
        old = sc.forbid
        sc.forbid = old | set(ps) | {-1}
        ds = [self.expr(sc, depth - 1, path, no_walrus or sc.fn_scope().kind == "cls", "str") for _ in range(nd)]
        sc.forbid = old
        inner = Sc("func", sc, ps)
        for p in ps:
            inner.state[p] = "yes"
        self.kinds[path + (i,)] = "func"
        if rng.random() < 0.3:
            inner.assignable = {rng.choice(self.VARS)}
        body = self.expr(inner, depth - 1, path + (i,), False, "any")
        self.last_lambda = (len(ps), nd)
        return ("F", i, ps, ds, body)

    def call(self, sc, depth, path, no_walrus):
        rng = self.rng
        vf = sc.visible_funcs()
        names = [f for f in sorted(vf) if self.can_read(sc, f)]
        q = rng.random()
        if names and q < 0.8:
            fn = rng.choice(names)
            npar, nd = vf[fn]
            f = ("N", fn)
        elif q < 0.9 and depth > 0:
            f = self.lam(sc, depth, path, no_walrus)
            npar, nd = self.last_lambda
        elif q < 0.95:
            f = ("N", 0)
            npar, nd = 1, 1
        else:
            c = self.readable(sc, self.VARS + self.FNS)
            f = ("N", rng.choice(c)) if c else ("N", 0)
            npar, nd = 1, 1
        n = rng.randint(npar - nd, npar) if rng.random() < 0.92 else rng.randint(0, npar + 1)
        args = [self.expr(sc, depth - 1, path, no_walrus, "str" if rng.random() < 0.8 else "any") for _ in range(n)]
        e = ("A", f, args)
        if rng.random() < 0.06:
            e = ("A", e, [])
        return e

    def bound_in_enclosing_funcs(self, sc):
        out = set()
        s = sc.parent
        while s is not None:
            if s.kind == "func":
                out |= (set(s.params) | s.assignable | s.nonlocals) - s.globals
            s = s.parent
        return out

    def body(self, sc, path, n, depth):
        rng = self.rng
        ss = []
        pool = self.VARS + (self.FNS if rng.random() < 0.3 else [])
        # declarations first
        if sc.kind in ("func", "cls"):
            if rng.random() < 0.3:
                x = rng.choice(pool)
                if x not in sc.params:
                    sc.globals.add(x)
                    ss.append(("G", x))
            cand = sorted(self.bound_in_enclosing_funcs(sc) - sc.globals - set(sc.params))
            if cand and rng.random() < 0.45:
                x = rng.choice(cand)
                sc.nonlocals.add(x)
                ss.append(("NL", x))
        # plan
        kinds = []
        for _ in range(n):
            r = rng.random()
            if r < 0.33:
                kinds.append("=")
            elif r < 0.43:
                kinds.append("+")
            elif r < 0.63:
                kinds.append("O")
            elif r < 0.68:
                kinds.append("D")
            elif r < 0.82:
                kinds.append("DEF" if depth > 0 else "=")
            elif r < 0.9:
                kinds.append("CLS" if depth > 0 else "O")
            else:
                kinds.append("IF")
        plan = []
        for k in kinds:
            if k in ("=", "+", "D"):
                x = rng.choice(pool)
                plan.append((k, x))
                sc.assignable.add(x)
            elif k in ("DEF", "CLS"):
                x = rng.choice(self.FNS)
                plan.append((k, x))
                sc.assignable.add(x)
            else:
                plan.append((k, None))
        if sc.kind == "func":
            sc.assignable -= (sc.globals | sc.nonlocals)
        ss += self.fill(sc, path, plan, depth)
        return ss

    def fill(self, sc, path, plan, depth):
        rng = self.rng
        ss = []
        for k, x in plan:
            if k == "=":
                e = self.expr(sc, 3, path)
                self.mark_assigned(sc, x)
                ss.append(("=", x, e))
            elif k == "+":
                if not self.can_read(sc, x):
                    e = self.expr(sc, 2, path)
                    self.mark_assigned(sc, x)
                    ss.append(("=", x, e))
                else:
                    ss.append(("+", x, self.expr(sc, 2, path, mode="str")))
                    self.mark_assigned(sc, x, weak=True)
            elif k == "D":
                if self.can_read(sc, x):
                    ss.append(("D", x))
                    self.mark_deleted(sc, x)
                else:
                    ss.append(("=", x, self.lit()))
                    self.mark_assigned(sc, x)
            elif k == "O":
                ss.append(("O", self.expr(sc, 3, path)))
            elif k == "IF":
                c = self.lit() if rng.random() < 0.06 else self.expr(sc, 1, path, mode="str")
                if c[0] == "L" and rng.random() < 0.7:
                    cc = self.readable(sc, self.VARS)
                    c = ("N", rng.choice(cc)) if cc else c
                f = sc.fn_scope()
                f.cond += 1
                sub = [(kk, (rng.choice(sorted(sc.assignable)) if sc.assignable else None)) for kk in
                       rng.choices(("=", "+", "O", "D"), k=rng.randint(1, 2))]
                sub = [(kk, xx) if (kk == "O" or xx is not None) else ("O", None) for kk, xx in sub]
                inner = self.fill(sc, path, sub, depth)
                f.cond -= 1
                ss.append(("IF", c, inner))
            elif k == "DEF":
                i = self.new_id()
                ps = rng.sample(self.VARS, rng.choice((0, 0, 1, 1, 2)))
                nd = rng.randint(0, len(ps))
                old = sc.forbid
                sc.forbid = old | set(ps) | {-1}
                ds = [self.expr(sc, 2, path, sc.fn_scope().kind == "cls") for _ in range(nd)]
                sc.forbid = old
                inner = Sc("func", sc, ps)
                for p in ps:
                    inner.state[p] = "yes"
                self.kinds[path + (i,)] = "func"
                b = self.body(inner, path + (i,), rng.randint(1, 4), depth - 1)
                if rng.random() < 0.85:
                    b.append(("R", self.expr(inner, 3, path + (i,))))
                    if rng.random() < 0.04:
                        b.append(("=", rng.choice(self.VARS), self.lit()))
                ss.append(("DEF", i, x, ps, ds, b))
                sc.funcs[x] = (len(ps), nd)
                self.mark_assigned(sc, x)
            elif k == "CLS":
                i = self.new_id()
                inner = Sc("cls", sc)
                self.kinds[path + (i,)] = "cls"
                b = self.body(inner, path + (i,), rng.randint(1, 4), depth - 1)
                ss.append(("CLS", i, x, b))
                sc.funcs.pop(x, None)
                self.mark_assigned(sc, x)
        return ss

    def program(self):
        rng = self.rng
        sc = Sc("modl")
        self.modl = sc
        ss = []
        for x in rng.sample(self.VARS, rng.randint(1, 3)):
            ss.append(("=", x, self.lit()))
            sc.state[x] = "yes"
        ss += self.body(sc, (0,), rng.randint(4, 7), 3)
        return ss

    def schedule(self):
        rng = self.rng
        sched = []
        names = sorted(self.modl.funcs) or [10]
        for _ in range(rng.randint(2, 6)):
            f = rng.choice(names + ([rng.choice(self.FNS)] if rng.random() < 0.1 else []))
            npar, nd = self.modl.funcs.get(f, (0, 0))
            n = rng.randint(npar - nd, npar) if rng.random() < 0.9 else rng.randint(0, npar + 1)
            sched.append(("S", f, [[rng.randrange(26) for _ in range(rng.randint(0, 2))] for _ in range(n)]))
        return sched


# ---------------------------------------------------------------- helpers over programs
def parse_tab(line):
    if not line.startswith("ok"):
        raise lib.Infra("C01 tab: " + line[:200])
    out = []
    for it in line[3:].split():
        p, x, b = it.split(":")
        out.append((tuple(int(t) for t in p.split(".")), int(x), b))
    return out


def walk_stmts(ss, fn):
    """rebuild a statement list, `fn(stmt)` returns the replacement list (or None to keep)"""
    out = []
    for s in ss:
        r = fn(s)
        if r is not None:
            out += r
            continue
        if s[0] == "DEF":
            s = s[:5] + (walk_stmts(s[5], fn),)
        elif s[0] == "CLS":
            s = s[:3] + (walk_stmts(s[3], fn),)
        elif s[0] == "IF":
            s = (s[0], s[1], walk_stmts(s[2], fn))
        out.append(s)
    return out


def del_sites(ss, path, out):
    for s in ss:
        if s[0] == "D":
            out.append((path, s[1]))
        elif s[0] == "DEF":
            del_sites(s[5], path + (s[1],), out)
        elif s[0] == "CLS":
            del_sites(s[3], path + (s[1],), out)
        elif s[0] == "IF":
            del_sites(s[2], path, out)


def drop_dels(ss, path, bad):
    out = []
    for s in ss:
        if s[0] == "D" and (path, s[1]) in bad:
            continue
        if s[0] == "DEF":
            s = s[:5] + (drop_dels(s[5], path + (s[1],), bad),)
        elif s[0] == "CLS":
            s = s[:3] + (drop_dels(s[3], path + (s[1],), bad),)
        elif s[0] == "IF":
            s = (s[0], s[1], drop_dels(s[2], path, bad))
        out.append(s)
    return out


def sanitize(ctx, progs, kindmaps, rng, variant="cy000"):
    """make the programs acceptable to the compiler's documented compile-time rejections:
    (1) a global name never bound in the module and not a builtin (`undeclared name not builtin`),
    (2) `del` of a variable referenced in a nested function (`can not delete variable ...`)."""
    for _round in range(3):
        lines = []
        for p in progs:
            t = " ".join(prog_tokens(p))
            lines.append("C01 tab ref " + t)
            lines.append("C01 tab %s " % variant + t)
        res = ctx.drv.batch(lines)
        changed = False
        for i, p in enumerate(progs):
            ref = parse_tab(res[2 * i])
            cy0 = parse_tab(res[2 * i + 1])
            undeclared = sorted({x for (_, x, b) in cy0 if b == "b" and x >= NBUILTIN})
            pre = []
            for x in undeclared:
                if rng.random() < 0.4:
                    pre += [("=", x, ("L", [0])), ("D", x)]
                else:
                    pre.append(("=", x, ("L", [rng.randrange(26)])))
            sites = []
            del_sites(p, (0,), sites)
            bad = set()
            for (path, x) in sites:
                lp = path
                own = [b for (q, y, b) in ref if q == lp and y == x]
                if not own or not own[0].startswith("v"):
                    continue
                for (q, y, b) in ref:
                    if y == x and b == own[0] and q != lp and kindmaps[i].get(q) in ("func", "gen"):
                        bad.add((path, x))
            if pre or bad:
                changed = True
                progs[i] = pre + drop_dels(p, (0,), bad)
        if not changed:
            break
    return progs


def empty_comps(prog, out):
    def fe(e):
        k = e[0]
        if k == "W":
            fe(e[2])
        elif k == "C":
            fe(e[1])
            fe(e[2])
        elif k == "F":
            for d in e[3]:
                fe(d)
            fe(e[4])
        elif k == "Q":
            if not e[4] and not e[2]:
                out.add(e[1])
            for d in e[4]:
                fe(d)
            fe(e[5])
        elif k == "A":
            fe(e[1])
            for d in e[2]:
                fe(d)

    def fs(ss):
        for s in ss:
            k = s[0]
            if k in ("=", "+"):
                fe(s[2])
            elif k == "DEF":
                for d in s[4]:
                    fe(d)
                fs(s[5])
            elif k == "CLS":
                fs(s[3])
            elif k in ("O", "R"):
                fe(s[1])
            elif k == "IF":
                fe(s[1])
                fs(s[2])
    fs(prog)


def features(prog):
    f = set()

    def fe(e, incomp, incls):
        k = e[0]
        if k == "W":
            f.add("walrus-in-comp" if incomp else "walrus")
            fe(e[2], incomp, incls)
        elif k == "C":
            fe(e[1], incomp, incls)
            fe(e[2], incomp, incls)
        elif k == "F":
            f.add("lambda")
            for d in e[3]:
                fe(d, incomp, incls)
            fe(e[4], False, False)
        elif k == "Q":
            f.add("genexp" if e[2] else "comp")
            if incls and not e[2]:
                f.add("comp-in-class")
            if incls and e[2]:
                f.add("genexp-in-class")
            for d in e[4]:
                fe(d, incomp, incls)
            fe(e[5], True, False)
        elif k == "A":
            f.add("call")
            fe(e[1], incomp, incls)
            for d in e[2]:
                fe(d, incomp, incls)
        elif k == "N" and e[1] < NBUILTIN:
            f.add("builtin-name")

    def fs(ss, incls, depth):
        for s in ss:
            k = s[0]
            if k in ("=", "+"):
                if k == "+":
                    f.add("augassign")
                fe(s[2], False, incls)
            elif k == "G":
                f.add("global-in-class" if incls else "global")
            elif k == "NL":
                f.add("nonlocal-in-class" if incls else "nonlocal")
            elif k == "D":
                f.add("del")
            elif k == "DEF":
                f.add("def-depth%d" % min(depth + 1, 3))
                if incls:
                    f.add("def-in-class")
                for d in s[4]:
                    fe(d, False, incls)
                    f.add("default")
                fs(s[5], False, depth + 1)
            elif k == "CLS":
                f.add("class-in-class" if incls else ("class-in-func" if depth else "class"))
                fs(s[3], True, depth + 1)
            elif k in ("O", "R"):
                fe(s[1], False, incls)
            elif k == "IF":
                if s[1] == ("L", []):
                    f.add("dead-if-body")
                fe(s[1], False, incls)
                fs(s[2], incls, depth)
    fs(prog, False, 0)
    return f


# ---------------------------------------------------------------- fixed witnesses (Props/C01.lean)
W_COMP_IN_CLASS = [("=", 2, ("L", [6])),
                   ("CLS", 1, 10, [("=", 2, ("L", [2])), ("O", ("Q", 2, False, 3, [("L", [0])], ("N", 2)))])]
W_READS_BUILTIN = [("DEF", 1, 10, [], [], [("R", ("N", 0))])]
W_CLOSURE3 = [("DEF", 1, 10, [], [], [
    ("=", 2, ("L", [0])),
    ("DEF", 2, 11, [], [], [("NL", 2), ("+", 2, ("L", [1])),
                            ("DEF", 3, 12, [], [], [("NL", 2), ("+", 2, ("L", [2])), ("R", ("N", 2))]),
                            ("R", ("N", 12))]),
    ("R", ("C", ("A", ("A", ("N", 11), []), []), ("N", 2)))])]
W_CLASS_SHADOW = [("=", 2, ("L", [6])),
                  ("CLS", 1, 10, [("=", 2, ("L", [2])), ("O", ("N", 2)),
                                  ("DEF", 2, 11, [], [], [("R", ("N", 2))]), ("O", ("A", ("N", 11), []))])]
W_COMP_WALRUS = [("DEF", 1, 10, [], [], [
    ("=", 3, ("Q", 2, False, 5, [("L", [0]), ("L", [1])], ("W", 4, ("C", ("N", 5), ("L", [23]))))),
    ("O", ("N", 3)), ("R", ("N", 4))])]
W_UNBOUND = [("DEF", 1, 10, [2], [], [
    ("DEF", 2, 11, [], [], [("R", ("N", 3))]),
    ("IF", ("N", 2), [("=", 3, ("L", [0]))]),
    ("DEF", 3, 12, [], [], [("R", ("A", ("N", 11), []))]),
    ("O", ("A", ("F", 4, [], [], ("A", ("N", 12), [])), [])),
    ("R", ("N", 3))])]
W_DEAD_LOCAL = [("=", 2, ("L", [6])),
                ("DEF", 1, 10, [], [], [("IF", ("L", []), [("=", 2, ("L", [0]))]), ("R", ("N", 2))])]
W_DEAD_GLOBAL = [("=", 2, ("L", [6])),
                 ("DEF", 1, 10, [], [], [("IF", ("L", []), [("G", 2)]), ("=", 2, ("L", [0]))]),
                 ("DEF", 2, 11, [], [], [("R", ("N", 2))])]
W_DEAD_RETURN = [("=", 2, ("L", [6])), ("DEF", 1, 10, [], [], [("R", ("N", 2)), ("=", 2, ("L", [0]))])]
W_DEL_GLOBAL = [("DEF", 1, 10, [], [], [("G", 3), ("D", 3)])]
FIXED = [
    ("comp-in-class", W_COMP_IN_CLASS, []),
    ("dead-local", W_DEAD_LOCAL, [("S", 10, [])]),
    ("del-unbound-global", W_DEL_GLOBAL, [("S", 10, [])]),
    ("dead-global-decl", W_DEAD_GLOBAL, [("S", 10, []), ("S", 11, [])]),
    ("dead-after-return", W_DEAD_RETURN, [("S", 10, [])]),
    ("reads-builtin", W_READS_BUILTIN, [("S", 10, [])]),
    ("closure3", W_CLOSURE3, [("S", 10, []), ("S", 10, [])]),
    ("class-shadow", W_CLASS_SHADOW, []),
    ("comp-walrus", W_COMP_WALRUS, [("S", 10, [])]),
    ("unbound", W_UNBOUND, [("S", 10, [[0]]), ("S", 10, [[]])]),
    ("unbound-local", [("DEF", 1, 10, [2], [], [("IF", ("N", 2), [("=", 3, ("L", [0]))]), ("R", ("N", 3))])],
     [("S", 10, [[0]]), ("S", 10, [[]])]),
    # `global` in a nested function names the module variable, not the enclosing function's local
    ("global-shadows-enclosing", [("=", 2, ("L", [6])),
                                  ("DEF", 1, 10, [], [], [("=", 2, ("L", [5])),
                                                          ("DEF", 2, 11, [], [], [("G", 2), ("+", 2, ("L", [23])), ("R", ("N", 2))]),
                                                          ("R", ("C", ("A", ("N", 11), []), ("N", 2)))])],
     [("S", 10, []), ("S", 10, [])]),
    # class-level name: class dict first (conditionally bound), then the module
    ("class-conditional", [("=", 2, ("L", [6])), ("=", 3, ("L", [19])), ("=", 4, ("L", [])),
                           ("CLS", 1, 10, [("IF", ("N", 3), [("=", 2, ("L", [2]))]), ("O", ("N", 2)),
                                           ("IF", ("N", 4), [("=", 3, ("L", [2]))]), ("O", ("N", 3))]),
                           ], []),
    # sibling closures share the cell of the owner; late binding
    ("sibling-cells", [("DEF", 1, 10, [2], [], [
        ("DEF", 2, 11, [], [], [("NL", 2), ("+", 2, ("L", [23]))]),
        ("DEF", 3, 12, [], [], [("R", ("N", 2))]),
        ("=", 3, ("F", 4, [], [], ("N", 2))),
        ("O", ("A", ("N", 12), [])), ("O", ("A", ("N", 11), [])), ("=", 2, ("C", ("N", 2), ("L", [24]))),
        ("R", ("C", ("A", ("N", 12), []), ("A", ("N", 3), [])))])], [("S", 10, [[0]])]),
]
W_INJECT = ("builtin-inject", W_READS_BUILTIN, [("J", 0, [25]), ("S", 10, [])])

FLAG_KEYS = ["comp-in-class-body-sees-class-names", "dead-code-bindings-dropped-before-symtab",
             "del-unbound-global-raises-AttributeError"]
REJECTIONS = (("referenced before assignment", "unbound-local"),
              ("declared after it is used", "default-reads-name-of-later-parameter"),
              ("can not delete variable", "del-closure"),
              ("undeclared name not builtin", "undeclared-global"))


def jsonable(x):
    if isinstance(x, (tuple, list)):
        return [jsonable(y) for y in x]
    return x


def from_json(x):
    if isinstance(x, list):
        if x and isinstance(x[0], str):
            k = x[0]
            if k == "L":
                return ("L", list(x[1]))
            if k in ("F",):
                return ("F", x[1], list(x[2]), [from_json(d) for d in x[3]], from_json(x[4]))
            if k == "Q":
                return ("Q", x[1], bool(x[2]), x[3], [from_json(d) for d in x[4]], from_json(x[5]))
            if k == "A":
                return ("A", from_json(x[1]), [from_json(d) for d in x[2]])
            if k == "DEF":
                return ("DEF", x[1], x[2], list(x[3]), [from_json(d) for d in x[4]], [from_json(d) for d in x[5]])
            if k == "CLS":
                return ("CLS", x[1], x[2], [from_json(d) for d in x[3]])
            if k == "IF":
                return ("IF", from_json(x[1]), [from_json(d) for d in x[2]])
            if k == "S":
                return ("S", x[1], [list(a) for a in x[2]])
            if k == "J":
                return ("J", x[1], list(x[2]))
            return tuple([k] + [from_json(y) for y in x[1:]])
        return [from_json(y) for y in x]
    return x


def has_fuel(tr):
    return any(it in ("2,3", "3,3", "2,4", "3,4") for it in tr.split())


ALL_VARIANTS = ["cy%d%d%d" % (a, b, c) for a in (0, 1) for b in (0, 1) for c in (0, 1)]


def model_traces(ctx, prog, sched, names):
    sc = []
    tok_sched(sched, sc)
    body = " ".join(prog_tokens(prog) + sc)
    res = ctx.drv.batch(["C01 run %s %s" % (nme, body) for nme in names])
    return {nme: lean_trace(r) for nme, r in zip(names, res)}


def evaluate(ctx, cases, variants):
    """cases: list of (tag, prog, sched).  Builds, runs compiled + CPython, evaluates the Lean semantics
    `ref` and the given Cython variants.  Returns per-case records."""
    names = ["ref"] + list(variants)
    lines = []
    for (_, prog, sched) in cases:
        t = prog_tokens(prog)
        sc = []
        tok_sched(sched, sc)
        body = " ".join(t + sc)
        lines += ["C01 run %s %s" % (nme, body) for nme in names]
    res = ctx.drv.batch(lines)
    recs = []
    specs = []
    for i, (tag, prog, sched) in enumerate(cases):
        src, pr = print_program(prog)
        rec = {"tag": tag, "prog": prog, "sched": sched, "src": src, "printer": pr}
        for j, nme in enumerate(names):
            rec[nme] = lean_trace(res[len(names) * i + j])
        rec["name"] = "c01m_" + hashlib.sha256(src.encode()).hexdigest()[:12]
        recs.append(rec)
        specs.append({"name": rec["name"], "source": src, "ext": ".py"})
    sos = []
    for j in range(0, len(specs), 64):
        sos += cybuild.build_many(ctx, specs[j:j + 64])

    def one(k):
        rec = recs[k]
        so = sos[k]
        pyp = os.path.join(ctx.scratch, "c01src", rec["name"] + ".py")
        os.makedirs(os.path.dirname(pyp), exist_ok=True)
        with open(pyp, "w") as f:
            f.write(rec["src"])
        rec["oracle"] = run_child(ctx, "py", pyp, rec["name"], rec["sched"])
        if isinstance(so, cybuild.BuildError):
            rec["build_error"] = so.log
            rec["impl"] = None
        else:
            rec["impl"] = run_child(ctx, "so", so, rec["name"], rec["sched"])
    with cf.ThreadPoolExecutor(max_workers=16) as ex:
        list(ex.map(one, range(len(recs))))
    return recs


def cap(s, n=300):
    s = str(s)
    return s if len(s) <= n else s[:n] + "…"


def replay_of(rec, kind, expected, observed, leg="run"):
    return {"property": "C01", "kind": kind, "leg": leg, "prog": jsonable(rec["prog"]), "sched": jsonable(rec["sched"]),
            "source": cap(rec["src"][len(PROLOGUE):], 4000), "expected": cap(expected, 1500), "observed": cap(observed, 1500)}


def judge(ctx, rec, variant):
    """compare the three legs of one evaluated case"""
    tag = rec["tag"]
    feats = features(rec["prog"])
    ora = fmt_trace(rec["oracle"]["trace"])
    body = rec["src"][len(PROLOGUE):]
    if rec["impl"] is None:
        log = rec["build_error"]
        for pat, why in REJECTIONS:
            if pat in log and tag.startswith("gen#"):
                ctx.count("rejected-at-compile-time:" + why)
                return "rejected"
        import re as _re
        fns = _re.findall(r'line \d+, in (\w+)', log)
        ckey = ("compiler-crash:" + fns[-1]) if (fns and ("Traceback" in log or "Error" in log.split("\n")[-2:][0] or "AssertionError" in log)) else "compile-error"
        ctx.violation(ckey, "generated scoping program is valid Python but does not compile: %s\n%s"
                      % (cap(log[-400:], 400), cap(body, 600)), replay_of(rec, "impl-violates", ora, "build error: " + log[-600:]))
        return "bad"
    imp = fmt_trace(rec["impl"]["trace"])
    model = rec[variant]
    ctx.count("case:" + tag.split("#")[0])
    for f in feats:
        ctx.count("feature:" + f)
    for ev in imp.split():
        h = ev.split(",")
        ctx.count("event:" + {"0": "obs", "1": "result", "2": "exc-" + (h[1] if len(h) > 1 else "?"), "3": "init-exc"}.get(h[0], "?"))
    ctx.seen((tuple(prog_tokens(rec["prog"])), sched_json(rec["sched"])), nontrivial=len(imp.split()) >= 2)
    verdict = "ok"
    if imp != ora:
        verdict = "bad"
        key = None
        if model == imp and rec["ref"] == ora:
            # which single repair of the modelled deviations explains it?
            flips = []
            for pos in range(3):
                if variant[2 + pos] == "0":
                    flips.append((pos, variant[:2 + pos] + "1" + variant[3 + pos:]))
            mt = model_traces(ctx, rec["prog"], rec["sched"], [f for _, f in flips]) if flips else {}
            hit = [pos for pos, f in flips if mt[f] == ora]
            if len(hit) >= 1:
                key = FLAG_KEYS[hit[0]]
        if key is None:
            a, b = imp.split(), ora.split()
            k = 0
            while k < min(len(a), len(b)) and a[k] == b[k]:
                k += 1

            def evk(ev):
                h = ev.split(",")
                return {"0": "obs", "1": "result"}.get(h[0], "exc" + "".join(h[1:2]) + ("init" if h[0] == "3" else ""))
            key = "trace-differs:%s-vs-%s" % (evk(a[k]) if k < len(a) else "end", evk(b[k]) if k < len(b) else "end")
        ctx.violation(key, "compiled module's observable trace differs from CPython's for\n%s\nschedule %s: CPython %s, compiled %s"
                      % (cap(body, 700), cap(sched_json(rec["sched"]), 200), cap(ora, 200), cap(imp, 200)),
                      replay_of(rec, "impl-violates", ora, imp))
    if model != imp:
        verdict = "bad"
        ctx.tie_break("run-model-vs-compiled(%s)" % variant,
                      "Lean Cython semantics (%s) != compiled module: model %s, compiled %s\n%s"
                      % (variant, cap(model, 200), cap(imp, 200), cap(body, 600)),
                      replay_of(rec, "model-impl-disagree", model, imp))
    if rec["ref"] != ora:
        # the reference semantics must be CPython's: a disagreement is a machinery error unless it is the
        # recursion-depth artefact (filtered before) -- report it loudly as a broken tie
        verdict = "bad"
        ctx.tie_break("ref-model-vs-cpython",
                      "Lean reference semantics != CPython: model %s, CPython %s\n%s" % (cap(rec["ref"], 200), cap(ora, 200), cap(body, 600)),
                      replay_of(rec, "model-impl-disagree", rec["ref"], ora, leg="reference"))
    # exception messages (args) of NameError / UnboundLocalError: part of the property statement, not of the model
    if rec["impl"]["msgs"] != rec["oracle"]["msgs"] and imp == ora:
        im = [m for m in rec["impl"]["msgs"] if m not in rec["oracle"]["msgs"]]
        kinds = sorted({m[0] for m in im}) or ["?"]
        for kd in kinds:
            ctx.violation("unbound-name-message:" + kd,
                          "%s raised by compiled code carries different args than CPython 3.12: compiled %s, CPython %s\n%s"
                          % (kd, cap(rec["impl"]["msgs"][:2], 250), cap(rec["oracle"]["msgs"][:2], 250), cap(body, 500)),
                          replay_of(rec, "impl-violates", rec["oracle"]["msgs"], rec["impl"]["msgs"], leg="messages"))
    return verdict


# ---------------------------------------------------------------- in-process leg: the real symbol tables
SYMTAB_SCRIPT = r'''
import sys, json, os, io
from Cython.Compiler import Main, Pipeline, Errors, Options, ExprNodes, Nodes, ModuleNode
import Cython.Compiler.Symtab as Symtab
assert Symtab.__file__.endswith('.py'), Symtab.__file__
from Cython.Compiler.Main import CompilationOptions, CompilationSource, Context
from Cython.Compiler.Scanning import FileSourceDescriptor
from Cython.Compiler.ParseTreeTransforms import CreateClosureClasses
from Cython.Compiler.Visitor import TreeVisitor

class Rec(TreeVisitor):
    def __init__(self):
        super().__init__()
        self.scopes = {}
        self.names = []
        self.depth = 0
    def reg(self, scope, pos):
        if scope is None: return
        k = id(scope)
        v = (pos[1], pos[2], self.depth)
        if k not in self.scopes or v < self.scopes[k][0]:
            self.scopes[k] = (v, scope)
    def visit_Node(self, node):
        if isinstance(node, ModuleNode.ModuleNode):
            self.reg(node.scope, ('', 0, 0))
        elif isinstance(node, Nodes.FuncDefNode):
            self.reg(getattr(node, 'local_scope', None), node.pos)
        elif isinstance(node, Nodes.PyClassDefNode):
            self.reg(getattr(node, 'scope', None), node.pos)
        elif isinstance(node, ExprNodes.ComprehensionNode) and node.has_local_scope:
            self.reg(node.expr_scope, node.pos)
        if isinstance(node, ExprNodes.NameNode) and node.entry is not None:
            self.names.append((node.pos[1], node.pos[2], str(node.name), node.entry))
        self.depth += 1
        self.visitchildren(node)
        self.depth -= 1

def analyse(path):
    opts = CompilationOptions(Options.default_options, language_level=3)
    context = Context.from_options(opts)
    old = sys.stderr
    sys.stderr = io.StringIO()
    Errors.init_thread()
    Errors.open_listing_file(None, echo_to_stderr=True)
    modname = os.path.basename(path)[:-3]
    source = CompilationSource(FileSourceDescriptor(path, os.path.basename(path)), modname, os.path.dirname(path))
    result = Main.create_default_resultobj(source, opts)
    pipeline = Pipeline.create_py_pipeline(context, opts, result)
    cut = []
    for ph in pipeline:
        cut.append(ph)
        if isinstance(ph, CreateClosureClasses):
            break
    else:
        sys.stderr = old
        return {"error": "CreateClosureClasses not in the pipeline"}
    try:
        err, tree = Pipeline.run_pipeline(cut, source)
        msg = sys.stderr.getvalue()
    finally:
        sys.stderr = old
    if err is not None or Errors.get_errors_count():
        return {"error": (str(err) + " " + msg)[-600:]}
    r = Rec()
    r.visit(tree)
    order = sorted(r.scopes.values(), key=lambda t: t[0])
    index = {id(s): i for i, (_, s) in enumerate(order)}
    out = []
    for (line, col, name, entry) in r.names:
        e = entry
        flags = []
        while getattr(e, 'outer_entry', None) is not None:
            e = e.outer_entry
        sc = e.scope
        if e.is_builtin or (sc is not None and sc.is_builtin_scope):
            cls = 'b'
        elif getattr(e, 'is_pyclass_attr', False):
            cls = 'c'
        elif sc is not None and sc.is_module_scope:
            cls = 'g'
        elif sc is not None and id(sc) in index:
            cls = 'v%d' % index[id(sc)]
        else:
            cls = '?' + type(sc).__name__
        dpos = e.pos if e.pos else ('', 0, 0)
        out.append([line, col, name, cls, dpos[1], dpos[2]])
    return {"names": out, "nscopes": len(order), "scopepos": [list(t[0]) for t in order]}

res = {}
for p in json.loads(sys.stdin.read()):
    try:
        res[p] = analyse(p)
    except BaseException as e:
        res[p] = {"error": "crash " + type(e).__name__ + ": " + str(e)[-500:]}
print(json.dumps(res))
'''


def symtab_leg(ctx, recs, variant):
    """run the staged pipeline through CreateClosureClasses on every program and compare every name
    occurrence's entry (kind + owning scope) with the Lean Cython table"""
    script = os.path.join(ctx.scratch, "c01_symtab.py")
    with open(script, "w") as f:
        f.write(SYMTAB_SCRIPT)
    d = os.path.join(ctx.scratch, "c01sym")
    os.makedirs(d, exist_ok=True)
    paths = []
    for rec in recs:
        p = os.path.join(d, rec["name"] + ".py")
        with open(p, "w") as f:
            f.write(rec["src"])
        paths.append(p)
    lines = ["C01 tab %s %s" % (variant, " ".join(prog_tokens(rec["prog"]))) for rec in recs]
    tabs = ctx.drv.batch(lines)
    live = ctx.drv.batch(["C01 scopes %s %s" % (variant, " ".join(prog_tokens(rec["prog"]))) for rec in recs])
    chunks = [list(range(i, len(recs), 8)) for i in range(8)]

    def work(idx):
        if not idx:
            return {}
        p = subprocess.run([lib.PYTHON, script], input=json.dumps([paths[i] for i in idx]), stdout=subprocess.PIPE,
                           stderr=subprocess.PIPE, text=True, timeout=900, env=lib._clean_env({"PYTHONPATH": ctx.stage}))
        if p.returncode != 0:
            raise lib.Infra("symtab leg failed: " + p.stderr[-500:])
        return json.loads(p.stdout.strip().split("\n")[-1])
    out = {}
    with cf.ThreadPoolExecutor(max_workers=8) as ex:
        for r in ex.map(work, chunks):
            out.update(r)
    nocc = nmatch = 0
    for k, rec in enumerate(recs):
        r = out.get(paths[k])
        if r is None or "error" in r:
            err = (r or {}).get("error", "no result")
            if any(pat in err for pat, _ in REJECTIONS):
                ctx.count("symtab:rejected")
                continue
            if rec.get("impl") is None and ("Traceback" in err or "crash" in err or "Error" in err):
                ctx.count("symtab:compiler-crash-reported-by-the-run-leg")
                continue
            ctx.tie_break("symtab-pipeline-error", "pipeline failed on a generated program: %s\n%s" % (cap(err, 300), cap(rec["src"][len(PROLOGUE):], 500)),
                          replay_of(rec, "model-impl-disagree", "pipeline runs", err, leg="symtab"))
            continue
        pr = rec["printer"]
        npro = PROLOGUE.count("\n")
        # scopes the compiler never creates: dead code and loops over a constant empty tuple are removed before
        # the symbol tables are built (variant flag keepsDeadDecls = 0)
        alive = {tuple(int(t) for t in it.split(".")) for it in live[k][3:].split()}
        empty = set()
        if variant[3] == "0":
            empty_comps(rec["prog"], empty)
        mine = sorted(sp for sp in pr.scopes if sp[2] in alive and sp[2][-1] not in empty)
        theirs = [i for i, sp in enumerate(r["scopepos"]) if sp[0] > npro]
        if len(mine) != len(theirs):
            ctx.tie_break("symtab-scope-count", "compiler created %d scopes, the program has %d\n%s" % (len(theirs), len(mine), cap(rec["src"][len(PROLOGUE):], 500)),
                          replay_of(rec, "model-impl-disagree", len(mine), len(theirs), leg="symtab"))
            continue
        pathof = {i: m[2] for i, m in zip(theirs, mine)}
        pathof[0] = (0,)
        model = {(q, x): b for (q, x, b) in parse_tab(tabs[k])}
        impl = {}
        for (line, col, name, cls, dl, dc) in r["names"]:
            impl[(line, col)] = (name, cls, (dl, dc))
        occ_at = {(l, c): (pth, x) for (l, c, pth, x) in pr.occ}
        for (line, col, path, x) in pr.occ:
            if path not in alive or path[-1] in empty:
                continue
            nocc += 1
            got = impl.get((line, col))
            if got is None:
                continue      # parameters and def/class names are not NameNodes
            nmatch += 1
            name, cls, dpos = got
            want = model.get((path, x), "?")
            if cls.startswith("v"):
                # a variable: identified by its declaring occurrence (entry.pos); the model must give that
                # occurrence the same binding (same owner scope).  Falls back to the position-ordered scope
                # index when the declaration is not a name occurrence of the program (def / class names).
                d = occ_at.get(dpos)
                if d is not None and model.get(d, "?").startswith("v"):
                    cls = model[d]
                    if d[0] != path and tuple(int(t) for t in cls[1:].split(".")) == d[0]:
                        ctx.count("symtab:free-or-cell-resolved-to-declaring-scope")
                else:
                    cls = "v" + ".".join(str(t) for t in pathof.get(int(cls[1:]), ("prologue",)))
            ctx.count("symtab:" + (want[0] if want else "?"))
            if name != nm(x) or cls != want:
                ctx.tie_break("symtab-entry(%s)" % variant,
                              "name %s at line %d col %d in scope %s: Symtab entry says %s, Lean cyAll says %s\n%s"
                              % (nm(x), line, col, ".".join(map(str, path)), cls, want, cap(rec["src"][len(PROLOGUE):], 600)),
                              replay_of(rec, "model-impl-disagree", want, cls, leg="symtab"))
                break
    ctx.notes["symtab_leg"] = {"name_occurrences": nocc, "matched_to_NameNode_entries": nmatch}
    if nocc and nmatch * 2 < nocc:
        ctx.tie_break("symtab-coverage", "only %d of %d name occurrences were found as NameNodes" % (nmatch, nocc), {"leg": "symtab"})


# ---------------------------------------------------------------- entry point
def generate(ctx, n, variant="cy000"):
    cands = []
    tries = 0
    while len(cands) < n and tries < 6 * n + 20:
        tries += 1
        g = Gen(ctx.rng, budget=ctx.rng.choice((40, 70, 110)))
        prog = g.program()
        cands.append((g, prog))
    progs = sanitize(ctx, [p for _, p in cands], [g.kinds for g, _ in cands], ctx.rng, variant)
    out = []
    for (g, _), prog in zip(cands, progs):
        src, _pr = print_program(prog)
        try:
            compile(src, "<c01>", "exec")
        except SyntaxError:
            ctx.count("generator:python-syntax-error-discarded")
            continue
        out.append((prog, g.schedule()))
    # discard what runs into the model's depth bound (unbounded recursion)
    lines = []
    for prog, sched in out:
        sc = []
        tok_sched(sched, sc)
        lines.append("C01 run ref " + " ".join(prog_tokens(prog) + sc))
    res = ctx.drv.batch(lines) if lines else []
    keep = []
    for (prog, sched), r in zip(out, res):
        if has_fuel(lean_trace(r)):
            ctx.count("generator:recursion-depth-discarded")
            continue
        keep.append((prog, sched))
    return keep


def run(ctx):
    ctx.rule = ("programs of the scoping mini-AST (module/def/lambda/class/comprehension/genexp; assignment, augmented assignment, "
                "global, nonlocal, del, walrus, nested defs, calls, return) generated from VERIF_SEED with a 4-name variable pool "
                "and a 4-name function pool (to force shadowing/rebinding), sanitised against the compiler's documented compile-time "
                "rejections, printed as Python, compiled with the staged compiler, driven by a call schedule; a case is non-trivial "
                "when its trace has >= 2 events")
    ctx.explanation = ("Only name resolution/scoping (which binding every name occurrence denotes, and the resulting store behaviour) "
                       "is proved, on the mini-AST fragment.  The rest of C01 (unpacking, conditional expressions, attribute/subscript "
                       "augmented assignment, builtins calls, decorators, try/finally, formatting, ...) is covered by NO theorem: it is "
                       "only searched differentially against CPython (c01_search).  Exception messages are compared, not modelled.")
    ctx.assumptions = ["the run theorem assumes no occurrence is resolved to a compile-time builtin (programs reading builtins are "
                       "covered by the static theorem modulo builtin=global and by the differential run only)",
                       "no external mutation of the module dict for names the module never binds (C26's subject)"]
    ctx.extra_trusted = ["pretty-printer and trace encoder of harness/props/c01.py", "CPython 3.12.1 as reference semantics"]
    if ctx.replay_case and ctx.replay_case.get("leg") == "search":
        import props.c01_search as S
        S.replay_search(ctx, ctx.replay_case)
        return
    if ctx.replay_case and "prog" in ctx.replay_case:
        prog = from_json(ctx.replay_case["prog"])
        sched = from_json(ctx.replay_case["sched"])
        fixed = evaluate(ctx, [(t, p, s) for t, p, s in FIXED[:3]] + [("replay", prog, sched)], ALL_VARIANTS)
        variant = detect_variant(ctx, fixed[:3])
        judge(ctx, fixed[3], variant)
        symtab_leg(ctx, fixed[3:], variant)
        return
    # 1. fixed witnesses (the programs of Props/C01.lean)
    fixed = evaluate(ctx, [(t, p, s) for t, p, s in FIXED] + [W_INJECT], ALL_VARIANTS)
    variant = detect_variant(ctx, fixed[:3])
    for rec in fixed[:-1]:
        judge(ctx, rec, variant)
    inj = fixed[-1]
    if inj["impl"] is not None:
        imp, ora = fmt_trace(inj["impl"]["trace"]), fmt_trace(inj["oracle"]["trace"])
        ctx.count("case:builtin-inject")
        if imp != ora:
            ctx.violation("module-setattr-of-unbound-builtin-name-ignored",
                          "def n10(): return tuple; setattr(module, 'tuple', 'z'); n10() -> CPython %s, compiled %s "
                          "(builtin looked up once at module init)" % (ora, imp), replay_of(inj, "impl-violates", ora, imp))
        else:
            ctx.notes["builtin_counterexample"] = "witness no longer reproduces"
        if inj[variant] != imp:
            ctx.tie_break("run-model-vs-compiled(%s)" % variant, "inject witness: model %s compiled %s" % (inj[variant], imp),
                          replay_of(inj, "model-impl-disagree", inj[variant], imp))
        if inj["ref"] != ora:
            ctx.tie_break("ref-model-vs-cpython", "inject witness: model %s CPython %s" % (inj["ref"], ora),
                          replay_of(inj, "model-impl-disagree", inj["ref"], ora))
    # 2. generated programs
    n = int(ctx.n(24, 240) * ctx.budget_scale)
    cases = [("gen#%d" % i, p, s) for i, (p, s) in enumerate(generate(ctx, n, variant))]
    recs = evaluate(ctx, cases, [variant])
    for rec in recs:
        judge(ctx, rec, variant)
    for rec in recs[:3]:
        ctx.sample({"source": cap(rec["src"][len(PROLOGUE):], 600), "schedule": cap(sched_json(rec["sched"]), 150),
                    "trace": cap(fmt_trace(rec["oracle"]["trace"]), 200)})
    # 3. the real symbol tables
    symtab_leg(ctx, fixed[:-1] + recs, variant)
    # 4. search leg for the rest of C01 (no theorem)
    try:
        import props.c01_search as S
    except ImportError:
        S = None
    if S is not None:
        # exception *messages* are not compared in the search leg (a long tail of wording-only differences:
        # unpacking, * / ** call arguments, slicing); types, values and side-effect logs are
        S.COMPARE_MESSAGES = False
        if ctx.quick:
            # Quick tier: fixed generator seed, so that the searched programs (and hence the set of known deviations
            # they meet) are the same on every run, whatever VERIF_SEED is: an open-ended random search over "all pure
            # Python" meets further small deviations with every new seed and cannot be a per-change check.
            # The seed-driven search is the thorough tier.  (The proved fragment's three-way tie above stays seed-driven.)
            import random
            saved = ctx.rng
            ctx.rng = random.Random(101)
            ctx.notes["search_leg_seed"] = "fixed (101) in the quick tier; VERIF_SEED drives it in the thorough tier"
            try:
                S.run_search(ctx, n_modules=ctx.n(4, 24))
            finally:
                ctx.rng = saved
        else:
            S.run_search(ctx, n_modules=ctx.n(4, 24))


def detect_variant(ctx, probes):
    """probes: the evaluated records of FIXED[0..2] (one witness per variant flag)"""
    bits = ""
    for pos, probe in enumerate(probes):
        if probe["impl"] is None:
            raise lib.Infra("probe module does not build: " + probe["build_error"][-300:])
        imp = fmt_trace(probe["impl"]["trace"])
        one = "cy" + "".join("1" if q == pos else "0" for q in range(3))
        if imp == probe[one] and imp != probe["cy000"]:
            bits += "1"
        elif imp == probe["cy000"]:
            bits += "0"
        else:
            bits += "0"
            ctx.tie_break("variant-probe-%d" % pos, "probe %s matches neither variant: %s" % (probe["tag"], imp),
                          replay_of(probe, "model-impl-disagree", probe["cy000"], imp))
    variant = "cy" + bits
    ctx.notes["variant"] = {"detected": variant,
                            "flags": "compSkipsClass=%s keepsDeadDecls=%s delGlobalNameError=%s (0 = current code)" % tuple(bits)}
    return variant
